"""C11 Scale and Impute apply exactly the statistics of their fitting window."""
import copy
import json
import math
import os
import statistics
from fractions import Fraction

from core.engine import Property, F

NAN = "nan"
EPS = Fraction(1, 1000000)


# ------------------------------------------------------------------ values
def V(x, t=None):
    """case-level value of a python number (exact)"""
    if x is None:
        return None
    if isinstance(x, str):
        return {"s": x}
    fr = Fraction(x)
    return {"q": [fr.numerator, fr.denominator], "t": t or ("i" if isinstance(x, int) else "f")}


def is_num(v):
    return isinstance(v, dict) and "q" in v


def is_str(v):
    return isinstance(v, dict) and "s" in v


def fr(v):
    return Fraction(v["q"][0], v["q"][1])


def to_py(v):
    if v is None:
        return None
    if v == NAN:
        return float("nan")
    if is_str(v):
        return v["s"]
    n, d = v["q"]
    if v.get("t") == "i" and d == 1:
        return int(n)
    return n / d


def from_py(x):
    """canonical form of a python value coming out of the implementation"""
    if x is None:
        return None
    if isinstance(x, bool):
        return {"q": [int(x), 1], "t": "i"}
    if isinstance(x, int):
        return {"q": [x, 1], "t": "i"}
    if isinstance(x, float):
        if math.isnan(x):
            return NAN
        if math.isinf(x):
            return {"inf": 1 if x > 0 else -1}
        n, d = x.as_integer_ratio()
        return {"q": [n, d], "t": "f"}
    if isinstance(x, str):
        return {"s": x}
    return {"other": repr(x)[:60]}


def to_lean(v):
    if v is None or v == NAN or is_str(v):
        return v if not is_str(v) else {"s": v["s"]}
    return [v["q"][0], v["q"][1]]


def from_lean(j):
    if j is None or j == NAN:
        return j
    if isinstance(j, dict):
        return {"s": j["s"]}
    return {"q": [j[0], j[1]], "t": "f"}


def param_py(p):
    return p if isinstance(p, str) else to_py(p)


def param_lean(p):
    return p if isinstance(p, str) else to_lean(p)


def show(v):
    if v is None:
        return "None"
    if v == NAN:
        return "nan"
    if is_str(v):
        return repr(v["s"])
    if is_num(v):
        return repr(to_py(v))
    return str(v)


# ------------------------------------------------------------------ building and running
# phase 6: sparse keys that are not strings.  A case names its sparse features 'a'..'d'; `keystyle` says which Python objects
# stand for them in the real contexts (per row: variant number `row % len(variants)`).  A feature is identified by key EQUALITY
# (1 == 1.0 == True are one dict key), never by str()/repr() of the key.
KEYSTYLES = {
    "int": {"a": [0], "b": [1], "c": [2], "d": [7]},                                   # feature indices (libsvm, hashing)
    "mixed": {"a": [1], "b": ["b"], "c": [2.5], "d": [(0, "x")]},                      # unorderable among each other
    "equalnum": {"a": [1, 1.0, True], "b": [0, 0.0, False], "c": ["c"], "d": [2, 2.0]},  # equal keys of different types across rows
    "collide": {"a": [1], "b": ["1"], "c": [1.5], "d": ["1.5"]},                       # different keys with the same str() (no indicators)
}
_KEYSTYLE = [None]


def eff_keystyle(case):
    """the key style in force: only plain dict contexts; 'collide' (different keys, same str()) not where Impute derives indicator
    NAMES from keys (f"{k}_is_missing" of 1 and '1' coincide - the result could not be mapped back to features)"""
    st = case.get("keystyle")
    if not st or case.get("scontainer", "dict") != "dict":
        return None
    if st == "collide" and case.get("op") == "impute" and case.get("ind", True):
        return None
    return st


def pykey(style, name, row=0):
    if not style:
        return name
    vs = KEYSTYLES[style].get(name)
    return name if vs is None else vs[row % len(vs)]


def unkey(k):
    """the case's name of a key found in a result context (identity for the default string keys)"""
    style = _KEYSTYLE[0]
    if not style:
        return str(k)
    for name, vs in KEYSTYLES[style].items():
        if any(type(k) in (int, float, bool, str, tuple) and k == v and (isinstance(k, str) == isinstance(v, str)) for v in vs):
            return name
    if isinstance(k, str) and k.endswith("_is_missing"):
        for name, vs in KEYSTYLES[style].items():
            if any(k[:-11] == str(v) for v in vs):
                return name + "_is_missing"
    return k if isinstance(k, str) else "?" + repr(k)


def py_context(case, ctx, kind=None, row=0):
    kind = kind or case["kind"]
    if kind == "dense":
        vals = [to_py(v) for v in ctx]
        cont = case.get("container", "tuple")
        if cont in ("tuple", "list"):
            return tuple(vals) if cont == "tuple" else vals
        # coba's own row objects, as real pipelines deliver them
        from coba.pipes import rows as R
        if cont == "sparsedense":       # what Densify / Environments.dense produce: dense view over the non-zero entries
            return R.SparseDense({i: v for i, v in enumerate(vals) if not (isinstance(v, (int, float)) and v == 0)}, len(vals))
        if cont == "lazydense":
            return R.LazyDense(lambda vals=vals: vals)
        if cont == "headdense":
            return R.HeadDense(vals, {"h%d" % i: i for i in range(len(vals))})
        raise ValueError(cont)
    if kind == "sparse":
        cont = case.get("scontainer", "dict")
        if cont == "dict":
            return {pykey(eff_keystyle(case), k, row): to_py(v) for k, v in ctx}
        d = {k: to_py(v) for k, v in ctx}
        from coba.pipes import rows as R
        if cont == "lazysparse":
            return R.LazySparse(lambda d=d: d)
        if cont == "headsparse":
            return R.HeadSparse(d, {k: k for k in d}, {k: k for k in d})
        raise ValueError(cont)
    return to_py(ctx)


def make_interactions(case, rows=None, kind=None):
    from coba.primitives import SimulatedInteraction, LoggedInteraction
    rows = case["rows"] if rows is None else rows
    out = []
    _KEYSTYLE[0] = eff_keystyle(case)
    for i, ctx in enumerate(rows):
        if ctx == "nocontext":
            out.append({"action": i, "reward": 1, "tag": "t%d" % i})
            continue
        c = py_context(case, ctx, kind, i)
        it = case.get("itype", "sim")
        if it == "sim":
            out.append(SimulatedInteraction(c, [(1, 0), (0, 1), (2, i)], [0.25, 0.5, float(i)], tag="t%d" % i, n=i))
        elif it == "log":
            out.append(LoggedInteraction(c, (i, 1), 0.5 * i, 0.25, actions=[(i, 1), (0, 0)], tag="t%d" % i))
        else:
            out.append({"context": c, "actions": ["x", "y"], "rewards": [1, i], "tag": "t%d" % i})
    return out


def canon_context(c):
    if isinstance(c, dict):
        return {"kind": "sparse", "v": sorted(([unkey(k), from_py(v)] for k, v in c.items()), key=lambda kv: kv[0])}
    if isinstance(c, (list, tuple)):
        return {"kind": "dense", "v": [from_py(v) for v in c]}
    if hasattr(c, "items") and hasattr(c, "keys"):
        return {"kind": "sparse", "v": sorted(([unkey(k), from_py(v)] for k, v in c.items()), key=lambda kv: kv[0])}
    if hasattr(c, "__iter__") and not isinstance(c, str):
        return {"kind": "dense", "v": [from_py(v) for v in c]}
    return {"kind": "scalar", "v": from_py(c)}


def same_py(a, b):
    """equality that treats nan as equal to nan (for the 'left untouched' comparisons)"""
    if isinstance(a, float) and isinstance(b, float) and math.isnan(a) and math.isnan(b):
        return True
    if isinstance(a, (list, tuple)) and isinstance(b, (list, tuple)):
        return len(a) == len(b) and all(same_py(x, y) for x, y in zip(a, b))
    if isinstance(a, dict) and isinstance(b, dict):
        return a.keys() == b.keys() and all(same_py(a[k], b[k]) for k in a)
    def seq_like(x):
        return not isinstance(x, (str, bytes, dict)) and hasattr(x, "__len__") and hasattr(x, "__iter__") and hasattr(x, "__getitem__")
    if type(a) is type(b) and not isinstance(a, (list, tuple, dict)):
        # coba row objects: compare what they hold (their == uses eq element-wise, which fails on nan)
        if hasattr(a, "items") and hasattr(a, "keys"):
            try:
                return same_py(dict(a.items()), dict(b.items()))
            except Exception:
                pass
        elif seq_like(a):
            try:
                return same_py(list(a), list(b))
            except Exception:
                pass
    try:
        if a == b:
            return True
    except Exception:
        pass
    return type(a) is type(b) and repr(a) == repr(b)


def call_kwargs(case, stat=None):
    """the keyword arguments of the Scale / Impute / Environments.scale / Environments.impute call of a case.
    `case["omit"]` lists keywords that are NOT passed (the case then states the documented default for them)."""
    omit = set(case.get("omit", ()))
    env = case.get("via", "filter") == "env"
    kw = {}
    if case["op"] == "scale":
        if "shift" not in omit:
            kw["shift"] = param_py(case["shift"])
        if "scale" not in omit:
            kw["scale"] = param_py(case["scale"])
        if "using" not in omit and (case.get("using") is not None or case.get("explicit_using") or not env):
            kw["using"] = case.get("using")
        if case.get("targets") is not None:
            t = case["targets"]
            if env:
                kw["targets"] = t[0] if (len(t) == 1 and case.get("targets_as_str")) else list(t)
            else:
                kw["target"] = t[0]
    else:
        if "stats" not in omit:
            if env:
                kw["stats"] = case["stats"] if (len(case["stats"]) > 1 or case.get("stats_as_list")) else case["stats"][0]
            else:
                kw["stat"] = stat or case["stats"][0]
        if "ind" not in omit:
            kw["indicator"] = case["ind"]
        if "using" not in omit:
            kw["using"] = case.get("using")
    return kw


def canon_params(p):
    return {str(k): (v if isinstance(v, (str, type(None))) else (bool(v) if isinstance(v, bool) else from_py(v))) for k, v in dict(p).items()}


def make_filter(case, stat=None):
    from coba.environments.filters import Scale, Impute
    kw = call_kwargs(dict(case, via="filter"), stat)
    return Scale(**kw) if case["op"] == "scale" else Impute(**kw)


MemEnv = None


def mem_env_class():
    """a picklable in-memory coba Environment (module attribute `MemEnv`, so pickle finds it by reference)"""
    global MemEnv
    if MemEnv is None:
        from coba.primitives import Environment

        class _MemEnv(Environment):
            def __init__(self, items):
                self._items = items

            def read(self):
                return self._items

            @property
            def params(self):
                return {}

        _MemEnv.__name__ = _MemEnv.__qualname__ = "MemEnv"
        _MemEnv.__module__ = __name__
        MemEnv = _MemEnv
    return MemEnv


def clone_of(obj, how):
    """a copy of a filter object / of a whole Environments pipeline, as they reach worker processes or user code"""
    import pickle
    if how == "pickle":
        return pickle.loads(pickle.dumps(obj))
    if how == "deepcopy":
        return copy.deepcopy(obj)
    if how == "copy":
        return copy.copy(obj)
    raise ValueError(how)


def run_impl(case, rows=None, kind=None):
    """run the real filter; returns dict(out=[canonical contexts] | err=.., others_ok, mutated, n)"""
    import warnings
    warnings.filterwarnings("ignore")
    inter = make_interactions(case, rows, kind)
    before = copy.deepcopy([dict(i) for i in inter])
    res = {}
    try:
        if case.get("via", "filter") == "env":
            from coba.environments import Environments
            from coba.primitives import Environment

            class _Env(Environment):
                def __init__(self, items):
                    self._items = items

                def read(self):
                    return self._items

                @property
                def params(self):
                    return {}

            mk_env = _Env
            if case.get("clone"):
                mk_env = mem_env_class()  # must be picklable by reference
            base = list(Environments(mk_env(inter))[0].read())
            envs = Environments(mk_env(inter))
            if case["op"] == "scale":
                envs = envs.scale(**call_kwargs(case))
            else:
                if case.get("chain"):
                    for st in case["stats"]:
                        envs = envs.impute(st, case["ind"], case.get("using"))
                else:
                    envs = envs.impute(**call_kwargs(case))
            res["n_envs"] = len(envs)
            orig_envs = envs
            if case.get("clone"):
                envs = clone_of(envs, case["clone"])     # the copy is made before the original is ever read
            res["params"] = canon_params(envs[0].params)
            out = list(envs[0].read())
            if case.get("clone"):
                o2 = {"params": canon_params(orig_envs[0].params)}
                res["original"] = finish_run(o2, list(orig_envs[0].read()), base, before, inter)
        else:
            base = inter
            flt = make_filter(case)
            orig = flt
            if case.get("clone"):
                flt = clone_of(flt, case["clone"])
            res["params"] = canon_params(flt.params)
            out = list(flt.filter(inter))
            if case.get("clone"):
                o2 = {"params": canon_params(orig.params)}
                res["original"] = finish_run(o2, list(orig.filter(inter)), inter, before, inter)
    except Exception as e:  # noqa: the kind of exception is part of the observable
        res["err"] = type(e).__name__
        res["msg"] = str(e)[:200]
        res["mutated"] = not same_py(before, [dict(i) for i in inter])
        return res
    return finish_run(res, out, base, before, inter)


def finish_run(res, out, base, before, inter):
    """canonical observable of one run: contexts, other fields vs. the baseline, input mutation"""
    res["n"] = len(out)
    # a dense context is read by iterating it (list(ctx), Finalize, learners) or by index: after the filter has written into
    # it both readings, repeated, must agree
    for k, o in enumerate(out):
        c = o.get("context") if hasattr(o, "get") else None
        if c is not None and not isinstance(c, (str, dict)) and hasattr(c, "__len__") and hasattr(c, "__getitem__") and not hasattr(c, "keys"):
            try:
                by_index = [c[i] for i in range(len(c))]
                it1, it2 = list(c), list(c)
                if not (same_py(by_index, it1) and same_py(it1, it2)):
                    res["views_bad"] = "interaction %d (%s): by index %r, iterated %r, iterated again %r" % (k, type(c).__name__, by_index, it1, it2)
                    break
            except Exception as e:  # noqa
                res["views_bad"] = "interaction %d (%s): reading the context raised %s" % (k, type(c).__name__, type(e).__name__)
                break
    res["out"] = [canon_context(o["context"]) if "context" in o else "nocontext" for o in out]
    others_ok = len(out) == len(base)
    bad = None
    if others_ok:
        for k, (o, b) in enumerate(zip(out, base)):
            ko = [x for x in o.keys() if x != "context"]
            kb = [x for x in b.keys() if x != "context"]
            if sorted(ko) != sorted(kb) or ("context" in o) != ("context" in b):
                others_ok, bad = False, "row %d: keys %s vs %s" % (k, sorted(o.keys()), sorted(b.keys()))
                break
            for x in ko:
                if not same_py(o[x], b[x]):
                    others_ok, bad = False, "row %d: field %r is %r, was %r" % (k, x, o[x], b[x])
                    break
            if not others_ok:
                break
    else:
        bad = "%d interactions in, %d out" % (len(base), len(out))
    res["others_ok"] = others_ok
    res["others_bad"] = bad
    res["mutated"] = not same_py(before, [dict(i) for i in inter])
    return res


def _mem_env(items):
    from coba.primitives import Environment

    class _Env(Environment):
        def __init__(self, its):
            self._items = its

        def read(self):
            return self._items

        @property
        def params(self):
            return {}

    return _Env(items)


def sub_cases(case):
    """the single-sequence cases of a sequence case (shared configuration, own table)"""
    cfg = {k: v for k, v in case.items() if k not in ("seq", "mode", "read_order")}
    return [dict(cfg, **sub) for sub in case["seq"]]


def run_seq(case):
    """ONE filter object applied to several different sequences one after the other (mode 'reuse'), or
    Environments([envA, envB, ..]).scale/impute read in the order `read_order` (mode 'envs').
    returns [(index of the sub-case, result as run_impl)] in execution order"""
    import warnings
    warnings.filterwarnings("ignore")
    subs = sub_cases(case)
    inters = [make_interactions(sc) for sc in subs]
    order = case.get("read_order") or list(range(len(subs)))
    results = []
    envs = None
    flt = None
    setup_err = None
    try:
        if case["mode"] == "envs":
            from coba.environments import Environments
            envs = Environments([_mem_env(it) for it in inters])
            if case["op"] == "scale":
                kw = {}
                if case.get("using") is not None:
                    kw["using"] = case["using"]
                envs = envs.scale(param_py(case["shift"]), param_py(case["scale"]), **kw)
            else:
                stats = case["stats"] if len(case["stats"]) > 1 else case["stats"][0]
                envs = envs.impute(stats, case["ind"], case.get("using"))
        else:
            flt = make_filter(subs[0])
    except Exception as e:  # noqa
        setup_err = e
    for idx in order:
        inter = inters[idx]
        before = copy.deepcopy([dict(i) for i in inter])
        res = {}
        try:
            if setup_err is not None:
                raise setup_err
            if envs is not None:
                from coba.environments import Environments
                base = list(Environments(_mem_env(inter))[0].read())
                out = list(envs[idx].read())
            else:
                base = inter
                out = list(flt.filter(inter))
        except Exception as e:  # noqa
            res["err"] = type(e).__name__
            res["msg"] = str(e)[:200]
            res["mutated"] = not same_py(before, [dict(i) for i in inter])
            results.append((idx, res))
            continue
        results.append((idx, finish_run(res, out, base, before, inter)))
    return results


# ------------------------------------------------------------------ phase 6: histories over generators
GENS_KEYS = ("seq", "mode", "read_order", "history", "gmode")


def gens_subs(case):
    cfg = {k: v for k, v in case.items() if k not in GENS_KEYS}
    return [dict(cfg, **sub) for sub in case["seq"]]


def canon_item(o):
    """what a consumer sees of one yielded interaction: canonical context + the other fields"""
    c = canon_context(o["context"]) if "context" in o else "nocontext"
    return c, copy.deepcopy({k: v for k, v in o.items() if k != "context"})


def run_gens(case):
    """a HISTORY of open / next / close over generators made from ONE filter object (gmode 'reuse': obj.filter(seq[i])) or
    from ONE Environments([..]).scale/impute call (gmode 'envs': envs[i].read()).  Nothing is drained unless the history says so.
    returns dict(outs=[one record per operation], gens=[per generator: src, items (canonical, taken when yielded),
    later (canonical, taken at the end of the history), others_bad], mutated=[per sequence])"""
    import warnings
    warnings.filterwarnings("ignore")
    subs = gens_subs(case)
    inters = [make_interactions(sc) for sc in subs]
    befores = [copy.deepcopy([dict(i) for i in it]) for it in inters]
    envs = flt = setup_err = None
    bases = [None] * len(subs)
    try:
        if case["gmode"] == "envs":
            from coba.environments import Environments
            for i, it in enumerate(inters):
                bases[i] = list(Environments(_mem_env(it))[0].read())
            envs = Environments([_mem_env(it) for it in inters])
            if case["op"] == "scale":
                kw = {}
                if case.get("using") is not None:
                    kw["using"] = case["using"]
                envs = envs.scale(param_py(case["shift"]), param_py(case["scale"]), **kw)
            else:
                stats = case["stats"] if len(case["stats"]) > 1 else case["stats"][0]
                envs = envs.impute(stats, case["ind"], case.get("using"))
        else:
            bases = [list(it) for it in inters]
            flt = make_filter(subs[0])
    except Exception as e:  # noqa
        setup_err = e
    gens, outs = [], []
    for t, n in case["history"]:
        if t == "open":
            if n >= len(subs):
                outs.append({"t": "nosrc"})
                continue
            g = {"src": n, "raw": [], "items": [], "it": iter(()), "pending": None}
            try:
                if setup_err is not None:
                    raise setup_err
                g["it"] = iter(envs[n].read()) if envs is not None else iter(flt.filter(inters[n]))
            except Exception as e:  # noqa: an exception of a non-lazy read() belongs to the first next
                g["pending"] = e
            gens.append(g)
            outs.append({"t": "opened"})
            continue
        if n >= len(gens):
            outs.append({"t": "nogen"})
            continue
        g = gens[n]
        if t == "next":
            if g["pending"] is not None:
                e, g["pending"] = g["pending"], None
                outs.append({"t": "raised", "g": n, "err": type(e).__name__, "msg": str(e)[:200]})
                continue
            try:
                x = next(g["it"])
                g["raw"].append(x)
                g["items"].append(canon_item(x))
                outs.append({"t": "item", "g": n, "j": len(g["items"]) - 1})
            except StopIteration:
                outs.append({"t": "stop", "g": n})
            except Exception as e:  # noqa
                g["it"] = iter(())
                outs.append({"t": "raised", "g": n, "err": type(e).__name__, "msg": str(e)[:200]})
        else:
            g["pending"] = None
            try:
                cl = getattr(g["it"], "close", None)
                if cl is not None:
                    cl()
                outs.append({"t": "closed", "g": n})
            except Exception as e:  # noqa
                outs.append({"t": "raised", "g": n, "err": type(e).__name__, "msg": "on close: " + str(e)[:200]})
            g["it"] = iter(())
    res_gens = []
    for g in gens:
        later = [canon_item(x) for x in g["raw"]]
        fr_ = finish_run({}, g["raw"], (bases[g["src"]] or [])[:len(g["raw"])], befores[g["src"]], inters[g["src"]]) if bases[g["src"]] is not None else {}
        res_gens.append({"src": g["src"], "items": g["items"], "later": later, "others_bad": fr_.get("others_bad"),
                         "views_bad": fr_.get("views_bad")})
    return {"outs": outs, "gens": res_gens, "mutated": [not same_py(b, [dict(i) for i in it]) for b, it in zip(befores, inters)]}


def show_canon(c):
    if not isinstance(c, dict) or "kind" not in c:
        return str(c)
    if c["kind"] == "dense":
        return "[" + ", ".join(show(v) for v in c["v"]) + "]"
    if c["kind"] == "sparse":
        return "{" + ", ".join("%r: %s" % (k, show(v)) for k, v in c["v"]) + "}"
    return show(c["v"])


def canon_close(a, b):
    """two canonical values agree (numbers up to float noise)"""
    if isinstance(a, dict) and isinstance(b, dict):
        return set(a) == set(b) and all(canon_close(a[k], b[k]) for k in a)
    if isinstance(a, (list, tuple)) and isinstance(b, (list, tuple)):
        return len(a) == len(b) and all(canon_close(x, y) for x, y in zip(a, b))
    if is_num(a) and is_num(b):
        return close(fr(a), fr(b), max(1.0, abs(float(fr(a)))))
    return a == b


# ------------------------------------------------------------------ exact reference (fractions)
def window_rows(case, rows):
    u = case.get("using")
    return rows if u is None else rows[:u]


def feature_keys(kind, rows):
    if kind == "dense":
        return list(range(len(rows[0]))) if rows else []
    if kind == "sparse":
        ks = []
        for r in rows:
            for k, _ in r:
                if k not in ks:
                    ks.append(k)
        return ks
    return [0]


ABSENT = "absent"


def cell(kind, row, k):
    if kind == "dense":
        return row[k] if k < len(row) else ABSENT
    if kind == "sparse":
        for kk, v in row:
            if kk == k:
                return v
        return ABSENT
    return row


def column(kind, rows, k):
    return [cell(kind, r, k) for r in rows]


def f_median(xs):
    s = sorted(xs)
    n = len(s)
    return s[n // 2] if n % 2 else (s[n // 2 - 1] + s[n // 2]) / 2


def f_quantile(xs, p):
    """linear interpolation between closest ranks (the documented percentile of coba.statistics)"""
    s = sorted(xs)
    h = p * (len(s) - 1)
    i = math.floor(h)
    if h == i:
        return s[i]
    return s[i] + (h - i) * (s[i + 1] - s[i])


def ref_scale_params(case, wcol):
    """(shift, den, num) as Fractions from the window column (cells; absent already mapped to 0).
    returns None when a statistic is undefined on this window; den is a float for std."""
    xs = [fr(v) for v in wcol if is_num(v)]
    sh, sc = case["shift"], case["scale"]
    if isinstance(sh, str):
        if not xs:
            return None
        s = -min(xs) if sh == "min" else (-sum(xs) / len(xs) if sh == "mean" else -f_median(xs))
    else:
        s = fr(sh)
    num = Fraction(1)
    if isinstance(sc, str):
        if sc == "minmax":
            if not xs:
                return None
            den = max(xs) - min(xs)
        elif sc == "maxabs":
            if not xs:
                return None
            den = max(abs(x + s) for x in xs)
        elif sc == "iqr":
            den = Fraction(0) if len(xs) <= 1 else f_quantile(xs, Fraction(3, 4)) - f_quantile(xs, Fraction(1, 4))
        else:
            if len(xs) < 2:
                return None
            m = sum(xs) / len(xs)
            var = sum((x - m) ** 2 for x in xs) / (len(xs) - 1)
            den = math.sqrt(var)      # float; compared with tolerance
    else:
        num, den = fr(sc), Fraction(1)
    return s, den, num


def close(a, b, scale_hint=1.0):
    """a (impl, exact float as Fraction) vs b (reference) within 1e-9 relative to the operands"""
    tol = 1e-9 * max(1.0, abs(float(b)), float(scale_hint))
    return abs(float(a) - float(b)) <= tol


def py_is_int(v):
    return is_num(v) and v.get("t") == "i"


class Ref:
    """evaluates the property on one run of the implementation"""

    def __init__(self, case, kind, rows, impl, label):
        self.case, self.kind, self.rows, self.impl, self.label = case, kind, rows, impl, label
        self.fails = []
        self.tags = set()
        self.demanded = 0

    def fail(self, what, sig):
        self.fails.append(F("B", "[%s %s] %s" % (self.label, self.kind, what), sig))

    # -- data facts used to make signatures narrow
    def facts(self):
        flat = []
        for r in self.rows:
            if r == "nocontext":
                continue
            flat += ([v for v in r] if self.kind == "dense" else [v for _, v in r] if self.kind == "sparse" else [r])
        return {"none": int(any(v is None for v in flat)), "nan": int(any(v == NAN for v in flat)), "str": int(any(is_str(v) for v in flat))}

    def common(self):
        """exceptions, row count, other fields; returns False when there is nothing further to check"""
        case, impl = self.case, self.impl
        if "err" in impl:
            if case["op"] == "scale" and self.kind == "sparse" and impl["err"] == "CobaException" and not self.shift_is_zero():
                self.tags.add("sparse-shift-rejected")
                return False      # documented rejection
            self.fail("%s raised %s(%s) on an input inside the property's quantifier" % (case["op"], impl["err"], impl.get("msg", "")),
                      "%s-raises-%s:%s" % (case["op"], impl["err"], self.raise_cause()))
            return False
        if case["op"] == "scale" and self.kind == "sparse" and not self.shift_is_zero() and self.rows and self.rows[0] != "nocontext":
            # the documented behaviour is the rejection; nothing else is demanded here
            return False
        if impl["n"] != len(self.rows):
            self.fail("%d interactions went in, %d came out" % (len(self.rows), impl["n"]), "%s-row-count" % case["op"])
            return False
        if not impl.get("others_ok", True):
            self.fail("a field other than the context changed: %s" % impl.get("others_bad"), "%s-other-field-changed" % case["op"])
        return True

    def raise_cause(self):
        """what in the input explains an exception (keeps the signature of a known defect narrow)"""
        case, impl, f = self.case, self.impl, self.facts()
        msg = impl.get("msg", "")
        if case["op"] == "scale":
            if impl["err"] == "TypeError" and "NoneType" in msg and f["none"] and self.kind in ("dense", "sparse"):
                return "none-cell"
            if impl["err"] == "TypeError" and "str" in msg and f["str"]:
                return "string-cell"
            if impl["err"] == "AttributeError" and case["scale"] == "std" and f["nan"]:
                return "std-nan"
        else:
            if impl["err"] == "KeyError" and self.kind == "sparse" and f["none"]:
                return "sparse-none-cell"
            if impl["err"] == "TypeError" and "SparseDense" in msg and case.get("container") == "sparsedense":
                return "sparsedense-context"
        return "%s:other" % self.kind

    def shift_is_zero(self):
        sh = self.case["shift"]
        return (not isinstance(sh, str)) and fr(sh) == 0

    # -- Scale
    def check_scale(self):
        case, kind, rows, out = self.case, self.kind, self.rows, self.impl["out"]
        win = window_rows(case, rows)
        for i, (r, o) in enumerate(zip(rows, out)):
            if o["kind"] != kind:
                self.fail("row %d: a %s context became %s" % (i, kind, o["kind"]), "scale-context-kind-changed:%s" % kind)
                return
            if kind == "dense" and len(o["v"]) != len(r):
                self.fail("row %d: %d features became %d" % (i, len(r), len(o["v"])), "scale-shape-changed:dense")
                return
            if kind == "sparse" and [k for k, _ in o["v"]] != sorted(k for k, _ in r):
                self.fail("row %d: keys %s became %s" % (i, sorted(k for k, _ in r), [k for k, _ in o["v"]]), "scale-shape-changed:sparse")
                return
        for k in feature_keys(kind, rows):
            colv = column(kind, rows, k)
            present = [v for v in colv if v is not ABSENT]
            has_str = any(is_str(v) for v in present)
            has_num = any(is_num(v) for v in present) or len(present) < len(colv)   # an absent sparse key counts as the number 0
            mixed = has_str and has_num   # mixed-type column (incl. a string key absent from a sparse row): numbers not pinned
            wcol = [(V(0) if v is ABSENT else v) for v in column(kind, win, k)]
            params = None if has_str else ref_scale_params(case, wcol)
            for i, v in enumerate(colv):
                if v is ABSENT:
                    continue
                got = cell("sparse" if kind == "sparse" else kind, out[i]["v"], k) if kind != "scalar" else out[i]["v"]
                # untouched: strings, None, nan
                if not is_num(v):
                    self.demanded += 1
                    if got != v:
                        self.fail("row %d feature %r: the %s value %s became %s" % (i, k, "string" if is_str(v) else "missing", show(v), show(got)),
                                  "scale-nonnumeric-changed:%s:%s" % (kind, "str" if is_str(v) else "missing"))
                    continue
                if params is None or mixed:
                    # statistic undefined on this window: no value is pinned, but a number must stay a number
                    if not mixed and not is_num(got):
                        self.demanded += 1
                        self.fail("row %d feature %r: the number %s became %s" % (i, k, show(v), show(got)), self.scale_sig(k, colv, wcol, v, got))
                    continue
                s, den, num = params
                x = fr(v)
                if not is_num(got):
                    self.demanded += 1
                    self.fail("row %d feature %r: the number %s became %s" % (i, k, show(v), show(got)), self.scale_sig(k, colv, wcol, v, got))
                    continue
                g = fr(got)
                cands = []
                if den == 0 or (isinstance(den, float) and den == 0.0):
                    cands = [(x + s) * num]
                elif den < 1e-6:
                    cands = [(x + s) * num, (x + s) * num / Fraction(den)]   # degenerate band: either reading
                else:
                    cands = [(x + s) * num / Fraction(den)]
                self.demanded += 1
                hint = (abs(float(x)) + abs(float(s))) * abs(float(num)) / (float(den) if den >= 1e-6 else 1.0)
                if not any(close(g, c, hint) for c in cands):
                    self.fail("row %d feature %r: %s became %s; with shift=%s scale=%s over the first %s interactions (window values %s) "
                              "(x+shift)*scale = %s" % (i, k, show(v), show(got), param_py(case["shift"]), param_py(case["scale"]),
                                                         case.get("using"), [show(w) for w in wcol], float(cands[-1])),
                              self.scale_sig(k, colv, wcol, v, got))

    def scale_sig(self, k, colv, wcol, v, got):
        """signature of a wrong scaled value; a cause is named only when the input has the shape that explains it"""
        case, kind = self.case, self.kind
        first = colv[0] if colv else None
        unscaled = is_num(got) and fr(got) == fr(v)
        if kind == "sparse" and unscaled and all(c is ABSENT for c in column(kind, window_rows(case, self.rows), k)):
            return "scale-wrong-value:sparse-key-outside-window"
        if kind != "scalar" and first is None and unscaled:
            return "scale-wrong-value:first-row-none"
        if any(c == NAN for c in wcol):
            return "scale-wrong-value:nan-in-window"
        if case["scale"] == "maxabs" and unscaled and any(is_num(c) and not py_is_int(c) for c in wcol):
            sh = case["shift"]
            xs = [c for c in wcol if is_num(c)]
            if isinstance(sh, str):
                if sh == "min":
                    int_shift = py_is_int(min(xs, key=fr))
                elif sh in ("median", "med"):
                    srt = sorted(xs, key=fr)
                    int_shift = len(xs) % 2 == 1 and py_is_int(srt[len(xs) // 2])
                else:
                    int_shift = False
            else:
                int_shift = py_is_int(sh)
            if int_shift:
                return "scale-wrong-value:maxabs-int-shift-float-value"
        return "scale-wrong-value:%s:other" % kind

    # -- Impute
    def check_impute(self, stats):
        """stats applied in sequence (Environments.impute with a list); reference computed pass by pass"""
        case = self.case
        kind, rows = self.kind, [r for r in self.rows]
        self.compare_branches(stats, stats)
        if self.fails and len(stats) > 1 and not lists_applied_in_order():
            # recorded defect: Environments.impute applies only the last statistic of a list
            alt = Ref(case, kind, rows, self.impl, self.label)
            alt.compare_branches(stats[-1:], stats[-1:])
            if all(f["sig"] == "impute-first-row-none-not-imputed" for f in alt.fails):
                what = self.fails[0]["what"]
                self.fails = alt.fails
                self.fail("Environments.impute(%s) gave exactly the result of impute(%r) alone: %s" % (stats, stats[-1], what), "impute-list-only-last-applied")

    def compare_branches(self, stats, label_stats):
        """the reference may branch where the property leaves a choice (indicator of a scalar feature that has no
        imputation): the result must meet one branch; the failures of the closest branch are reported"""
        case = self.case
        branches = [ImputeRef(self.kind, [r for r in self.rows])]
        for st in stats:
            branches = [b2 for b in branches for b2 in b.step(st, case["ind"], case.get("using"))][:16]
        best = None
        for b in branches:
            t = Ref(case, self.kind, self.rows, self.impl, self.label)
            t.compare_impute(b, label_stats)
            rank = (any(f["sig"].startswith("impute-context-kind") for f in t.fails), len(t.fails))
            if best is None or rank < best_rank:
                best, best_rank = t, rank
            if not t.fails:
                break
        self.fails += best.fails
        self.demanded += best.demanded
        self.tags |= best.tags

    def compare_impute(self, exp, stats):
        out = self.impl["out"]
        kind0 = self.kind
        st_label = "+".join(stats)
        if exp.kind == "unknown":
            return
        # the recorded defect P20: a numeric feature whose value in the first interaction is None (mean/median)
        p20 = False
        if kind0 in ("dense", "sparse") and self.rows and any(st in ("mean", "median") for st in stats):
            for k in feature_keys(kind0, self.rows):
                colv = column(kind0, self.rows, k)
                if colv[0] is None and not any(is_str(v) for v in colv if v is not ABSENT):
                    p20 = True
        # causes of the findings recorded in phase 2 (narrow signatures): nan not treated as missing (C11-F13),
        # no indicator for a feature with missing values but without imputation (C11-F14)
        flat = [v for r in self.rows for v in (r if kind0 == "dense" else [x for _, x in r] if kind0 == "sparse" else [r])]
        nan_case = any(v == NAN for v in flat)
        f14_case = False
        if (kind0 in ("dense", "sparse") or len(stats) > 1) and self.case.get("ind") and self.rows:
            win = window_rows(self.case, self.rows)
            for k in feature_keys(kind0, self.rows):
                wraw = column(kind0, win, k)
                if any(v is not ABSENT and is_missing(v) for v in wraw):
                    vals = [v for v in column(kind0, self.rows, k) if v is not ABSENT]
                    nonmiss = [(V(0) if v is ABSENT else v) for v in wraw if v is ABSENT or not is_missing(v)]
                    if not nonmiss or (any(is_str(v) for v in vals) and any(st in ("mean", "median") for st in stats)):
                        f14_case = True
        self._ind_sig = ("impute-nan-not-missing" if nan_case else
                         "impute-indicator-omitted-without-imputation" if f14_case else None)
        for i, o in enumerate(out):
            e = exp.rows[i]
            if o["kind"] != exp.kind:
                self.fail("row %d: expected a %s context, got %s" % (i, exp.kind, o["kind"]),
                          self._ind_sig or "impute-context-kind:%s:%s" % (kind0, st_label))
                return
            if exp.kind == "scalar":
                self.cmp_cell(i, 0, e, o["v"], st_label)
            elif exp.kind == "dense":
                for k in range(min(len(e), len(o["v"]), len(self.rows[i]) if kind0 == "dense" else 1)):
                    self.cmp_cell(i, k, e[k], o["v"][k], st_label)
                if exp.len_exact and len(o["v"]) != len(e):
                    self.fail("row %d: expected %d features (with missingness indicators), got %d: %s" %
                              (i, len(e), len(o["v"]), [show(v) for v in o["v"]]),
                              self._ind_sig or ("impute-first-row-none-not-imputed" if (p20 and len(o["v"]) < len(e)) else
                                                "impute-indicator-count:%s:%s" % (kind0, st_label)))
                    return
                for k in range(len(self.rows[i]) if kind0 == "dense" else 1, min(len(e), len(o["v"]))):
                    self.cmp_cell(i, k, e[k], o["v"][k], st_label)
            else:
                ek = dict(e)
                ok = {k: v for k, v in o["v"]}
                for k in ek:
                    if k not in ok:
                        self.fail("row %d: key %r is missing from the result" % (i, k),
                                  (self._ind_sig if k.endswith("_is_missing") else None) or
                                  "impute-%s:%s:%s" % ("indicator-missing" if k.endswith("_is_missing") else "key-lost", kind0, st_label))
                        continue
                    self.cmp_cell(i, k, ek[k], ok[k], st_label)
                for k in ok:
                    if k not in ek and k not in exp.optional_keys:
                        self.fail("row %d: unexpected key %r in the result" % (i, k), "impute-unexpected-key:%s:%s" % (kind0, st_label))

    def cmp_cell(self, i, k, e, got, st_label):
        if e is ANY:
            return
        self.demanded += 1
        kind0 = self.kind
        if is_oneof(e):
            if any(is_num(c) and fr(c) == 0 for c in e["oneof"]):
                self.tags.add("imputed-zero:" + kind0)
            if not any(self.val_eq(got, c) for c in e["oneof"]):
                self.fail("row %d feature %r: expected %s of the window (one of %s), got %s" % (i, k, e["why"], [show(c) for c in e["oneof"]], show(got)),
                          self.impute_sig(e, got, st_label))
            return
        if not self.val_eq(got, e):
            sig = "impute-value-changed:%s:%s" % (kind0, st_label)
            if isinstance(e, dict) and e.get("indicator") and getattr(self, "_ind_sig", None):
                sig = self._ind_sig
            if e is None and got == NAN and getattr(self, "_ind_sig", None) == "impute-nan-not-missing":
                sig = "impute-nan-not-missing"      # the statistic of a window holding nan came out nan
            if e is None and is_str(got) and kind0 == "scalar" and "median" in st_label:
                sig = "impute-median-imputes-string"
            self.fail("row %d feature %r: expected %s, got %s" % (i, k, show(e), show(got)), sig)

    def impute_sig(self, e, got, st_label):
        kind0 = self.kind
        if (e.get("nan_in_window") or e.get("was_nan")) and (got == NAN or e.get("was_nan") or e.get("nan_in_window")):
            return "impute-nan-not-missing"
        if got is None:
            if e.get("outside_window"):
                return "impute-missing-kept:sparse-key-outside-window"
            if e.get("first_none") and e.get("stat") in ("mean", "median"):
                return "impute-first-row-none-not-imputed"
            return "impute-missing-kept:%s:%s" % (kind0, st_label)
        return "impute-wrong-value:%s:%s" % (kind0, st_label)

    @staticmethod
    def val_eq(got, e):
        if is_num(got) and is_num(e):
            return close(fr(got), fr(e))
        return got == e


ANY = "any"


def is_missing(v):
    return v is None or v == NAN


def is_oneof(v):
    return isinstance(v, dict) and "oneof" in v


def resolve(v):
    """a reference cell with a single acceptable value is that value"""
    if is_oneof(v) and len(v["oneof"]) == 1:
        return v["oneof"][0]
    return v


class ImputeRef:
    """exact reference for Impute on typed feature columns.  Cells are case values, `ANY` where the property
    demands nothing, {"oneof":[..]} for an imputed cell (several candidates for mode ties)."""

    def __init__(self, kind, rows, len_exact=True, optional_keys=()):
        self.kind, self.rows, self.len_exact, self.optional_keys = kind, rows, len_exact, set(optional_keys)

    def step(self, st, ind, using):
        """one Impute pass.  Missing = None or nan.  An indicator is pinned for EVERY feature with a missing value in
        the window (imputable or not) — the reading decided in notes/C11.md, phase 2."""
        kind, rows = self.kind, self.rows
        if not rows or kind == "unknown":
            return [self]
        orig = rows
        rows = [([resolve(v) for v in r] if kind == "dense" else [[k, resolve(v)] for k, v in r] if kind == "sparse" else resolve(r)) for r in rows]
        win = rows if using is None else rows[:using]
        if ind and any(v is ANY or is_oneof(v) for r in win for v in (r if kind == "dense" else [x for _, x in r] if kind == "sparse" else [r])):
            return [ImputeRef("unknown", orig, False, ())]    # missingness in the window after an unpinned earlier pass is unknown
        keys = feature_keys(kind, rows)
        imps, bins = {}, []
        for k in keys:
            colv = column(kind, rows, k)
            wraw = column(kind, win, k)
            wcol = [(V(0) if v is ABSENT else v) for v in wraw]
            miss_in_win = any(is_missing(v) for v in wraw)
            present = [v for v in colv if v is not ABSENT]
            unknown = any(v is ANY or is_oneof(v) for v in present)
            has_str = any(is_str(v) for v in present)
            has_num = any(is_num(v) or v == NAN for v in present) or len(present) < len(colv)   # absent sparse key = 0
            nonmiss = [v for v in wcol if not is_missing(v)]
            if unknown or (has_str and has_num):
                imps[k] = ANY         # mixed / already-unpinned column: nothing demanded of its missing cells
            elif not nonmiss:
                imps[k] = None        # no statistic exists on this window: the missing values stay as they are
            elif st in ("mean", "median") and has_str:
                imps[k] = None        # not imputable by mean/median: left untouched
            else:
                first_none = (kind != "scalar") and colv[0] is None
                if st == "mean":
                    xs = [fr(v) for v in nonmiss]
                    cands, why = [V(sum(xs) / len(xs), "f")], "the mean"
                elif st == "median":
                    xs = [fr(v) for v in nonmiss]
                    cands, why = [V(f_median(xs), "f")], "the median"
                else:
                    cnt = []
                    for v in nonmiss:
                        for c in cnt:
                            if Ref.val_eq(c[0], v):
                                c[1] += 1
                                break
                        else:
                            cnt.append([v, 1])
                    m = max(c[1] for c in cnt)
                    cands, why = [c[0] for c in cnt if c[1] == m], "a mode"
                imps[k] = {"oneof": cands, "why": why, "first_none": first_none, "stat": st,
                           "nan_in_window": any(v == NAN for v in wcol),
                           "outside_window": kind == "sparse" and all(v is ABSENT for v in wraw)}
            if ind and miss_in_win:
                bins.append(k)

        def newcell(k, v):
            if is_missing(v):
                if imps[k] is None:
                    return v              # stays as it is
                if imps[k] is ANY:
                    return ANY
                return dict(imps[k], was_nan=(v == NAN))
            return v

        def bit(v):
            return dict(V(1 if (v is not ABSENT and is_missing(v)) else 0), indicator=True)

        new_rows = []
        for r in orig:        # cells imputed by an earlier pass keep their provenance
            if kind == "scalar":
                nv = newcell(0, r)
                new_rows.append([nv, bit(resolve(r))] if bins else nv)
            elif kind == "dense":
                nr = [newcell(k, v) for k, v in enumerate(r)]
                nr += [bit(resolve(r[k])) for k in bins]
                new_rows.append(nr)
            else:
                nr = [[k, newcell(k, v)] for k, v in r]
                nr += [["%s_is_missing" % k, bit(resolve(cell(kind, r, k)))] for k in bins]
                new_rows.append(nr)
        if kind == "scalar":
            return [ImputeRef("dense" if bins else "scalar", new_rows, True, ())]
        return [ImputeRef(kind, new_rows, True, ())]


_LIST_PROBE = {}


def lists_applied_in_order():
    """does this tree's Environments.impute apply a list of statistics one after the other?  (recorded defect C11-F11:
    only the last one is applied; the defect itself is reported through its corpus case)"""
    if "v" not in _LIST_PROBE:
        case = {"op": "impute", "kind": "dense", "container": "tuple", "rows": [[V(1), V("a")], [None, None], [V(3), V("a")]],
                "stats": ["mean", "mode"], "ind": False, "using": None, "via": "env", "itype": "sim"}
        r = run_impl(case)
        _LIST_PROBE["v"] = "out" in r and is_num(r["out"][1]["v"][0]) and fr(r["out"][1]["v"][0]) == 2
    return _LIST_PROBE["v"]


def unseen_sparse_key_imputed():
    """does this tree impute a None under a sparse key that is absent from the whole window (fix of C11-F10)?"""
    if "f10" not in _LIST_PROBE:
        case = {"op": "impute", "kind": "sparse", "rows": [[["a", V(1)]], [["b", None]]], "stats": ["mean"], "ind": False,
                "using": 1, "via": "filter", "itype": "sim"}
        r = run_impl(case)
        _LIST_PROBE["f10"] = "out" in r and dict(r["out"][1]["v"]).get("b") is not None
    return _LIST_PROBE["f10"]


def nan_is_missing():
    """does this tree's Impute treat nan as a missing value (fix of C11-F13)?"""
    if "f13" not in _LIST_PROBE:
        r = run_impl({"op": "impute", "kind": "dense", "container": "tuple", "rows": [[NAN], [V(2)]], "stats": ["mean"], "ind": False,
                      "using": None, "via": "filter", "itype": "sim"})
        _LIST_PROBE["f13"] = "out" in r and is_num(r["out"][0]["v"][0])
    return _LIST_PROBE["f13"]


def indicator_without_imputation():
    """does this tree's dense Impute add the indicator of a feature that has a missing value but no imputation (fix of C11-F14)?"""
    if "f14" not in _LIST_PROBE:
        r = run_impl({"op": "impute", "kind": "dense", "container": "tuple", "rows": [[V("a")], [None]], "stats": ["mean"], "ind": True,
                      "using": None, "via": "filter", "itype": "sim"})
        _LIST_PROBE["f14"] = "out" in r and len(r["out"][0]["v"]) == 2
    return _LIST_PROBE["f14"]


# ------------------------------------------------------------------ the property

# ------------------------------------------------------------------ translator: option tables out of the source (phase 4)
import ast

C11_FALLBACK = {
    "shift_accepted": ["min", "mean", "med", "median"], "scale_accepted": ["minmax", "std", "iqr", "maxabs"],
    "stat_accepted": ["mean", "median", "mode"],
    "shift_dispatch": [("min", ["min"]), ("mean", ["fmean"]), ("med", ["median"]), ("median", ["median"])],
    "scale_dispatch": [("minmax", ["max", "min"]), ("std", ["stdev"]), ("iqr", ["iqr"]), ("maxabs", ["abs", "max"])],
    "stat_dispatch": [("mean", ["len", "sum"]), ("median", ["median"]), ("mode", ["mode"])],
    "guard": Fraction(1, 1000000), "handlers": ["TypeError", "ValueError"],
    "ctor_scale": {"shift": 0, "scale": "minmax", "target": "context", "using": None},
    "ctor_impute": {"stat": "mean", "indicator": True, "using": None},
    "env_scale": {"shift": "min", "scale": "minmax", "targets": "context", "using": None},
    "env_impute": {"stats": "mean", "indicator": True, "using": None},
}


def c11_extract(repo):
    """read the option tables of Scale / Impute / Environments.scale|impute out of the source with `ast`"""
    def parse(rel):
        return ast.parse(open(os.path.join(repo, rel), encoding="utf-8").read())

    def cls(tree, name):
        for n in tree.body:
            if isinstance(n, ast.ClassDef) and n.name == name:
                return n
        raise LookupError("class %s" % name)

    def fn(c, name):
        for n in c.body:
            if isinstance(n, ast.FunctionDef) and n.name == name:
                return n
        raise LookupError("%s.%s" % (c.name, name))

    def defaults(f):
        args = f.args.args
        ds = f.args.defaults
        off = len(args) - len(ds)
        return {a.arg: ast.literal_eval(ds[i - off]) for i, a in enumerate(args) if i >= off}

    def accepted(f, var):
        for n in ast.walk(f):
            if isinstance(n, ast.Assert):
                for c in ast.walk(n.test):
                    if (isinstance(c, ast.Compare) and len(c.ops) == 1 and isinstance(c.ops[0], ast.In)
                            and isinstance(c.left, ast.Name) and c.left.id == var):
                        return [str(x) for x in ast.literal_eval(c.comparators[0])]
        raise LookupError("assert %s in [...]" % var)

    def names_tested(test):
        """the string constants an `if x == "a" or x == "b"` test accepts"""
        out = []
        tests = test.values if isinstance(test, ast.BoolOp) and isinstance(test.op, ast.Or) else [test]
        for t in tests:
            if not (isinstance(t, ast.Compare) and len(t.ops) == 1 and isinstance(t.ops[0], ast.Eq)
                    and isinstance(t.comparators[0], ast.Constant) and isinstance(t.comparators[0].value, str)):
                raise LookupError("unexpected test %s" % ast.unparse(test))
            out.append(t.comparators[0].value)
        return out

    def calls(node):
        return sorted({c.func.id for c in ast.walk(node) if isinstance(c, ast.Call) and isinstance(c.func, ast.Name)})

    def if_chain(f):
        """all `if`/`elif` statements of a function body, flattened"""
        out = []
        def walk(stmts):
            for s in stmts:
                if isinstance(s, ast.If):
                    out.append(s)
                    walk(s.orelse)
                elif isinstance(s, ast.Try):
                    walk(s.body)
        walk(f.body)
        return out

    filt = parse("coba/environments/filters.py")
    core = parse("coba/environments/core.py")
    scale, impute, envs = cls(filt, "Scale"), cls(filt, "Impute"), cls(core, "Environments")
    r = {}
    r["shift_accepted"] = accepted(fn(scale, "__init__"), "shift")
    r["scale_accepted"] = accepted(fn(scale, "__init__"), "scale")
    r["stat_accepted"] = accepted(fn(impute, "__init__"), "stat")
    sd = []
    for s in if_chain(fn(scale, "_shift_value")):
        ret = [x for x in s.body if isinstance(x, ast.Return)]
        if len(ret) != 1:
            raise LookupError("_shift_value branch without a single return")
        for nm in names_tested(s.test):
            sd.append((nm, calls(ret[0])))
    r["shift_dispatch"] = sd
    cd = []
    sv = fn(scale, "_scale_value")
    for s in if_chain(sv):
        den = [x for x in s.body if isinstance(x, ast.Assign) and any(isinstance(t, ast.Name) and t.id == "scale_den" for t in x.targets)]
        if len(den) != 1:
            raise LookupError("_scale_value branch without scale_den")
        for nm in names_tested(s.test):
            cd.append((nm, calls(den[0].value)))
    r["scale_dispatch"] = cd
    guard = None
    for n in ast.walk(sv):
        if isinstance(n, ast.IfExp) and isinstance(n.test, ast.Compare) and isinstance(n.test.ops[0], ast.Lt) \
                and isinstance(n.test.comparators[0], ast.Constant):
            seg = ast.get_source_segment(open(os.path.join(repo, "coba/environments/filters.py"), encoding="utf-8").read(), n.test.comparators[0])
            guard = Fraction(seg if seg else repr(n.test.comparators[0].value))
    if guard is None:
        raise LookupError("guard constant")
    r["guard"] = guard
    td = []
    gi = fn(impute, "_get_imputation")
    for s in if_chain(gi):
        ret = [x for x in s.body if isinstance(x, ast.Return)]
        if len(ret) == 1 and isinstance(s.test, ast.Compare) and isinstance(s.test.ops[0], ast.Eq):
            for nm in names_tested(s.test):
                td.append((nm, calls(ret[0])))
    r["stat_dispatch"] = td
    hs = None
    for n in ast.walk(fn(scale, "_get_shift_and_scale")):
        if isinstance(n, ast.ExceptHandler):
            t = n.type
            hs = [] if t is None else [x.id for x in (t.elts if isinstance(t, ast.Tuple) else [t])]
            if t is None:
                hs = ["BaseException"]
    if hs is None:
        raise LookupError("except clause of _get_shift_and_scale")
    r["handlers"] = hs
    r["ctor_scale"] = defaults(fn(scale, "__init__"))
    r["ctor_impute"] = defaults(fn(impute, "__init__"))
    r["env_scale"] = defaults(fn(envs, "scale"))
    r["env_impute"] = defaults(fn(envs, "impute"))
    return r


def c11_options_lean(r, extracted, note):
    def strs(l):
        return "[%s]" % ", ".join('"%s"' % x for x in l)

    def table(t):
        return "[%s]" % ", ".join('("%s", %s)' % (n, strs(c)) for n, c in t)

    def rat(x):
        f = Fraction(x)
        return "((%d : Rat) / %d)" % (f.numerator, f.denominator)

    def shift(v):
        if isinstance(v, str):
            return {"min": ".min", "mean": ".mean", "med": ".median", "median": ".median"}[v]
        if isinstance(v, bool) or not isinstance(v, (int, float)):
            raise ValueError("shift default %r" % (v,))
        return "(.num %s)" % rat(v)

    def scl(v):
        if isinstance(v, str):
            return {"minmax": ".minmax", "std": ".std", "iqr": ".iqr", "maxabs": ".maxabs"}[v]
        if isinstance(v, bool) or not isinstance(v, (int, float)):
            raise ValueError("scale default %r" % (v,))
        return "(.num %s)" % rat(v)

    def using(v):
        if v is None:
            return "none"
        if isinstance(v, bool) or not isinstance(v, int) or v < 0:
            raise ValueError("using default %r" % (v,))
        return "(some %d)" % v

    def stat(v):
        return {"mean": ".mean", "median": ".median", "mode": ".mode"}[v]

    def lst(v):
        return [v] if isinstance(v, str) else list(v)

    cs, ci, es, ei = r["ctor_scale"], r["ctor_impute"], r["env_scale"], r["env_impute"]
    if not isinstance(ci["indicator"], bool) or not isinstance(ei["indicator"], bool):
        raise ValueError("indicator default")
    return (
        "-- GENERATED by harness/props/c11.py from coba/environments/filters.py and coba/environments/core.py on every run; do not edit.\n"
        "-- %s\n"
        "import CobaVerif.Model.C11\nnamespace Coba.Generated.C11\nopen Coba.C11\n"
        "def extracted : Bool := %s\n"
        "def shiftAccepted : List String := %s\ndef scaleAccepted : List String := %s\ndef statAccepted : List String := %s\n"
        "def shiftDispatch : List (String × List String) := %s\n"
        "def scaleDispatch : List (String × List String) := %s\n"
        "def statDispatch : List (String × List String) := %s\n"
        "def guard : Rat := %s\n"
        "def handlers : List String := %s\n"
        "def ctorScale : ScaleCfg := { cfg := { shift := %s, scale := %s, usingN := %s }, target := \"%s\" }\n"
        "def envScale : List ScaleCfg := %s\n"
        "def ctorImpute : Stat × Bool × Option Nat := (%s, %s, %s)\n"
        "def envImpute : List (Stat × Bool × Option Nat) := %s\n"
        "end Coba.Generated.C11\n"
    ) % (note, "true" if extracted else "false",
         strs(r["shift_accepted"]), strs(r["scale_accepted"]), strs(r["stat_accepted"]),
         table(r["shift_dispatch"]), table(r["scale_dispatch"]), table(r["stat_dispatch"]),
         rat(r["guard"]), strs(r["handlers"]),
         shift(cs["shift"]), scl(cs["scale"]), using(cs["using"]), str(cs["target"]),
         "[%s]" % ", ".join("{ cfg := { shift := %s, scale := %s, usingN := %s }, target := \"%s\" }"
                            % (shift(es["shift"]), scl(es["scale"]), using(es["using"]), t) for t in lst(es["targets"])),
         stat(ci["stat"]), "true" if ci["indicator"] else "false", using(ci["using"]),
         "[%s]" % ", ".join("(%s, %s, %s)" % (stat(s), "true" if ei["indicator"] else "false", using(ei["using"])) for s in lst(ei["stats"])))


def fit_exception_impl(case, wcol):
    """what the `try` body of the real Scale._get_shift_and_scale does on one window column: 'ok' or the exception class"""
    from coba.environments.filters import Scale
    s = Scale(param_py(case["shift"]), param_py(case["scale"]))
    if not (hasattr(s, "_shift_value") and hasattr(s, "_scale_value")):
        return None
    try:
        values = [v for v in wcol if v is not None and v == v]
        shift = s._shift_value(values)
        s._scale_value(values, shift)
        return "ok"
    except Exception as e:  # noqa: the class is the observable
        return type(e).__name__


def window_columns_py(case):
    """the window columns `Scale.filter` hands to _get_shift_and_scale, as python values, for EVERY feature (dense index
    order / sparse first-appearance order over all rows / the scalar itself)"""
    kind, rows = case["kind"], case["rows"]
    win = window_rows(case, rows)
    if kind == "scalar":
        return [(0, [to_py(v) for v in win])]
    if kind == "dense":
        return [(k, [to_py(r[k]) for r in win]) for k in range(len(rows[0]))]
    keys = []
    for r in rows:
        for k, _ in r:
            if k not in keys:
                keys.append(k)
    return [(k, [to_py(dict((a, b) for a, b in r).get(k, V(0))) for r in win]) for k in keys]


SHIFTS = ["min", "mean", "median", "med"]
SCALES = ["minmax", "std", "iqr", "maxabs"]


# ------------------------------------------------------------------ phase 5: translator tie from constants to BODIES (expression programs)
def c11_programs_extract(repo):
    """the bodies of coba.statistics.iqr / percentile (unweighted path), of Scale's application loops and of Impute's mean as
    small expression programs (`PExpr` terms), read with `ast`; locals are normalised (`%0 %1 …` in order of assignment,
    `$p` the percentile parameter), anything unexpected raises (→ fallback, quiet)"""
    def parse(rel):
        return ast.parse(open(os.path.join(repo, rel), encoding="utf-8").read())

    def lit(c):
        if isinstance(c, bool) or not isinstance(c, (int, float)):
            raise LookupError("literal %r" % (c,))
        q = Fraction(repr(c)) if isinstance(c, float) else Fraction(c)
        return ["lit", q.numerator, q.denominator]

    def tr(node, names, values="values"):
        if isinstance(node, ast.Constant):
            return lit(node.value)
        if isinstance(node, ast.UnaryOp) and isinstance(node.op, ast.USub) and isinstance(node.operand, ast.Constant):
            l = lit(node.operand.value)
            return ["lit", -l[1], l[2]]
        if isinstance(node, ast.Name):
            if node.id not in names:
                raise LookupError("unbound name %s" % node.id)
            return ["var", names[node.id]]
        if isinstance(node, ast.BinOp):
            op = {ast.Add: "add", ast.Sub: "sub", ast.Mult: "mul", ast.Div: "div"}.get(type(node.op))
            if op is None:
                raise LookupError("operator %s" % ast.dump(node.op))
            return [op, tr(node.left, names, values), tr(node.right, names, values)]
        if isinstance(node, ast.Call) and isinstance(node.func, ast.Name) and len(node.args) == 1 and not node.keywords:
            a = node.args[0]
            if node.func.id == "int":
                return ["toInt", tr(a, names, values)]
            if node.func.id in ("len", "sum") and isinstance(a, ast.Name) and a.id == values:
                return ["lenV" if node.func.id == "len" else "sumV"]
        if isinstance(node, ast.Subscript) and isinstance(node.value, ast.Name) and node.value.id == values:
            return ["idx", tr(node.slice, names, values)]
        raise LookupError("expression %s" % ast.unparse(node))

    def top(tree, name):
        for n in tree.body:
            if isinstance(n, ast.FunctionDef) and n.name == name:
                return n
        raise LookupError(name)

    def is_len_values(n):
        return isinstance(n, ast.Call) and isinstance(n.func, ast.Name) and n.func.id == "len" and len(n.args) == 1 and isinstance(n.args[0], ast.Name) and n.args[0].id == "values"

    st = parse("coba/statistics.py")
    r = {}
    # ---- iqr
    f = top(st, "iqr")
    thr = small = ps = names = ret = None
    for s in f.body:
        if isinstance(s, ast.If) and isinstance(s.test, ast.Compare) and is_len_values(s.test.left) and len(s.test.ops) == 1 \
                and isinstance(s.test.comparators[0], ast.Constant) and len(s.body) == 1 and isinstance(s.body[0], ast.Return):
            c = s.test.comparators[0].value
            thr = c if isinstance(s.test.ops[0], ast.LtE) else c - 1 if isinstance(s.test.ops[0], ast.Lt) else None
            if thr is None or not isinstance(thr, int) or thr < 0:
                raise LookupError("iqr threshold %s" % ast.unparse(s.test))
            small = lit(s.body[0].value.value)[1:]
        elif isinstance(s, ast.Assign) and isinstance(s.targets[0], ast.Tuple) and isinstance(s.value, ast.Call) \
                and isinstance(s.value.func, ast.Name) and s.value.func.id == "percentile":
            names = {e.id: "%%%d" % i for i, e in enumerate(s.targets[0].elts)}
            ps = [lit(c)[1:] for c in ast.literal_eval(s.value.args[1])]
            if len(s.value.args) != 2 or s.value.keywords:
                raise LookupError("percentile call in iqr")
        elif isinstance(s, ast.Return):
            ret = tr(s.value, names or {})
    if None in (thr, small, ps, names, ret):
        raise LookupError("iqr body")
    r["iqr"] = {"thr": thr, "small": small, "ps": ps, "names": [names[k] for k in sorted(names, key=lambda k: names[k])], "ret": ret}
    # ---- percentile (unweighted)
    f = top(st, "percentile")
    single = None
    for s in f.body:
        if isinstance(s, ast.If) and isinstance(s.test, ast.Compare) and is_len_values(s.test.left) and isinstance(s.test.ops[0], ast.Eq) \
                and isinstance(s.test.comparators[0], ast.Constant) and s.test.comparators[0].value == 1:
            for x in ast.walk(s):
                if isinstance(x, ast.Return) and isinstance(x.value, ast.Subscript):
                    single = tr(x.value, {})
    inner = next(n for n in f.body if isinstance(n, ast.FunctionDef) and n.name == "_percentile")
    pname = inner.args.args[2].arg
    if inner.args.args[0].arg != "values":
        raise LookupError("_percentile parameters")
    at = {}
    prog = None
    for s in inner.body:
        if isinstance(s, ast.If) and isinstance(s.test, ast.Compare) and isinstance(s.test.left, ast.Name) and s.test.left.id == pname \
                and isinstance(s.test.ops[0], ast.Eq) and isinstance(s.test.comparators[0], ast.Constant):
            at[s.test.comparators[0].value] = tr(s.body[0].value, {})
        elif isinstance(s, ast.If) and isinstance(s.test, ast.Name) and s.test.id == inner.args.args[1].arg:
            names = {pname: "$p"}
            body = s.orelse
            a_i, a_I, branch = body
            names[a_i.targets[0].id] = "%0"
            e_i = tr(a_i.value, {pname: "$p"})
            e_I = tr(a_I.value, dict(names))
            names[a_I.targets[0].id] = "%1"
            t_ = branch.test
            if not (isinstance(t_, ast.Compare) and isinstance(t_.ops[0], ast.Eq) and {t_.left.id, t_.comparators[0].id} == {a_i.targets[0].id, a_I.targets[0].id}):
                raise LookupError("i == I test")
            e_exact = tr(branch.body[0].value, dict(names))
            a_w, ret_ = branch.orelse
            e_w = tr(a_w.value, dict(names))
            names[a_w.targets[0].id] = "%2"
            e_interp = tr(ret_.value, dict(names))
            prog = {"i": e_i, "I": e_I, "exact": e_exact, "w": e_w, "interp": e_interp}
    if prog is None or single is None or 0 not in at or 1 not in at:
        raise LookupError("percentile body")
    prog.update(single=single, atZero=at[0], atOne=at[1])
    r["pct"] = prog
    # ---- Scale's application loops and Impute's mean
    filt = parse("coba/environments/filters.py")
    scale = next(n for n in filt.body if isinstance(n, ast.ClassDef) and n.name == "Scale")
    impute = next(n for n in filt.body if isinstance(n, ast.ClassDef) and n.name == "Impute")
    sfilter = next(n for n in scale.body if isinstance(n, ast.FunctionDef) and n.name == "filter")

    def role(n, target):
        if isinstance(n, ast.Name) and n.id in ("shift", "scale"):
            return ["var", n.id]
        if isinstance(n, ast.Subscript) and isinstance(n.slice, ast.Constant) and n.slice.value in (0, 1) and isinstance(n.value, ast.Name):
            return ["var", "shift" if n.slice.value == 0 else "scale"]
        if ast.dump(n) == ast.dump(target).replace("Store()", "Load()") or isinstance(n, ast.Name):
            return ["var", "x"]
        raise LookupError("operand %s" % ast.unparse(n))

    def apply_tr(n, target):
        if isinstance(n, ast.BinOp):
            op = {ast.Add: "add", ast.Sub: "sub", ast.Mult: "mul", ast.Div: "div"}.get(type(n.op))
            if op is None:
                raise LookupError("operator")
            return [op, apply_tr(n.left, target), apply_tr(n.right, target)]
        return role(n, target)
    applies = []
    for n in ast.walk(sfilter):
        if isinstance(n, ast.Assign) and isinstance(n.targets[0], ast.Subscript) and isinstance(n.value, ast.BinOp):
            applies.append(apply_tr(n.value, n.targets[0]))
    if not applies:
        raise LookupError("no application assignment in Scale.filter")
    r["apply"] = applies
    gi = next(n for n in impute.body if isinstance(n, ast.FunctionDef) and n.name == "_get_imputation")
    mean = None
    for n in ast.walk(gi):
        if isinstance(n, ast.If) and isinstance(n.test, ast.Compare) and isinstance(n.test.ops[0], ast.Eq) \
                and isinstance(n.test.comparators[0], ast.Constant) and n.test.comparators[0].value == "mean" and isinstance(n.body[0], ast.Return):
            mean = tr(n.body[0].value, {})
    if mean is None:
        raise LookupError("mean branch of _get_imputation")
    r["mean"] = mean
    return r


C11_PROGRAMS_FALLBACK = {"iqr": {"thr": 1, "small": [0, 1], "ps": [[1, 4], [3, 4]], "names": ["%0", "%1"], "ret": ["sub", ["var", "%1"], ["var", "%0"]]}, "pct": {"i": ["mul", ["var", "$p"], ["sub", ["lenV"], ["lit", 1, 1]]], "I": ["toInt", ["var", "%0"]], "exact": ["idx", ["var", "%1"]], "w": ["sub", ["var", "%0"], ["var", "%1"]], "interp": ["add", ["mul", ["sub", ["lit", 1, 1], ["var", "%2"]], ["idx", ["var", "%1"]]], ["mul", ["var", "%2"], ["idx", ["add", ["var", "%1"], ["lit", 1, 1]]]]], "single": ["idx", ["lit", 0, 1]], "atZero": ["idx", ["lit", 0, 1]], "atOne": ["idx", ["lit", -1, 1]]}, "apply": [["mul", ["add", ["var", "x"], ["var", "shift"]], ["var", "scale"]]], "mean": ["div", ["sumV"], ["lenV"]]}


def c11_programs_lean(r, extracted, note):
    def rat(n, d):
        return "((%d : Rat) / %d)" % (n, d)

    def ex(e):
        k = e[0]
        if k == "lit":
            return "(.lit %s)" % rat(e[1], e[2])
        if k == "var":
            return "(.var %s)" % json.dumps(e[1])
        if k in ("lenV", "sumV"):
            return "." + k
        if k in ("idx", "toInt"):
            return "(.%s %s)" % (k, ex(e[1]))
        return "(.%s %s %s)" % (k, ex(e[1]), ex(e[2]))
    p, q = r["pct"], r["iqr"]
    lines = ["-- GENERATED by harness/props/c11.py from coba/statistics.py and coba/environments/filters.py on every run; do not edit.",
             "-- " + note,
             "import CobaVerif.Model.C11", "namespace Coba.Generated.C11", "open Coba.C11",
             "def progsExtracted : Bool := %s" % ("true" if extracted else "false"),
             "def pctSrc : PctProg :=\n  { " + ",\n    ".join("%s := %s" % (k, ex(p[k])) for k in ("single", "atZero", "atOne", "i", "I", "exact", "w", "interp")) + " }",
             "def iqrSrc : IqrProg :=\n  { thr := %d, small := %s, ps := [%s], names := [%s], ret := %s }" % (
                 q["thr"], rat(*q["small"]), ", ".join(rat(*x) for x in q["ps"]), ", ".join(json.dumps(x) for x in q["names"]), ex(q["ret"])),
             "def applySrc : List PExpr := [%s]" % ", ".join(ex(e) for e in r["apply"]),
             "def meanSrc : PExpr := %s" % ex(r["mean"]),
             "end Coba.Generated.C11", ""]
    return "\n".join(lines)


# ------------------------------------------------------------------ phase 5: the statistics themselves (size / parity thresholds, first-seen mode)
def stats_columns():
    """deterministic columns: every count 0..13 of non-missing values (even and odd, n % 4 = 0,1,2,3), all distinct with distinct
    gaps (powers of two, so every order statistic and every interpolation weight shows in the result), with ties, constant;
    presented in an order that is neither sorted nor reversed"""
    cols = []
    for n in range(0, 14):
        perm = sorted(range(n), key=lambda i: (i * 5 + 3) % max(n, 1) * 16 + i)
        cols.append([V(2 ** (i % 11) + (i // 11)) for i in perm])                  # distinct, growing gaps
        if n >= 2:
            cols.append([V((i // 2) * 3 - 4) for i in perm])                       # ties in pairs
            cols.append([V((2 ** i) / 4, "f") for i in perm][:n])                  # dyadic floats
        if n >= 3:
            cols.append([V(7)] * (n - 1) + [V(-1)])                                # nearly constant
    return cols


def mode_columns():
    """ties where the first value seen is not the smallest / not the last; mixed strings and numbers"""
    n = lambda x: V(x)
    return [[n(3), n(1), n(1), n(3)], [n(3), n(1), n(1), n(3), n(1)], [n(5), n(2)], [n(2), n(5)], [n(9), n(4), n(4), n(9), n(0)],
            [n(2), n(2), n(1), n(1), n(0), n(0)], [n(0), n(1), n(1), n(2), n(2)], [V("b"), V("a"), V("a"), V("b")],
            [V("b"), n(1), V("a"), n(1), V("b")], [n(2), V("a"), V("a"), n(2), V("a")], [V("z"), n(0), n(0), V("z")],
            [n(7)], [V("q")], [n(1), n(2), n(3)], [n(3), n(2), n(1)], [V(1.5, "f"), n(1), V(1.5, "f"), n(1)]]


def stats_impl(col):
    """the real statistic functions on the non-missing values of one column"""
    import statistics as st
    from coba.statistics import iqr, percentile
    vals = [to_py(v) for v in col if v is not None and v != NAN]
    xs = [x for x in vals if not isinstance(x, str)]
    out = {}

    def run(name, fn):
        try:
            r = fn()
            out[name] = [from_py(x) for x in r] if isinstance(r, (tuple, list)) else from_py(r)
        except Exception as e:
            out[name] = {"err": type(e).__name__}
    if len(xs) == len(vals):
        run("iqr", lambda: iqr(list(xs)))
        run("pct", lambda: percentile(list(xs), [0.25, 0.75]))
        run("p25", lambda: percentile(sorted(xs), 0.25, sort=False))
        run("median", lambda: st.median(list(xs)))
        run("min", lambda: min(xs))
        run("max", lambda: max(xs))
    run("mode", lambda: st.mode(list(vals)))
    return out


class C11(Property):
    id = "C11"
    prop_modules = ["CobaVerif.Props.C11"]
    quick_n = 6000
    thorough_n = 150000
    search_n = 3000
    case_timeout = 60
    workers = 8
    rule = ("tables of 1-12 interactions x 1-4 typed features (numeric ints/dyadic floats, strings) with None/nan at every position incl. "
            "the first interaction, constant / single-valued / nearly-constant columns, as dense (tuple or list), sparse (keys absent from "
            "rows, incl. the first) or scalar contexts; Scale with every shift (number,min,mean,median,med) x scale (number,minmax,std,iqr,maxabs), "
            "Impute with mean/median/mode x indicator and lists of statistics through Environments.impute; using in {None,1,<N,N,>N}; direct "
            "filter or Environments.scale/impute; the same table is also run in the other container kinds (agreement); 20% of the cases "
            "are 2-3 different sequences (values, feature counts, kinds) given to ONE filter object or ONE Environments([..]).scale/impute "
            "call in a PRNG-chosen order, each judged against its own reference. Phase 3: 7% of numeric columns are MIXED (strings among "
            "numbers: first cell, last, one, many), keywords are left out in 12% each (documented defaults), targets 'context' as str/list, "
            "['context','context'], 'rewards', using=0, scale 0 / shift 0.0 — configurations outside the quantifier (mixed numbers, using=0, "
            "other targets) are compared with the model only; round e: dense contexts are also coba's own row objects (SparseDense as Densify "
            "produces, LazyDense, HeadDense; LazySparse, HeadSparse) and every result context is read by index and by repeated iteration; "
            "in 12% of the cases a pickle / deepcopy / copy of the filter object or of the whole Environments pipeline does the work and the "
            "original is used afterwards (both judged, configurations equal) ((A) outputs and .params vs the modelled argument glue). "
            "phase 6: 8% of the cases (+184 corpus cases) are HISTORIES of open/next/close over 1-4 generators made from ONE filter object or ONE "
            "Environments.scale/impute call on 2-3 sequences (families: all interleaved round-robin, first interaction of A then sibling B "
            "completely then the rest of A, partial read + close + next after close + re-read beside a sibling, the same sequence twice "
            "alternately, suspended frame never finished, random operations): every yielded interaction / StopIteration / exception is judged "
            "against a fresh read of that generator's own sequence (itself judged against the exact reference) and against the Lean generator "
            "machine (GenSt.run); interactions already handed out must not change later; 40% of the sparse dict cases (+222 corpus cases) use keys "
            "that are not strings: ints, mixed unorderable types (int/str/float/tuple), equal keys of different types across rows (1, 1.0, True), "
            "different keys with the same str() (1 and '1'; only where no indicator name is derived from a key) - a feature is a key up to "
            "Python equality, results are mapped back to the case's feature names before judging. "
            "non-trivial = at least one cell is pinned by the exact reference and at least one value changes; distinct by canonical JSON")
    trusted_base = [
        "values are ints / dyadic floats with few bits so min/max/median/iqr/mode are exact in double precision; results involving a division "
        "(mean, 1/statistic) and stdev are compared at 1e-9 relative to the operands' magnitude",
        "statistics.stdev: the model is parametric in a square-root routine `sd` (ℚ has no √) but its specification is not: "
        "fit_eq_spec_q / std_scale_within characterise the scale as the reciprocal square root of the exact sample variance "
        "(`variance`, compared with statistics.variance on every std case) under SqrtExact resp. SqrtWithin δ; that the real "
        "statistics.stdev satisfies SqrtWithin with |δ| ≤ 1e-12 is checked on every std case; the driver uses a 20-digit root",
        "filter objects and Environments collections are modelled as state machines (`Obj.run`, `Coll.reads`, state = `_times`); "
        "sequence cases are compared with that stateful model; Finalize/BatchSafe added by Environments.__getitem__ are not modelled",
        "generators (phase 6): a frame is modelled as fresh / running(rest) / done; the first `next` runs the whole pipeline prologue (window "
        "read, parameters in frame locals), later ones hand out one interaction; that Python runs nothing before the first next and that "
        "close() only abandons the frame is CPython semantics (trusted); laziness towards the SOURCE (how many interactions have been pulled) "
        "is not an observable of the property and is not compared",
        "CPython's min/max/sorted/statistics.median/mode/fmean are modelled by their mathematical meaning (first maximal element for mode)",
        "argument glue: Environments.scale/impute and the Scale/Impute constructors are modelled as functions from the passed keywords to "
        "filter configurations (envScaleFilters, scaleCtorCfg, envImputeFilters); the real `.params` are compared with them on every case",
        "only contexts are modelled; that all other fields of an interaction are passed through is checked directly on the implementation",
        "the float literal .000001 in Scale._scale_value is modelled as the rational 1/10^6 (no generated statistic lies between the two)",
    ]
    assumptions = [
        "features are typed: a column holds numbers (with None/nan as missing) or strings (with None as missing), not both",
        "missing = None or nan for both filters (decision of phase 2, finding C11-F13 for Impute); an indicator is demanded for every "
        "feature with a missing value in the window, imputable or not (finding C11-F14)",
        "using >= 1 or None for (B); using=0 is modelled exactly (incl. the dense empty-window quirk) and compared by (A)",
        "mixed-type columns are outside (B) for their numbers (strings/None/nan still must stay); the model is exact for them and compared by (A)",
    ]
    partial_theorems = {}   # phase 2: the two sparse `_partial` theorems were lifted (fixes for C11-F9/F10 proposed, model mirrors them)

    # ---- translator step (phase 4): Generated/C11Options.lean from the CURRENT source
    def pre_build(self):
        from core import lean
        repo = os.environ.get("COBA_REPO", "/repo")
        path = os.path.join(lean.LEAN_DIR, "CobaVerif", "Generated", "C11Options.lean")
        try:
            r = c11_extract(repo)
            body = c11_options_lean(r, True, "option tables, dispatch, guard constant, except clause and defaults extracted from the source")
            note = ("C11 options extracted: shift %s, scale %s, stat %s, guard %s, except %s, defaults Scale%s Environments.scale%s"
                    % (r["shift_accepted"], r["scale_accepted"], r["stat_accepted"], r["guard"], r["handlers"],
                       sorted(r["ctor_scale"].items()), sorted(r["env_scale"].items())))
        except Exception as e:  # source reshaped: the obligations are then stated about the last known tables only
            body = c11_options_lean(C11_FALLBACK, False, "NOT extracted (%s: %s); last known tables" % (type(e).__name__, str(e)[:80].replace("\n", " ")))
            note = "C11 options could not be extracted (%s); outputs and .params correspondence still pin them" % type(e).__name__
        old = open(path, encoding="utf-8").read() if os.path.exists(path) else None
        if old != body:
            os.makedirs(os.path.dirname(path), exist_ok=True)
            with open(path, "w", encoding="utf-8") as f:
                f.write(body)
        # phase 5: the statistic BODIES as expression programs
        path2 = os.path.join(lean.LEAN_DIR, "CobaVerif", "Generated", "C11Programs.lean")
        try:
            pr = c11_programs_extract(repo)
            body2 = c11_programs_lean(pr, True, "bodies of statistics.iqr / percentile, Scale's application expression, Impute's mean as expression programs")
            note2 = "C11 programs extracted: iqr thr %s ps %s, percentile i/I/w/interp, %d application expression(s), mean" % (
                pr["iqr"]["thr"], pr["iqr"]["ps"], len(pr["apply"]))
        except Exception as e:  # source reshaped: obligations stated about the last known programs only (behaviour stays pinned by (A)/(B))
            body2 = c11_programs_lean(C11_PROGRAMS_FALLBACK, False, "NOT extracted (%s: %s); last known programs" % (type(e).__name__, str(e)[:80].replace("\n", " ")))
            note2 = "C11 programs could not be extracted (%s); the stats / Scale / Impute correspondence still pins them" % type(e).__name__
        old2 = open(path2, encoding="utf-8").read() if os.path.exists(path2) else None
        if old2 != body2:
            with open(path2, "w", encoding="utf-8") as f:
                f.write(body2)
        return [note, note2]

    # ---- generators
    def gen_perfect_square(self, rng, tier):
        """scale='std' on a column whose sample variance is the square of a dyadic number (c-d, c, c+d in any order, with
        missing values and rows after the window): the real stdev is exact there (theorem sqrt_exact_perfect_square)"""
        j = rng.choice([0, 0, 1, 2, 3, 6, 10])
        d = Fraction(rng.randint(1, 40), 2 ** j)
        c = Fraction(rng.randint(-20, 20), rng.choice([1, 2, 4]))
        col = [V(float(c - d), "f") if j or c.denominator > 1 else V(int(c - d)), V(float(c), "f") if j or c.denominator > 1 else V(int(c)),
               V(float(c + d), "f") if j or c.denominator > 1 else V(int(c + d))]
        for i in (2, 1):
            k = rng.below(i + 1)
            col[i], col[k] = col[k], col[i]
        for _ in range(rng.below(3)):
            col.insert(rng.below(len(col) + 1), rng.choice([None, NAN]))
        using = rng.choice([None, len(col), len(col) + 2])
        extra = [self.gen_number(rng, "int") for _ in range(rng.below(3))]
        if extra and using is None:
            using = len(col)
        col = col + extra
        kind = rng.choice(["scalar", "dense", "sparse"])
        rows = col if kind == "scalar" else [[v] for v in col] if kind == "dense" else [[["a", v]] for v in col]
        case = {"op": "scale", "kind": kind, "rows": rows, "scale": "std", "using": using, "via": "filter", "itype": "sim",
                "shift": V(0) if kind == "sparse" else self.gen_param(rng, SHIFTS, [V(0), V(1)])}
        if kind == "dense":
            case["container"] = rng.choice(["tuple", "list"])
        return case

    def gen_stats(self, rng, tier):
        """phase 5: one column for the statistic functions themselves — count 0..13, ties, first-seen modes, mixed values"""
        n = rng.choice([0, 1, 1, 2, 2, 3, 4, 4, 5, 6, 7, 8, 9, 10, 12, 13])
        style = rng.choice(["int", "ties", "dyadic", "mixedmode", "strmode"])
        col = []
        for _ in range(n):
            if style == "int":
                col.append(V(rng.randint(-40, 40)))
            elif style == "ties":
                col.append(V(rng.randint(0, 3)))
            elif style == "dyadic":
                col.append(V(rng.randint(-64, 64) / rng.choice([2, 4, 8]), "f"))
            elif style == "mixedmode":
                col.append(V("s%d" % rng.below(2)) if rng.chance(0.4) else V(rng.randint(0, 2)))
            else:
                col.append(V("s%d" % rng.below(3)))
        for _ in range(rng.choice([0, 0, 1, 2])):
            col.insert(rng.below(len(col) + 1), rng.choice([None, None, NAN]))
        return {"op": "stats", "col": col}

    def evaluate_stats(self, case, driver):
        """the statistic functions of coba/statistics.py and `statistics` on one column vs the exact reference (B: the documented
        statistic) and the Lean model (A: `iqr`, `percentile`, `quarterAt`, `median`, `mode` = first seen)"""
        col = case["col"]
        vals = [v for v in col if v is not None and v != NAN]
        nums = [fr(v) for v in vals if is_num(v)]
        numeric = len(nums) == len(vals)
        n = len(vals)
        tags = ["op:stats", "statfn:n=%d" % n, "statfn:" + ("numeric" if numeric else "mixed" if nums else "strings")]
        if numeric and n >= 2:
            tags += ["statfn:n%%4=%d" % (n % 4), "statfn:even" if n % 2 == 0 else "statfn:odd"]
            if len(set(nums)) < n:
                tags.append("statfn:ties")
        impl = stats_impl(col)
        fails = []

        def num_of(v):
            return fr(v) if is_num(v) else None
        # ---- (B) exact reference: the documented statistics
        if numeric:
            ref = {}
            ref["iqr"] = Fraction(0) if n <= 1 else f_quantile(nums, Fraction(3, 4)) - f_quantile(nums, Fraction(1, 4))
            if n >= 1:
                ref["median"] = f_median(nums)
                ref["min"], ref["max"] = min(nums), max(nums)
                ref["p25"] = f_quantile(nums, Fraction(1, 4))
                ref["pct"] = [f_quantile(nums, Fraction(1, 4)), f_quantile(nums, Fraction(3, 4))]
            for k, e in ref.items():
                got = impl.get(k)
                gl = got if isinstance(got, list) else [got]
                el = e if isinstance(e, list) else [e]
                ok = len(gl) == len(el) and all(is_num(g) and close(fr(g), x, max(abs(y) for y in nums) if nums else 1.0) for g, x in zip(gl, el))
                if not ok:
                    fails.append(F("B", "statistic %s of %s (%d values, %s): expected %s, got %s" % (
                        k, [show(v) for v in vals], n, "even" if n % 2 == 0 else "odd", [str(x) for x in el], [show(g) if not isinstance(g, dict) or "err" not in g else g for g in gl]),
                        "stats-%s-wrong:n%%4=%d" % (k, n % 4)))
        if n >= 1:
            got = impl.get("mode")
            cnt = {}
            for v in vals:
                key = json.dumps(to_lean(v) if not is_num(v) else [fr(v).numerator, fr(v).denominator], sort_keys=True)
                cnt[key] = cnt.get(key, 0) + 1
            gk = None if got is None or (isinstance(got, dict) and "err" in got) else json.dumps(to_lean(got) if not is_num(got) else [fr(got).numerator, fr(got).denominator], sort_keys=True)
            if gk is None or cnt.get(gk, 0) != max(cnt.values()):
                fails.append(F("B", "mode of %s is not a most frequent value: got %s" % ([show(v) for v in vals], got), "stats-mode-wrong"))
            first = next(v for v in vals if cnt[json.dumps(to_lean(v) if not is_num(v) else [fr(v).numerator, fr(v).denominator], sort_keys=True)] == max(cnt.values()))
            if len([c for c in cnt.values() if c == max(cnt.values())]) > 1:
                tags.append("mode:tie")
                smallest_num = min(nums) if numeric else None
                if numeric and fr(first) != min(fr(v) for v in vals if cnt[json.dumps([fr(v).numerator, fr(v).denominator])] == max(cnt.values())):
                    tags.append("mode:first-seen-not-smallest")
        model = None
        if driver is not None:
            ans = driver.ask({"op": "stats", "xs": [[x.numerator, x.denominator] for x in nums] if numeric else [],
                              "vals": [to_lean(v) for v in col]})
            model = ans

            def cmp(name, got, exp_j, exact=True):
                if exp_j is None:
                    if not (isinstance(got, dict) and "err" in got) and got is not None:
                        fails.append(F("A", "stats %s: model has no value, implementation %s" % (name, got), "A:stats:%s" % name))
                    return
                e = Fraction(exp_j[0], exp_j[1])
                if not is_num(got) or (fr(got) != e if exact else not close(fr(got), e)):
                    fails.append(F("A", "stats %s of %s: implementation %s, model %s" % (name, [show(v) for v in vals], show(got) if not isinstance(got, dict) or "q" in got else got, e), "A:stats:%s" % name))
            if numeric:
                exact = all(x.denominator in (1, 2, 4, 8, 16) and abs(x) < 2 ** 20 for x in nums)
                cmp("iqr", impl.get("iqr"), ans["iqr"], exact)
                if n >= 1:
                    cmp("median", impl.get("median"), ans["median"], exact)
                    cmp("min", impl.get("min"), ans["min"])
                    cmp("max", impl.get("max"), ans["max"])
                    cmp("p25", impl.get("p25"), ans["p25"], exact)
                    pct = impl.get("pct")
                    if isinstance(pct, list) and len(pct) == 2:
                        cmp("pct25", pct[0], ans["p25"], exact)
                        cmp("pct75", pct[1], ans["p75"], exact)
                    else:
                        fails.append(F("A", "percentile(values,[.25,.75]) returned %s" % (pct,), "A:stats:pct-shape"))
                # the expression programs (what `programs_match_source` ties to the source bodies) against the real functions
                cmp("program:iqr", impl.get("iqr"), ans["progiqr"], exact)
                if n >= 1:
                    cmp("program:p25", impl.get("p25"), ans["prog25"], exact)
                    if isinstance(pct, list) and len(pct) == 2:
                        cmp("program:p75", pct[1], ans["prog75"], exact)
                    if ans["progmean"] is None or not close(Fraction(*ans["progmean"]), sum(nums) / n):
                        fails.append(F("C", "meanExpr program differs from the mean: %s" % (ans["progmean"],), "C:stats:program-mean"))
                    if ans["progapply"] is None or Fraction(*ans["progapply"]) != (nums[0] + min(nums)) * 3:
                        fails.append(F("C", "applyExpr program differs from (x+shift)*scale: %s" % (ans["progapply"],), "C:stats:program-apply"))
                    tags.append("program-checked")
                if n >= 2 and (ans["q1"] != ans["p25"] or ans["q3"] != ans["p75"]):
                    fails.append(F("C", "quarterAt differs from percentile (percentile_quarter): %s" % ans, "C:stats:quarter"))
            if n >= 1:
                got = impl.get("mode")
                exp = from_lean(ans["mode"])
                same = (is_num(got) and is_num(exp) and fr(got) == fr(exp)) or (is_str(got) and is_str(exp) and got["s"] == exp["s"])
                if not same:
                    fails.append(F("A", "statistics.mode of %s: implementation %s, model (first value of maximal count) %s" % ([show(v) for v in vals], got, exp), "A:stats:mode"))
        return {"fails": fails, "nontrivial": n >= 2, "tags": tags, "impl": impl, "model": model}

    def gen_ragged(self, rng, tier):
        """dense contexts of DIFFERENT lengths (outside the quantifier; (A) only): a short / long row inside or after the
        window, columns with and without parameters"""
        n = rng.randint(2, 6)
        m = rng.randint(1, 4)
        rows = []
        for i in range(n):
            row = []
            for j in range(m):
                r = rng.below(10)
                row.append(V("s%d" % rng.below(3)) if (j == 1 and r < 6) or r == 0 else None if r == 1 else self.gen_number(rng, rng.choice(["int", "dyadic"])))
            rows.append(row)
        for _ in range(rng.choice([1, 1, 2])):
            i = rng.choice([0, n - 1, rng.below(n), rng.below(n)])
            if rng.chance(0.7):
                rows[i] = rows[i][:rng.below(len(rows[i]) + 1)] if rows[i] else rows[i]
            else:
                rows[i] = rows[i] + [self.gen_number(rng, "int")]
        if not rows[0]:
            rows[0] = [self.gen_number(rng, "int")]
        return {"op": "scale", "kind": "dense", "ragged": True, "container": rng.choice(["tuple", "list"]), "rows": rows,
                "shift": self.gen_param(rng, SHIFTS, [V(0), V(1), V(0.5, "f")]), "scale": self.gen_param(rng, SCALES, [V(2), V(0.5, "f"), V(-3)]),
                "using": rng.choice([None, None, 1, 1, 2, n, n + 1, rng.randint(1, n)]), "via": "filter", "itype": rng.choice(["sim", "dict"])}

    def evaluate_ragged(self, case, driver):
        """ragged dense rows: outside the property's quantifier, so only (A): exception class / outputs vs `scaleDenseE`"""
        rows = case["rows"]
        tags = ["op:scale", "kind:dense", "ragged", "outside-quantifier:ragged",
                "shift:" + (case["shift"] if isinstance(case["shift"], str) else "number"),
                "scale:" + (case["scale"] if isinstance(case["scale"], str) else "number")]
        impl = run_impl(case)
        fails = []
        rect = all(len(r) == len(rows[0]) for r in rows)
        tags.append("ragged:rect" if rect else "ragged:" + ("raises-" + impl["err"] if "err" in impl else "passes"))
        if "err" in impl and impl["err"] != "IndexError":
            fails.append(F("B", "scale raised %s(%s) on dense contexts of different lengths" % (impl["err"], impl.get("msg")), "scale-raises-%s:ragged" % impl["err"]))
        if "err" not in impl and (impl["n"] != len(rows) or not impl.get("others_ok", True)):
            fails.append(F("B", "interactions or fields other than the context changed: %s" % impl.get("others_bad"), "scale-other-field-changed"))
        model = None
        if driver is not None:
            ans = driver.ask({"op": "ragged", "rows": self.rows_to_lean("dense", rows), "shift": param_lean(case["shift"]),
                              "scale": param_lean(case["scale"]), "using": case.get("using")})
            model = ans["model"]
            if ans["rect"] != rect:
                fails.append(F("A", "Rect differs: model %s" % ans["rect"], "A:scale:ragged:rect"))
            d = self.compare_model(case, impl, ans)
            if d:
                fails.append(F("A", "ragged dense contexts: implementation and model (scaleDenseE) differ: %s" % d[1], "A:scale:ragged:%s" % d[0]))
        return {"fails": fails, "nontrivial": "out" in impl and self.changed(case, impl) if all(len(o.get("v", [])) == len(r) for o, r in zip(impl.get("out", []), rows)) else False,
                "tags": tags, "impl": impl, "model": model}

    def gen_number(self, rng, style):
        if style == "int":
            return V(rng.randint(-9, 9))
        if style == "bigint":
            return V(rng.randint(-1000, 1000))
        if style == "dyadic":
            return V(rng.randint(-40, 40) / rng.choice([2, 4, 8]), "f")
        if style == "floatint":
            return V(float(rng.randint(-9, 9)), "f")
        if style == "mixed":
            return V(rng.randint(-9, 9)) if rng.chance(0.5) else V(rng.randint(-40, 40) / rng.choice([1, 2, 4]), "f")
        raise ValueError(style)

    def gen_numeric_column(self, rng, n):
        r = rng.below(100)
        if r < 10:       # constant
            c = self.gen_number(rng, rng.choice(["int", "dyadic"]))
            col = [dict(c) for _ in range(n)]
        elif r < 20:     # nearly constant: spread 2^-k around the 1e-6 guard
            base = rng.randint(-5, 5)
            k = rng.choice([8, 12, 18, 19, 20, 21, 24])
            col = [V(base + rng.randint(0, 3) / 2 ** k, "f") for _ in range(n)]
        elif r < 30:     # few distinct values (modes, ties)
            pool = [self.gen_number(rng, "int") for _ in range(rng.randint(1, 3))]
            col = [dict(rng.choice(pool)) for _ in range(n)]
        elif r < 42:     # statistics that come out as exactly 0 (falsy results)
            x = rng.randint(1, 6)
            pool = rng.choice([[V(0), V(0), V(x), V(-x)], [V(0.0, "f"), V(0), V(0), V(x)], [V(x), V(-x)], [V(0)], [V(0), V(0), V(0), V(-x)]])
            col = [dict(rng.choice(pool)) for _ in range(n)]
        else:
            style = rng.choice(["int", "int", "dyadic", "mixed", "mixed", "floatint", "bigint"])
            col = [self.gen_number(rng, style) for _ in range(n)]
        return col

    def gen_string_column(self, rng, n):
        pool = rng.choice([["a", "b"], ["a", "b", "c"], ["x"], ["lo", "hi", "mid", "z"]])
        return [V(rng.choice(pool)) for _ in range(n)]

    def sprinkle_missing(self, rng, col, numeric, allow_nan):
        n = len(col)
        r = rng.below(100)
        miss = [None] + ([NAN] if (numeric and allow_nan) else [])
        if r < 30:
            return col
        if r < 45:      # the first interaction
            col[0] = rng.choice(miss)
        elif r < 55:    # the last
            col[-1] = rng.choice(miss)
        elif r < 62:    # all but one value missing (single-valued feature)
            keep = rng.below(n)
            for i in range(n):
                if i != keep:
                    col[i] = rng.choice(miss)
        elif r < 66:    # everything missing
            for i in range(n):
                col[i] = rng.choice(miss)
        elif r < 72 and n >= 2:   # a whole prefix missing (window without data)
            for i in range(rng.randint(1, n - 1)):
                col[i] = rng.choice(miss)
        else:
            p = rng.choice([0.15, 0.3, 0.5])
            for i in range(n):
                if rng.chance(p):
                    col[i] = rng.choice(miss)
        return col

    def gen_table(self, rng, op):
        n = rng.choice([1, 2, 2, 3, 3, 4, 5, 6, 8, 12])
        m = rng.choice([1, 1, 2, 2, 3, 4])
        allow_nan = rng.chance(0.45 if op == "scale" else 0.08)
        clean = rng.chance(0.3)          # a table without any missing value
        cols = []
        for _ in range(m):
            numeric = rng.chance(0.75)
            col = self.gen_numeric_column(rng, n) if numeric else self.gen_string_column(rng, n)
            col = col if clean else self.sprinkle_missing(rng, col, numeric, allow_nan)
            if numeric and rng.chance(0.07):
                # a MIXED-type column (outside the property's quantifier; compared with the model only): strings among numbers,
                # at the first position, a single one, or after the window
                pos = rng.choice([[0], [n - 1], [rng.below(n)], [i for i in range(n) if rng.chance(0.4)]])
                for i in pos:
                    col[i] = V(rng.choice(["x", "y"]))
            cols.append(col)
        return n, m, cols

    def gen_using(self, rng, n):
        r = rng.below(100)
        if r < 35:
            return None
        if r < 50:
            return 1
        if r < 75 and n >= 3:
            return rng.randint(2, n - 1)
        if r < 85:
            return n
        if r < 95:
            return n + rng.randint(1, 3)
        return max(1, n - 1)

    def gen_param(self, rng, names, numbers):
        if rng.chance(0.7):
            return rng.choice(names)
        return rng.choice(numbers)

    def generate(self, rng, tier):
        if rng.chance(0.08):
            return self.generate_gens(rng, tier)
        if rng.chance(0.2):
            return self.generate_seq(rng, tier)
        if rng.chance(0.05):
            return self.gen_ragged(rng, tier)
        if rng.chance(0.03):
            return self.gen_perfect_square(rng, tier)
        if rng.chance(0.04):
            return self.gen_stats(rng, tier)
        return self.generate_single(rng, tier)

    def generate_seq(self, rng, tier):
        """2-3 DIFFERENT sequences (own values, feature counts, container kinds) for one filter object ('reuse') or one
        Environments([..]).scale/impute call ('envs'), handled in a PRNG-chosen order, possibly one of them twice"""
        while True:
            base = self.generate_single(rng, tier)
            if base["rows"] and base["rows"][0] != "nocontext":
                break
        op = base["op"]
        mode = "envs" if rng.chance(0.5) else "reuse"
        table_keys = ("kind", "rows", "container", "scontainer", "itype")
        subs = [{k: base[k] for k in table_keys if k in base}]
        for _ in range(rng.choice([1, 1, 2])):
            while True:
                other = self.generate_single(rng, tier, op=op)
                if other["rows"] and other["rows"][0] != "nocontext":
                    break
            subs.append({k: other[k] for k in table_keys if k in other})
        case = {k: v for k, v in base.items() if k not in table_keys and k not in ("via", "stats_as_list", "omit", "targets", "targets_as_str", "clone", "keystyle")}
        if op == "scale" and any(sc["kind"] == "sparse" for sc in subs) and rng.chance(0.7):
            case["shift"] = V(0)
        if op == "impute" and mode == "reuse":
            case["stats"] = case["stats"][:1]
        order = list(range(len(subs)))
        for i in range(len(order) - 1, 0, -1):
            j = rng.below(i + 1)
            order[i], order[j] = order[j], order[i]
        if rng.chance(0.3):
            order.append(rng.choice(order))       # one sequence is read again later
        case.update(seq=subs, mode=mode, read_order=order)
        return case

    def generate_single(self, rng, tier, op=None):
        op = op or ("scale" if rng.chance(0.55) else "impute")
        n, m, cols = self.gen_table(rng, op)
        kind = rng.choice(["dense", "dense", "sparse", "sparse", "scalar"])
        case = {"op": op, "kind": kind, "using": self.gen_using(rng, n), "via": "env" if rng.chance(0.3) else "filter",
                "itype": rng.choice(["sim", "sim", "log", "dict"])}
        if kind == "scalar":
            case["rows"] = cols[0]
        elif kind == "dense":
            case["container"] = rng.choice(["tuple", "list", "tuple", "list", "sparsedense", "sparsedense", "lazydense", "headdense"])
            case["rows"] = [[cols[j][i] for j in range(m)] for i in range(n)]
        else:
            names = ["a", "b", "c", "d"][:m]
            rows = []
            drop_p = rng.choice([0.0, 0.2, 0.4])
            late = rng.below(m) if rng.chance(0.25) else None     # a key that first appears late
            late_from = rng.randint(1, n) if late is not None else 0
            for i in range(n):
                row = []
                for j in range(m):
                    if late == j and i < late_from:
                        continue
                    if rng.chance(drop_p):
                        continue
                    row.append([names[j], cols[j][i]])
                rows.append(row)
            case["rows"] = rows
        if op == "scale":
            zero = [V(0), V(0), V(0.0, "f")]
            if kind == "sparse" and rng.chance(0.9):
                case["shift"] = rng.choice(zero)
            else:
                case["shift"] = self.gen_param(rng, SHIFTS, [V(0), V(1), V(-2), V(0.5, "f"), V(3.0, "f"), V(-7)])
            case["scale"] = self.gen_param(rng, SCALES, [V(1), V(2), V(0.5, "f"), V(-3), V(10), V(0.25, "f")])
        else:
            if case["via"] == "env" and rng.chance(0.5):
                case["stats"] = [rng.choice(["mean", "median", "mode"]), rng.choice(["mean", "median", "mode"])]
            else:
                case["stats"] = [rng.choice(["mean", "median", "mode"])]
                if case["via"] == "env" and rng.chance(0.3):
                    case["stats_as_list"] = True
            case["ind"] = rng.chance(0.5)
        if kind == "sparse" and rng.chance(0.2):
            case["scontainer"] = rng.choice(["lazysparse", "headsparse"])
        elif kind == "sparse" and rng.chance(0.4):
            # keys that are not strings; keys with equal str() only where no indicator NAME is derived from a key
            case["keystyle"] = rng.choice(["int", "mixed", "equalnum", "collide"] if (op == "scale" or not case["ind"]) else ["int", "mixed", "equalnum"])
        if rng.chance(0.12) and case.get("container", "tuple") != "lazydense" and case.get("scontainer", "dict") == "dict":
            case["clone"] = rng.choice(["pickle", "pickle", "deepcopy", "copy"])     # a copy of the filter / pipeline does the work
        # argument glue: keywords left out (the case then states the documented default), targets, using=0, scale 0
        env = case["via"] == "env"
        omit = []
        if op == "scale":
            if rng.chance(0.12):
                omit.append("shift"); case["shift"] = "min" if env else V(0)
            if rng.chance(0.12):
                omit.append("scale"); case["scale"] = "minmax"
            if rng.chance(0.12):
                omit.append("using"); case["using"] = None
            if "scale" not in omit and rng.chance(0.04):
                case["scale"] = rng.choice([V(0), V(0.0, "f")])
            r = rng.below(100)
            if r < 6:
                case["targets"] = ["context"]
                case["targets_as_str"] = rng.chance(0.5)
            elif r < 9 and env:
                case["targets"] = ["context", "context"]
            elif r < 12:
                case["targets"] = ["rewards"]
                case["targets_as_str"] = rng.chance(0.5)
        else:
            if rng.chance(0.12):
                omit.append("stats"); case["stats"] = ["mean"]; case.pop("stats_as_list", None)
            if rng.chance(0.12):
                omit.append("ind"); case["ind"] = True
            if rng.chance(0.12):
                omit.append("using"); case["using"] = None
        if "using" not in omit and rng.chance(0.03):
            case["using"] = 0
        if omit:
            case["omit"] = omit
        if rng.chance(0.02):
            case["rows"] = []
        elif rng.chance(0.02):
            case["rows"] = ["nocontext" for _ in range(n)]
            case["itype"] = "dict"
        return case

    def search(self, rng, tier):
        return self.generate(rng, tier)

    def corpus(self):
        n = lambda x: V(x)
        f = lambda x: V(float(x), "f")
        cs = []
        # P20 / P21 and their neighbours
        for kind, rows in (("dense", [[None, n(1)], [n(2), n(3)], [n(4), None]]),
                           ("sparse", [[["a", None], ["b", n(1)]], [["a", n(2)], ["b", n(3)]], [["a", n(4)], ["b", None]]]),
                           ("scalar", [None, n(2), n(4)])):
            for st in ("mean", "median", "mode"):
                for ind in (False, True):
                    cs.append({"op": "impute", "kind": kind, "rows": rows, "stats": [st], "ind": ind, "using": None, "via": "filter", "itype": "sim"})
        for kind, rows, sh in (("dense", [[n(1), n(1)], [None, n(3)], [n(4), n(5)]], "min"),
                               ("dense", [[None, n(1)], [n(2), n(3)], [n(4), n(5)]], "min"),
                               ("sparse", [[["a", n(1)]], [["a", None]], [["a", n(4)]]], n(0)),
                               ("sparse", [[["a", None], ["b", n(1)]], [["a", n(2)], ["b", n(3)]], [["a", n(4)]]], n(0)),
                               ("scalar", [n(1), None, n(4)], "min")):
            for sc in ("minmax", "maxabs", n(2)):
                cs.append({"op": "scale", "kind": kind, "rows": rows, "shift": sh, "scale": sc, "using": None, "via": "filter", "itype": "sim"})
                cs.append({"op": "scale", "kind": kind, "rows": rows, "shift": sh, "scale": sc, "using": 2, "via": "filter", "itype": "log"})
        # nan handling for every statistic
        for sh in ("min", "mean", "median", n(0)):
            for sc in ("minmax", "std", "iqr", "maxabs", n(2)):
                for rows in ([[NAN, n(1)], [n(2), n(3)], [n(4), n(5)], [n(7), n(7)]], [[n(2), n(1)], [NAN, n(3)], [n(4), NAN], [n(7), n(7)]]):
                    cs.append({"op": "scale", "kind": "dense", "rows": rows, "shift": sh, "scale": sc, "using": None, "via": "filter", "itype": "sim"})
        # int shift + float values with maxabs
        cs.append({"op": "scale", "kind": "dense", "rows": [[n(1)], [f(2.5)], [n(4)]], "shift": "min", "scale": "maxabs", "using": None, "via": "filter", "itype": "sim"})
        cs.append({"op": "scale", "kind": "sparse", "rows": [[["a", f(1.5)]], [["a", f(3.0)]]], "shift": n(0), "scale": "maxabs", "using": None, "via": "env", "itype": "sim"})
        # the 1e-6 guard
        for k in (19, 20):
            cs.append({"op": "scale", "kind": "dense", "rows": [[V(5 + 1 / 2 ** k, "f")], [n(5)], [n(5)]], "shift": "min", "scale": "minmax", "using": None, "via": "filter", "itype": "sim"})
        # sparse key outside the window
        cs.append({"op": "scale", "kind": "sparse", "rows": [[["a", n(1)]], [["b", n(3)]]], "shift": n(0), "scale": n(2), "using": 1, "via": "filter", "itype": "sim"})
        # lists of statistics
        cs.append({"op": "impute", "kind": "dense", "rows": [[n(1), V("a")], [None, None], [n(3), V("a")]], "stats": ["mean", "mode"], "ind": False, "using": None, "via": "env", "itype": "sim"})
        cs.append({"op": "impute", "kind": "dense", "rows": [[n(1), V("a")], [None, None], [n(3), V("a")]], "stats": ["mode", "mean"], "ind": True, "using": 2, "via": "env", "itype": "sim"})
        # statistics that are exactly 0 (falsy in Python)
        for kind, rows in (("scalar", [n(0), None, n(0), n(3)]), ("dense", [[n(0)], [None], [n(0)], [n(3)]]),
                           ("sparse", [[["a", n(0)]], [["a", None]], [["a", n(0)]], [["a", n(3)]]]),
                           ("scalar", [n(2), None, n(-2)]), ("sparse", [[["a", n(5)]], [["a", None]], [], [], []])):
            for st in ("mean", "median", "mode"):
                for ind in (False, True):
                    cs.append({"op": "impute", "kind": kind, "rows": rows, "stats": [st], "ind": ind, "using": None, "via": "filter", "itype": "log"})
        # one filter object / one Environments call over several different sequences
        A = [[n(0), n(10)], [n(5), n(20)], [n(10), n(30)]]
        B = [[n(100), n(-4)], [n(300), n(0)], [n(200), n(4)], [n(500), n(2)]]
        C3 = [[n(1), n(2), n(7)], [n(4), n(8), n(9)]]
        dA, dB, dC = ({"kind": "dense", "container": "tuple", "rows": r, "itype": "sim"} for r in (A, B, C3))
        sS = {"kind": "scalar", "rows": [n(3), None, n(9), n(5)], "itype": "log"}
        sP = {"kind": "sparse", "rows": [[["a", n(2)]], [["a", n(6)], ["b", n(1)]], [["b", None]]], "itype": "sim"}
        for mode in ("reuse", "envs"):
            for order in ([0, 1], [1, 0], [0, 1, 0]):
                for using in (None, 2):
                    cs.append({"op": "scale", "shift": "min", "scale": "minmax", "using": using, "mode": mode, "seq": [dA, dB], "read_order": order})
                    cs.append({"op": "scale", "shift": n(0), "scale": "maxabs", "using": using, "mode": mode, "seq": [dB, sP, dC], "read_order": order + [2]})
                    cs.append({"op": "scale", "shift": "mean", "scale": "std", "using": using, "mode": mode, "seq": [sS, dC, dA], "read_order": order + [2]})
                    for st in ("mean", "median", "mode"):
                        cs.append({"op": "impute", "stats": [st], "ind": True, "using": using, "mode": mode,
                                   "seq": [sS, {"kind": "dense", "container": "list", "rows": [[n(1), None], [None, n(4)], [n(3), n(4)]], "itype": "sim"}, sP],
                                   "read_order": order + [2]})
        # phase 6: histories of partial / abandoned / interleaved reads over generators of one object / one collection
        dM = {"kind": "dense", "container": "list", "rows": [[n(1), None], [None, n(4)], [n(3), n(4)], [None, None]], "itype": "sim"}
        sQ = {"kind": "sparse", "rows": [[["a", n(4)], ["b", None]], [["a", None]], [["a", n(8)], ["b", n(3)]]], "itype": "log"}
        for gmode in ("reuse", "envs"):
            for pat in self.GENS_PATTERNS[:-1]:
                for using in (None, 1, 2):
                    for cfgd, seqs in (({"op": "scale", "shift": "min", "scale": "minmax"}, [dA, dB]),
                                       ({"op": "scale", "shift": "mean", "scale": "std"}, [sS, dC]),
                                       ({"op": "scale", "shift": n(0), "scale": "maxabs"}, [sP, sQ]),
                                       ({"op": "impute", "stats": ["mean"], "ind": True}, [dM, sS]),
                                       ({"op": "impute", "stats": ["median"], "ind": False}, [sS, dM]),
                                       ({"op": "impute", "stats": ["mode"], "ind": True}, [sQ, sP])):
                        cs.append(dict(cfgd, using=using, mode="gens", gmode=gmode, seq=seqs, pattern=pat,
                                       history=self.gens_history(pat, [len(t["rows"]) for t in seqs])))
            cs.append({"op": "impute", "stats": ["mean", "mode"], "ind": True, "using": 2, "mode": "gens", "gmode": "envs", "seq": [dM, sS, sQ],
                       "pattern": "interleave", "history": self.gens_history("interleave", [4, 4, 3])})
            cs.append({"op": "scale", "shift": "min", "scale": "minmax", "using": None, "mode": "gens", "gmode": gmode, "seq": [sP, dA],
                       "pattern": "interleave", "history": self.gens_history("interleave", [3, 3])})   # sparse + shift: raises at the first next
        # phase 6: sparse keys that are not strings (ints, mixed unorderable types, 1 / 1.0 / True across rows, equal str())
        kt = [[["a", n(2)], ["b", n(10)], ["d", None]], [["a", n(4)], ["b", None], ["c", n(8)]], [["a", None], ["c", n(4)], ["d", n(6)]],
              [["a", n(8)], ["b", n(30)], ["c", None], ["d", n(2)]]]
        for style in ("int", "mixed", "equalnum", "collide"):
            for via in ("filter", "env"):
                for using in (None, 2, 3):
                    for sc in ("minmax", "maxabs", "iqr", n(2)):
                        cs.append({"op": "scale", "kind": "sparse", "rows": kt, "shift": n(0), "scale": sc, "using": using, "via": via,
                                   "itype": "sim", "keystyle": style})
                    for st in ("mean", "median", "mode"):
                        for ind in ((False,) if style == "collide" else (False, True)):
                            cs.append({"op": "impute", "kind": "sparse", "rows": kt, "stats": [st], "ind": ind, "using": using, "via": via,
                                       "itype": "log", "keystyle": style})
        # phase 2: nan as missing in Impute, indicator of a feature without imputation, std (exact-root and irrational variance)
        for kind, rows in (("dense", [[n(1), V("a")], [NAN, None], [None, V("a")], [n(3), V("b")]]),
                           ("sparse", [[["a", n(1)], ["s", V("x")]], [["a", NAN], ["s", None]], [["a", None]], [["a", n(3)], ["s", V("x")]]]),
                           ("scalar", [n(1), NAN, None, n(3)]), ("scalar", [None, None]), ("dense", [[None], [None]]),
                           ("sparse", [[["a", None]], [["a", None]]]), ("scalar", [V("a"), None, V("b")])):
            for st in ("mean", "median", "mode"):
                for ind in (False, True):
                    for using in (None, 2):
                        cs.append({"op": "impute", "kind": kind, "rows": rows, "stats": [st], "ind": ind, "using": using, "via": "filter", "itype": "sim"})
        for rows in ([[n(1)], [n(3)], [n(5)]], [[n(0)], [n(2)]], [[f(2.5)], [None], [n(4)], [NAN], [n(-1)]]):
            for sh in ("mean", n(0)):
                cs.append({"op": "scale", "kind": "dense", "container": "tuple", "rows": rows, "shift": sh, "scale": "std", "using": None, "via": "filter", "itype": "sim"})
        # coba's own row objects as contexts; copies of filters and pipelines (round e)
        tab = [[n(1), n(10)], [n(3), n(0)], [n(9), n(20)], [n(5), n(50)]]
        stab = [[["a", n(2)], ["b", n(10)]], [["a", n(4)], ["b", None], ["c", n(8)]], [["a", n(8)], ["c", n(4)]]]
        for cont in ("sparsedense", "lazydense", "headdense"):
            for via in ("filter", "env"):
                for using in (None, 2):
                    cs.append({"op": "scale", "kind": "dense", "container": cont, "rows": tab, "shift": "min", "scale": "minmax", "using": using, "via": via, "itype": "sim"})
                    cs.append({"op": "impute", "kind": "dense", "container": cont, "rows": [[n(1), None], [None, n(0)], [n(3), n(4)]], "stats": ["mean"], "ind": True, "using": using, "via": via, "itype": "sim"})
        for sc in ("lazysparse", "headsparse"):
            cs.append({"op": "scale", "kind": "sparse", "scontainer": sc, "rows": stab, "shift": n(0), "scale": "maxabs", "using": 2, "via": "env", "itype": "sim"})
            cs.append({"op": "impute", "kind": "sparse", "scontainer": sc, "rows": stab, "stats": ["median"], "ind": True, "using": None, "via": "filter", "itype": "sim"})
        for clone in ("pickle", "deepcopy", "copy"):
            for via in ("filter", "env"):
                for cont in ("tuple", "list", "sparsedense"):
                    cs.append({"op": "scale", "kind": "dense", "container": cont, "rows": tab, "shift": "min", "scale": "minmax", "using": 2, "via": via, "itype": "sim", "clone": clone})
                    cs.append({"op": "scale", "kind": "dense", "container": cont, "rows": tab, "shift": "mean", "scale": "std", "using": 3, "via": via, "itype": "log", "clone": clone, "targets": ["context"]})
                    cs.append({"op": "impute", "kind": "dense", "container": cont, "rows": [[n(1), None], [None, n(2)], [n(30), n(4)]], "stats": ["mean"], "ind": False, "using": 2, "via": via, "itype": "sim", "clone": clone})
                cs.append({"op": "impute", "kind": "sparse", "rows": stab, "stats": ["mode"], "ind": True, "using": 1, "via": via, "itype": "sim", "clone": clone})
        # string scalar / string feature with a missing first value
        cs.append({"op": "impute", "kind": "scalar", "rows": [V("a"), None, V("b"), V("c")], "stats": ["median"], "ind": False, "using": None, "via": "filter", "itype": "sim"})
        cs.append({"op": "impute", "kind": "dense", "rows": [[None, n(1)], [V("a"), None], [V("b"), n(2)], [V("c"), n(2)]], "stats": ["median"], "ind": True, "using": None, "via": "filter", "itype": "sim"})
        cs.append({"op": "impute", "kind": "sparse", "rows": [[["a", V("x")]], [["a", None]]], "stats": ["mean"], "ind": False, "using": None, "via": "filter", "itype": "sim"})
        cs.append({"op": "scale", "kind": "scalar", "rows": [V("a"), None, V("b")], "shift": n(0), "scale": n(2), "using": None, "via": "filter", "itype": "sim"})
        # phase 4: every exception class of _get_shift_and_scale (all-missing / single-value / string windows x every option)
        for sh in ("min", "mean", "median", "med", n(0), f(1.5)):
            for sc in ("minmax", "std", "iqr", "maxabs", n(2)):
                for tab in ([[None, NAN], [None, n(1)], [n(2), n(3)]], [[n(1), V("a")], [n(2), None], [n(4), V("b")]],
                            [[n(1), V("a")], [None, n(1)], [n(3), n(2)]]):
                    cs.append({"op": "scale", "kind": "dense", "container": "tuple", "rows": tab, "shift": sh, "scale": sc, "using": 1 if tab[0][0] is None else 2,
                               "via": "filter", "itype": "sim"})
                cs.append({"op": "scale", "kind": "scalar", "rows": [None, NAN, n(3)], "shift": sh, "scale": sc, "using": 2, "via": "filter", "itype": "sim"})
        # phase 4 (continued): scale_scalar_dense_mixed_counterexample / scale_scalar_dense_agree_iff replayed on the code
        for tab in ([V("x"), n(3)], [V("x"), n(5), n(7)], [V("x"), None, n(3)], [n(3), V("x"), n(5)]):
            for sh, sc in ((n(1), n(2)), (n(1), "iqr"), ("min", n(2))):
                cs.append({"op": "scale", "kind": "scalar", "rows": tab, "shift": sh, "scale": sc, "using": None, "via": "filter", "itype": "sim", "agree": True})
                cs.append({"op": "scale", "kind": "dense", "container": "tuple", "rows": [[v] for v in tab], "shift": sh, "scale": sc, "using": None, "via": "filter", "itype": "sim", "agree": True})
        # phase 4 (continued): perfect-square variances (SqrtExact on the real stdev)
        for tab in ([n(1), n(3), n(5)], [f(0), f(1.5), f(3)], [f(0.25), None, f(0.5), f(0.75)], [n(7), n(-5), n(1), NAN]):
            cs.append({"op": "scale", "kind": "scalar", "rows": tab, "shift": "mean", "scale": "std", "using": None, "via": "filter", "itype": "sim"})
        # phase 4: ragged dense rows (outside the quantifier, (A) against scaleDenseE)
        for using in (None, 1, 2):
            for sh, sc in ((n(0), n(2)), ("min", "minmax"), (n(0), "std"), ("mean", "iqr")):
                for tab in ([[n(1), n(2)], [n(3)]], [[n(1), V("x"), n(5)], [n(2)]], [[n(1)], [n(2), n(7)], [n(4)]], [[n(1), n(2)], [n(3), n(5)], []],
                            [[n(1), n(2), n(3)], [n(3), n(4), n(5)], [n(6), n(1)]], [[V("a"), n(1)], [V("b")], [V("c"), n(3)]]):
                    cs.append({"op": "scale", "kind": "dense", "ragged": True, "container": "tuple", "rows": tab, "shift": sh, "scale": sc, "using": using,
                               "via": "filter", "itype": "sim"})
        # phase 5: size / parity thresholds of every statistic (0..13 values, n % 4 = 0,1,2,3, ties), first-seen modes, mixed columns —
        # once on the statistic functions themselves and once through Scale / Impute (so (B) judges the filter output)
        for colv in stats_columns():
            cs.append({"op": "stats", "col": colv})
            if not colv:
                continue
            for sh, sc in ((n(0), "iqr"), ("median", n(1)), ("min", "iqr")):
                cs.append({"op": "scale", "kind": "scalar", "rows": list(colv), "shift": sh, "scale": sc, "using": None, "via": "filter", "itype": "sim"})
                cs.append({"op": "scale", "kind": "dense", "container": "tuple", "rows": [[v, n(1)] for v in colv] + [[n(100), n(2)]], "shift": sh, "scale": sc,
                           "using": len(colv), "via": "filter", "itype": "sim"})
            holed = list(colv[:1]) + [None] + list(colv[1:])
            cs.append({"op": "impute", "kind": "scalar", "rows": holed, "stats": ["median"], "ind": False, "using": None, "via": "filter", "itype": "sim"})
            cs.append({"op": "impute", "kind": "dense", "container": "list", "rows": [[v] for v in holed] + [[None]], "stats": ["median"], "ind": True,
                       "using": len(holed), "via": "filter", "itype": "sim"})
        for colv in mode_columns():
            cs.append({"op": "stats", "col": colv})
            cs.append({"op": "stats", "col": [None] + colv + [NAN]})
            holed = list(colv[:1]) + [None] + list(colv[1:])
            cs.append({"op": "impute", "kind": "scalar", "rows": holed, "stats": ["mode"], "ind": False, "using": None, "via": "filter", "itype": "sim"})
            cs.append({"op": "impute", "kind": "dense", "container": "tuple", "rows": [[v] for v in holed] + [[None]], "stats": ["mode"], "ind": False,
                       "using": len(holed), "via": "filter", "itype": "sim"})
        return cs

    def exhaustive(self, tier):
        """small scope, complete: every 1-feature table of 1-3 interactions over {None, nan, 0, 1, 2.5} and over
        {None, 'a', 'b'}, in the three container kinds, x every shift x scale / statistic x indicator, x using in {None,1,2}"""
        import itertools
        numeric = [None, NAN, V(0), V(1), V(2.5, "f")]
        strings = [None, V("a"), V("b")]
        tables = []
        for alpha in (numeric, strings):
            for ln in (1, 2, 3):
                tables += [list(t) for t in itertools.product(alpha, repeat=ln)]
        for col in tables:
            for kind in ("scalar", "dense", "sparse"):
                if kind == "scalar":
                    rows = col
                elif kind == "dense":
                    rows = [[v] for v in col]
                else:
                    rows = [[["a", v]] for v in col]
                for using in (None, 1, 2):
                    if using is not None and using > len(col):
                        continue
                    base = {"kind": kind, "rows": rows, "using": using, "via": "filter", "itype": "sim", "container": "tuple"}
                    for sh in (V(0), "min", "mean", "median"):
                        for sc in (V(2), "minmax", "std", "iqr", "maxabs"):
                            yield dict(base, op="scale", shift=sh, scale=sc)
                    for st in ("mean", "median", "mode"):
                        for ind in (False, True):
                            yield dict(base, op="impute", stats=[st], ind=ind)

    # ---- twins: the same table in the other container kinds
    def twins(self, case):
        kind, rows = case["kind"], case["rows"]
        if not rows or rows[0] == "nocontext":
            return []
        tw = []
        scale = case["op"] == "scale"
        zero_shift = scale and (not isinstance(case["shift"], str)) and fr(case["shift"]) == 0
        if kind == "dense":
            m = len(rows[0])
            if (not scale) or zero_shift:
                tw.append(("sparse", [[["k%d" % j, r[j]] for j in range(m)] for r in rows]))
            if m == 1:
                tw.append(("scalar", [r[0] for r in rows]))
        elif kind == "scalar":
            tw.append(("dense", [[r] for r in rows]))
            if (not scale) or zero_shift:
                tw.append(("sparse", [[["k0", r]] for r in rows]))
        else:
            keys = feature_keys(kind, rows)
            if keys:
                dense = [[(V(0) if cell(kind, r, k) is ABSENT else cell(kind, r, k)) for k in keys] for r in rows]
                # absent = 0 is only a faithful embedding for numeric features
                if all(not is_str(v) for r in dense for v in r):
                    tw.append(("dense*", dense))
        return tw

    # ---- evaluation
    def evaluate(self, case, driver):
        if case.get("mode") == "gens":
            return self.evaluate_gens(case, driver)
        if "seq" in case:
            return self.evaluate_seq(case, driver)
        if case.get("ragged"):
            return self.evaluate_ragged(case, driver)
        if case.get("op") == "stats":
            return self.evaluate_stats(case, driver)
        return self.evaluate_single(case, driver)

    # ---- phase 6: histories of partial / abandoned / interleaved reads
    @staticmethod
    def gens_history(pattern, lens, rng=None):
        """deterministic history families over the sequences with `lens` interactions (generator numbers = order of creation)"""
        h = []
        drain = lambda g, n: [["next", g]] * (n + 1)
        if pattern == "interleave":          # all opened first, advanced round-robin to the end
            for i in range(len(lens)):
                h.append(["open", i])
            for r in range(max(lens) + 1):
                for g, n in enumerate(lens):
                    if r <= n:
                        h.append(["next", g])
        elif pattern == "first-then-sibling":  # A fitted (first next), sibling B read completely, then the rest of A
            h += [["open", 0], ["next", 0], ["open", 1]] + drain(1, lens[1]) + drain(0, lens[0] - 1)
        elif pattern == "abandon-reread":    # read part of A, abandon it, read A again while a sibling is read
            k = min(2, lens[0])
            h += [["open", 0]] + [["next", 0]] * k + [["close", 0], ["next", 0], ["open", 0], ["open", 1]]
            for r in range(max(lens[0], lens[1]) + 1):
                if r <= lens[0]:
                    h.append(["next", 1])
                if r <= lens[1]:
                    h.append(["next", 2])
        elif pattern == "same-twice":        # two generators over the SAME sequence advanced alternately
            h += [["open", 0], ["open", 0]]
            for r in range(lens[0] + 1):
                h += [["next", 0], ["next", 1]]
        elif pattern == "unclosed-leftover":  # a frame suspended after its first interaction is never finished
            h += [["open", 0], ["next", 0], ["open", 1], ["next", 1], ["open", 0]] + drain(2, lens[0]) + drain(1, lens[1] - 1)
        else:                                # random operations, then everything still open is drained
            opened = []
            for _ in range(rng.choice([6, 10, 16, 24])):
                c = rng.below(10)
                if not opened or (c < 2 and len(opened) < 4):
                    opened.append(rng.below(len(lens)))
                    h.append(["open", opened[-1]])
                elif c < 9:
                    h.append(["next", rng.below(len(opened))])
                else:
                    h.append(["close", rng.below(len(opened))])
            for g, i in enumerate(opened):
                if rng.chance(0.7):
                    h += drain(g, lens[i])
        return h

    GENS_PATTERNS = ["interleave", "first-then-sibling", "abandon-reread", "same-twice", "unclosed-leftover", "random"]

    def generate_gens(self, rng, tier):
        case = self.generate_seq(rng, tier)
        case["gmode"] = case["mode"]
        case["mode"] = "gens"
        case.pop("read_order", None)
        pat = rng.choice(self.GENS_PATTERNS)
        case["pattern"] = pat
        case["history"] = self.gens_history(pat, [len(sc["rows"]) for sc in case["seq"]], rng)
        return case

    def evaluate_gens(self, case, driver):
        """every interaction yielded in a history of open/next/close over generators of ONE filter object / ONE
        Environments.scale|impute call must be the interaction a fresh filter yields at that position of that generator's
        OWN sequence (the fresh read itself is judged against the exact reference), whatever else happened in between"""
        subs = gens_subs(case)
        run = run_gens(case)
        hist = case["history"]
        fails = []
        tags = ["gens:" + case["gmode"], "gens:pattern=" + case.get("pattern", "given"), "gens:n=%d" % len(subs),
                "gens:ops=%s" % ("<=8" if len(hist) <= 8 else "<=20" if len(hist) <= 20 else ">20"),
                "gens:generators=%d" % len(run["gens"])]
        if any(t == "close" for t, _ in hist):
            tags.append("gens:has-close")
        srcs_open = [g["src"] for g in run["gens"]]
        if len(srcs_open) != len(set(srcs_open)):
            tags.append("gens:sequence-opened-twice")
        via = "env" if case["gmode"] == "envs" else "filter"
        fresh = {}
        nontrivial = False
        for i in sorted(set(srcs_open)):
            sc = dict(subs[i], via=via)
            fresh[i] = self.evaluate_single(sc, driver, in_seq=True)
            for f in fresh[i]["fails"]:
                fails.append(F(f["kind"], "[fresh read of sequence #%d] %s" % (i, f["what"]), f["sig"]))
            tags += [t for t in fresh[i]["tags"] if t.startswith(("A-skipped", "raises:"))]
            nontrivial = nontrivial or fresh[i]["nontrivial"]
        fresh_ok = {i: not any(f["kind"] == "B" for f in fresh[i]["fails"]) for i in fresh}
        op = case["op"]
        # (B) operation by operation
        nexts = {}
        for pos, (o, (t, n)) in enumerate(zip(run["outs"], hist)):
            if t == "open" or o["t"] in ("nogen", "nosrc"):
                continue
            g = run["gens"][n]
            i = g["src"]
            fi = fresh[i]["impl"]
            if t == "close":
                if o["t"] == "raised":
                    fails.append(F("B", "closing generator #%d (sequence #%d) raised %s" % (n, i, o["err"]), "%s-close-raises-%s" % (op, o["err"])))
                nexts[n] = None
                continue
            j = nexts.get(n, 0)
            if j is None:
                exp = {"t": "stop"}
            elif "err" in fi:
                exp = {"t": "raised", "err": fi["err"]}
                nexts[n] = None
            elif j < len(fi["out"]):
                exp = {"t": "item", "ctx": fi["out"][j]}
                nexts[n] = j + 1
            else:
                exp = {"t": "stop"}
                nexts[n] = None
            if not fresh_ok[i]:
                continue
            where = "operation %d of the history, next on generator #%d over sequence #%d (%s), position %d" % (pos + 1, n, i, subs[i]["kind"], j or 0)
            if o["t"] != exp["t"] or (o["t"] == "raised" and o["err"] != exp["err"]):
                got = "an interaction" if o["t"] == "item" else "StopIteration" if o["t"] == "stop" else "raised " + o.get("err", "?")
                want = "an interaction" if exp["t"] == "item" else "StopIteration" if exp["t"] == "stop" else "raises " + exp.get("err", "?")
                fails.append(F("B", "%s: got %s; a fresh %s reading that sequence alone gives %s" % (where, got, op, want),
                               "%s-history-dependent-result:%s-for-%s" % (op, o["t"], exp["t"])))
            elif o["t"] == "item":
                ctx = g["items"][o["j"]][0]
                if not canon_close(ctx, exp["ctx"]):
                    fails.append(F("B", "%s: yielded context %s; a fresh %s reading that sequence alone yields %s there (which is what the window statistics give)"
                                   % (where, show_canon(ctx), op, show_canon(exp["ctx"])), "%s-history-dependent-result:context" % op))
        for n, g in enumerate(run["gens"]):
            if not fresh_ok[g["src"]]:
                continue
            for j, (a, b) in enumerate(zip(g["items"], g["later"])):
                if not (canon_close(a[0], b[0]) and same_py(a[1], b[1])):
                    fails.append(F("B", "interaction %d yielded by generator #%d (sequence #%d) was %s when handed out and reads %s after the later "
                                   "operations of the history" % (j, n, g["src"], show_canon(a[0]), show_canon(b[0])),
                                   "%s-yielded-interaction-changed-later" % op))
                    break
            if g["others_bad"]:
                fails.append(F("B", "generator #%d (sequence #%d): fields other than the context changed: %s" % (n, g["src"], g["others_bad"]),
                               "%s-other-field-changed" % op))
            if g["views_bad"]:
                fails.append(F("B", "generator #%d: a result context reads differently by index and by iteration: %s" % (n, g["views_bad"]),
                               "%s-context-reads-inconsistently" % op))
        if any(run["mutated"]):
            fails.append(F("A", "the caller's interactions were modified in place", "A:input-mutated:%s" % op))
        model = None
        if driver is not None and not any(t.startswith("A-skipped") for t in tags):
            req = {"op": "gens", "seqop": op, "using": case.get("using"), "history": hist,
                   "seq": [{"kind": sc["kind"], "rows": self.rows_to_lean(sc["kind"], sc["rows"])} for sc in subs]}
            if op == "scale":
                req["shift"], req["scale"] = param_lean(case["shift"]), param_lean(case["scale"])
            else:
                req["stats"], req["ind"] = case["stats"], case["ind"]
            ans = driver.ask(req)
            model = ans["outs"]
            if ans["outs"] != ans["spec"]:
                fails.append(F("C", "generator machine and cursor machine of generator_histories differ on this history", "C:gens-spec"))
            per = {}
            bad = None
            for pos, (o, m) in enumerate(zip(run["outs"], model)):
                if o["t"] != m["t"] or (o["t"] == "raised" and o["err"] != m["err"]):
                    bad = "operation %d (%s %d): implementation %s, model %s" % (pos + 1, hist[pos][0], hist[pos][1], o["t"] + (":" + o["err"] if "err" in o else ""),
                                                                           m["t"] + (":" + m["err"] if "err" in m else ""))
                    break
                if o["t"] == "item":
                    per.setdefault(o["g"], []).append(m["item"])
            if bad is None:
                for n, items in per.items():
                    g = run["gens"][n]
                    kinds = set(x["kind"] for x in items)
                    if len(kinds) != 1:
                        bad = "generator #%d: the model yields contexts of different kinds" % n
                        break
                    sc = subs[g["src"]]
                    d = self.compare_model(sc, {"out": [c for c, _ in g["items"]]},
                                           {"model": {"kind": items[0]["kind"], "rows": [x["row"] for x in items]},
                                            "fits": (ans.get("fits") or [[]] * len(subs))[g["src"]]})
                    if d:
                        bad = "generator #%d (sequence #%d): %s" % (n, g["src"], d[1])
                        break
            if bad:
                fails.append(F("A", "implementation and generator model differ: %s" % bad, "A:%s:gens" % op))
            tags.append("gens:model-checked")
        n_items = sum(1 for o in run["outs"] if o["t"] == "item")
        tags.append("gens:items=%s" % ("0" if n_items == 0 else "<=5" if n_items <= 5 else ">5"))
        return {"fails": fails, "nontrivial": bool(nontrivial and n_items > 1 and len(run["gens"]) > 1), "tags": tags,
                "impl": run["outs"], "model": model}

    def shrink_gens(self, case):
        hist, subs = case["history"], case["seq"]
        for p in range(len(hist) - 1, -1, -1):
            if hist[p][0] != "open":
                yield dict(case, history=hist[:p] + hist[p + 1:])
        for p in range(len(hist) - 1, -1, -1):
            if hist[p][0] == "open":
                g = sum(1 for t, _ in hist[:p] if t == "open")
                if not any(t != "open" and n == g for t, n in hist):
                    yield dict(case, history=hist[:p] + [[t, n - 1 if (t != "open" and n > g) else n] for t, n in hist[p + 1:]])
        if case.get("using") is not None:
            yield dict(case, using=None)
        if case["gmode"] == "envs":
            yield dict(case, gmode="reuse", stats=case["stats"][:1]) if case["op"] == "impute" else dict(case, gmode="reuse")
        cfg = {k: v for k, v in case.items() if k not in GENS_KEYS and k != "pattern"}
        for i, sub in enumerate(subs):
            for c in self.shrink_single(dict(cfg, **sub)):
                if any(c.get(k) != cfg.get(k) for k in cfg):
                    continue
                yield dict(case, seq=subs[:i] + [{k: c[k] for k in ("kind", "rows", "container", "scontainer", "itype") if k in c}] + subs[i + 1:])

    def evaluate_seq(self, case, driver):
        """the same filter object / the same Environments.scale|impute call over several different sequences:
        every sequence is judged against ITS OWN reference and model"""
        subs = sub_cases(case)
        runs = run_seq(case)
        fails, tags = [], ["seq:" + case["mode"], "seq:n=%d" % len(subs), "seq:reads=%d" % len(runs)]
        kinds = sorted(set(sc["kind"] for sc in subs))
        tags.append("seq:kinds=" + "+".join(kinds))
        nontrivial, impls, models = False, [], []
        seq_ans = None
        if driver is not None:
            # (A) against the STATEFUL model: one object / one collection run over all reads (`Obj.run`, `Coll.reads`;
            # theorems filter_stateless / collection_pointwise say this equals the per-sequence function)
            req = {"op": "seq", "seqop": case["op"], "mode": case["mode"], "using": case.get("using"),
                   "read_order": [idx for idx, _ in runs],
                   "seq": [{"kind": sc["kind"], "rows": self.rows_to_lean(sc["kind"], sc["rows"])} for sc in subs]}
            if case["op"] == "scale":
                req["shift"], req["scale"] = param_lean(case["shift"]), param_lean(case["scale"])
            else:
                req["stats"], req["ind"] = case["stats"], case["ind"]
            seq_ans = driver.ask(req)
        for pos, (idx, impl) in enumerate(runs):
            sc = dict(subs[idx], via="env" if case["mode"] == "envs" else "filter")
            m_ans = None
            if seq_ans is not None:
                m_ans = {"model": seq_ans["reads"][pos], "fits": (seq_ans.get("fits") or [None] * len(runs))[pos] or []}
            out = self.evaluate_single(sc, driver, impl=impl, in_seq=True, model_ans=m_ans)
            if pos > 0 and any(f["kind"] in ("A", "B") for f in out["fails"]):
                # does the same sequence pass on a fresh object?  then state was carried over from an earlier sequence
                alone = self.evaluate_single(dict(sc, via="filter"), driver, in_seq=True)
                if not any(f["kind"] in ("A", "B") for f in alone["fails"]):
                    first = [f for f in out["fails"] if f["kind"] in ("A", "B")][0]
                    what = ("sequence #%d (%s, read %d of %d) is handled correctly by a fresh %s but not when the same %s was used on "
                            "other sequences before: %s" % (idx, sc["kind"], pos + 1, len(runs), case["op"],
                                                             "Environments.%s(...) collection" % case["op"] if case["mode"] == "envs" else "filter object",
                                                             first["what"]))
                    out["fails"] = [f for f in out["fails"] if f["kind"] not in ("A", "B")] + \
                                   [F("B", what, "%s-state-carried-between-sequences" % case["op"])]
            for f in out["fails"]:
                fails.append(F(f["kind"], "[read %d = sequence #%d] %s" % (pos + 1, idx, f["what"]), f["sig"]))
            tags += [t for t in out["tags"] if t.startswith(("A-skipped", "raises:", "pinned"))]
            nontrivial = nontrivial or out["nontrivial"]
            impls.append(impl)
            models.append(out.get("model"))
        return {"fails": fails, "nontrivial": bool(nontrivial and len(runs) > 1), "tags": tags, "impl": impls, "model": models}

    def evaluate_single(self, case, driver, impl=None, in_seq=False, model_ans=None):
        fails, tags = [], []
        kind, rows = case["kind"], case["rows"]
        op = case["op"]
        tags.append("op:" + op)
        tags.append("kind:" + kind)
        tags.append("via:" + case.get("via", "filter"))
        for o in case.get("omit", ()):
            tags.append("omitted:" + o)
        tags.append("using:" + ("none" if case.get("using") is None else "1" if case["using"] == 1 else
                               "lt" if case["using"] < len(rows) else "eq" if case["using"] == len(rows) else "gt"))
        if op == "scale":
            tags.append("shift:" + (case["shift"] if isinstance(case["shift"], str) else "number"))
            tags.append("scale:" + (case["scale"] if isinstance(case["scale"], str) else "number"))
        else:
            tags.append("stats:" + "+".join(case["stats"]) + (":ind" if case["ind"] else ""))
        if impl is None:
            impl = run_impl(case)
        if "err" in impl:
            tags.append("raises:" + impl["err"])
        if not rows or rows[0] == "nocontext":
            tags.append("empty" if not rows else "nocontext")
            if "err" in impl:
                fails.append(F("B", "%s raised %s on %s" % (op, impl["err"], "an empty stream" if not rows else "interactions without context"),
                               "%s-raises-%s:%s" % (op, impl["err"], "empty" if not rows else "nocontext")))
            elif impl["n"] != len(rows) or not impl.get("others_ok", True) or any(o != "nocontext" for o in impl["out"]):
                fails.append(F("B", "interactions without a context were changed", "%s-nocontext-changed" % op))
            return {"fails": fails, "nontrivial": False, "tags": tags, "impl": impl, "model": None}
        flat = [v for r in rows for v in (r if kind == "dense" else [x for _, x in r] if kind == "sparse" else [r])]
        if any(v is None for v in flat):
            tags.append("has:none")
        if any(v == NAN for v in flat):
            tags.append("has:nan")
        if any(is_str(v) for v in flat):
            tags.append("has:str")
        if kind == "sparse" and eff_keystyle(case):
            tags.append("keystyle:" + eff_keystyle(case))
        first = rows[0]
        ffirst = first if kind == "dense" else [x for _, x in first] if kind == "sparse" else [first]
        if any(v is None or v == NAN for v in ffirst):
            tags.append("first-row-missing")
        if kind == "sparse" and set(k for k, _ in first) != set(feature_keys(kind, rows)):
            tags.append("sparse:key-absent-from-first")

        outside = None
        if case.get("using") == 0:
            outside = "using=0"
        elif case.get("targets") not in (None, ["context"]):
            outside = "targets=%s" % "+".join(case["targets"])
        if outside:
            tags.append("outside-quantifier:" + outside)
        # (B) the property, evaluated on the implementation's result with exact arithmetic
        ref = Ref(case, kind, rows, impl, "main")
        if outside and "err" in impl and impl["err"] != "CobaException":
            ref.common()          # an exception is reported whatever the configuration
        elif outside:
            if "out" in impl and (impl["n"] != len(rows) or not impl.get("others_ok", True)):
                ref.fail("interactions or fields other than the context changed: %s" % impl.get("others_bad"), "%s-other-field-changed" % op)
        elif ref.common():
            if op == "scale":
                ref.check_scale()
            else:
                ref.check_impute(case["stats"])
        fails += ref.fails
        tags += sorted(ref.tags)
        if impl.get("views_bad"):
            fails.append(F("B", "a result context reads differently by index and by (repeated) iteration after the filter wrote into it: %s"
                           % impl["views_bad"], "%s-context-reads-inconsistently" % op))
        if case.get("clone"):
            tags.append("clone:" + case["clone"])
        if "original" in impl:
            # the run above was made with a COPY (pickle / deepcopy / copy) of the filter or of the whole pipeline; the original,
            # used afterwards, must meet the same reference and keep the same configuration
            orig = impl["original"]
            oref = Ref(case, kind, rows, orig, "original after its %s was used" % case["clone"])
            if not outside and oref.common():
                if op == "scale":
                    oref.check_scale()
                else:
                    oref.check_impute(case["stats"])
            fails += oref.fails
            if orig.get("params") != impl.get("params"):
                fails.append(F("B", "the %s of the %s has another configuration than the original: %s vs %s" % (
                    case["clone"], "Environments pipeline" if case.get("via") == "env" else "filter object", impl.get("params"), orig.get("params")),
                    "%s-copy-changes-configuration" % op))
        if op == "impute" and len(case["stats"]) > 1 and "out" in impl and not in_seq and not outside and not any(f["sig"] == "impute-list-only-last-applied" for f in fails):
            # (B) a list of statistics is applied in order: the same as chaining single-statistic calls (on the implementation itself)
            chain = run_impl(dict(case, chain=True))
            if chain.get("out") != impl["out"]:
                last = run_impl(dict(case, stats=case["stats"][-1:]))
                only_last = last.get("out") == impl["out"]
                fails.append(F("B", "Environments.impute(%s) differs from .impute(%r).impute(%r)%s: %s vs %s" % (
                    case["stats"], case["stats"][0], case["stats"][1], " and equals impute(%r) alone" % case["stats"][-1] if only_last else "",
                    json.dumps(impl["out"])[:150], json.dumps(chain.get("out", chain.get("err")))[:150]),
                    "impute-list-only-last-applied" if only_last else "impute-list-not-sequential"))
        if impl.get("mutated"):
            fails.append(F("A", "the filter changed the interactions it was given (the model works on a copy): contexts before/after differ",
                           "A:input-mutated:%s" % op))
        main_b_failed = any(f["kind"] == "B" for f in fails)
        # (B) agreement of the container kinds: the same table as dense / sparse / scalar contexts must meet the same reference
        for tkind, trows in ([] if (in_seq or outside) else self.twins(case)):
            star = tkind.endswith("*")
            tk = tkind.rstrip("*")
            tcase = dict(case, kind=tk, rows=trows, via="filter")
            tcase.pop("omit", None)        # the twin states every argument explicitly
            for kx in ("clone", "container", "scontainer"):
                tcase.pop(kx, None)
            if op == "impute" and len(case["stats"]) > 1:
                continue
            timpl = run_impl(tcase)
            tref = Ref(tcase, tk, trows, timpl, "twin of " + kind)
            if tref.common():
                if op == "scale":
                    tref.check_scale()
                else:
                    if star and (case["stats"] == ["mode"] or case["ind"]):
                        pass        # zeros of absent keys are counted in a different order / indicators keyed differently
                    else:
                        tref.check_impute(case["stats"])
            fails += tref.fails
            tags += sorted(tref.tags)
            tags.append("twin:" + tk)
        if case.get("agree") and kind == "scalar" and "out" in impl:
            # scale_scalar_dense_agree_iff on the real code: scalar vs one-feature dense differ exactly when the first context is a
            # string and the scalar path moves a number
            dimpl = run_impl(dict(case, kind="dense", rows=[[v] for v in rows], container="tuple"))
            same = "out" in dimpl and [o["v"] for o in impl["out"]] == [o["v"][0] for o in dimpl["out"]]
            moved = any(not Ref.val_eq(o["v"], r) for o, r in zip(impl["out"], rows))
            expect_same = (not is_str(rows[0])) or not moved
            tags.append("agree:mixed-first-string" if is_str(rows[0]) else "agree:number-first")
            tags.append("agree:" + ("same" if same else "differ"))
            if same != expect_same:
                fails.append(F("A", "scalar vs one-feature dense contexts: %s, theorem scale_scalar_dense_agree_iff says %s" % (
                    "same" if same else "differ", "same" if expect_same else "differ"), "A:scale:agree-iff"))
        changed = "out" in impl and self.changed(case, impl)
        nontrivial = ref.demanded > 0 and changed
        if ref.demanded:
            tags.append("pinned")

        # (A) correspondence with the Lean model (skipped when the property itself already fails on this case:
        #     the model mirrors the repaired code, see notes/C11.md)
        model = None
        b_failed = main_b_failed
        if driver is not None:
            omit = set(case.get("omit", ()))
            req = {"op": op, "kind": kind, "rows": self.rows_to_lean(kind, rows), "via": case.get("via", "filter")}
            if "using" not in omit:
                req["using"] = case.get("using")
            if op == "scale":
                if "shift" not in omit:
                    req["shift"] = param_lean(case["shift"])
                if "scale" not in omit:
                    req["scale"] = param_lean(case["scale"])
                if case.get("targets") is not None:
                    req["targets"] = list(case["targets"])
            else:
                req["via"] = "env"       # one Impute filter per statistic either way
                if "stats" not in omit:
                    req["stats"] = case["stats"]
                if "ind" not in omit:
                    req["ind"] = case["ind"]
            skip = None
            if op == "impute" and len(case["stats"]) > 1 and not lists_applied_in_order():
                b_failed = True      # (A) is meaningless while only the last statistic is applied (reported via C11-F11's case)
                tags.append("A-skipped:lists-not-sequential")
            if op == "impute" and len(case["stats"]) > 1 and ((case["ind"] and not indicator_without_imputation()) or
                                                               (any(v == NAN for v in flat) and not nan_is_missing())):
                # the reference of a later pass can be unpinned (mode ties, mixed columns), so an open finding of an earlier
                # pass may go unseen by (B) on this case; the findings themselves are reported through their own cases
                b_failed = True
                tags.append("A-skipped:F13/F14-open-multipass")
            if op == "impute" and kind == "sparse" and not unseen_sparse_key_imputed():
                wkeys = set(k for r in window_rows(case, rows) for k, _ in r)
                if any(is_missing(v) and k not in wkeys for r in rows for k, v in r):
                    b_failed = True  # open finding C11-F10 (reported through its own case): the model imputes such a cell
                    tags.append("A-skipped:F10-open")
            if skip:
                tags.append("A-skipped")
            else:
                ans = model_ans if model_ans is not None else driver.ask(req)
                model = ans["model"]
                d = None if b_failed else self.compare_model(case, impl, ans)
                if model_ans is None and "params" in impl and "cfgs" in ans:
                    pd = self.compare_params(case, impl["params"], ans["cfgs"])
                    if pd:
                        fails.append(F("A", "the configuration the call produced (params) differs from the arguments as the model maps them: %s" % pd,
                                       "A:%s:params" % op))
                    tags.append("params-checked")
                if main_b_failed:
                    tags.append("A-skipped:B-failed")
                if d:
                    fails.append(F("A", "implementation and model differ: %s" % d[1], "A:%s:%s:%s" % (op, kind, d[0])))
                if op == "scale" and case["scale"] == "std":
                    fails += self.check_variance(case, driver, tags)
                if op == "scale" and model_ans is None and "fites" in ans:
                    fails += self.check_fit_exceptions(case, ans["fites"], tags)
                # (C) the model itself against the exact reference (run-time guard of the theorems' plumbing); the two
                #     recorded sparse-key-outside-window deviations are the `_partial` hypotheses and are not demanded
                if "err" not in model and not outside:
                    mimpl = {"n": len(model["rows"]), "others_ok": True, "out": [self.model_row(model["kind"], r) for r in model["rows"]]}
                    cref = Ref(case, kind, rows, mimpl, "model")
                    if cref.common():
                        if op == "scale":
                            cref.check_scale()
                        else:
                            cref.check_impute(case["stats"])
                    for f in cref.fails:
                        fails.append(F("C", "the Lean model does not meet the reference: %s" % f["what"], "C:" + f["sig"]))
        return {"fails": fails, "nontrivial": bool(nontrivial), "tags": tags, "impl": impl, "model": model}

    def compare_params(self, case, params, cfgs):
        """`.params` of the real filter / environment pipeline against the model's filter configurations"""
        n = len(cfgs)
        for i, c in enumerate(cfgs):
            suf = "" if n == 1 else str(i + 1)
            if case["op"] == "scale":
                want = {"shift" + suf: c["shift"], "scale" + suf: c["scale"], "scale_using" + suf: c["using"]}
            else:
                want = {"impute_stat" + suf: c["stat"], "impute_indicator" + suf: c["ind"], "impute_using" + suf: c["using"]}
            for k, w in want.items():
                if k not in params:
                    return "parameter %r missing (params %s)" % (k, params)
                g = params[k]
                if g == "med":
                    g = "median"
                if isinstance(w, list):                       # a rational
                    if not (is_num(g) and fr(g) == Fraction(w[0], w[1])):
                        return "%s = %s, arguments give %s" % (k, show(g) if isinstance(g, dict) else g, Fraction(w[0], w[1]))
                elif isinstance(w, bool) or w is None or isinstance(w, str):
                    gg = g
                    if is_num(g) and isinstance(w, bool):
                        gg = bool(fr(g))
                    if gg != w:
                        return "%s = %r, arguments give %r" % (k, g, w)
                else:                                           # using: a natural number
                    if not (is_num(g) and fr(g) == w):
                        return "%s = %r, arguments give %r" % (k, g, w)
        extra = [k for k in params if k.startswith(("shift", "scale", "impute_"))]
        if len(extra) != 3 * n:
            return "%d filter parameters, the arguments give %d filters" % (len(extra), n)
        return None

    def check_fit_exceptions(self, case, fites, tags):
        """(A) exception VALUES: what the `try` body of the real _get_shift_and_scale raises on every window column (class of
        the exception, or ok) against the model's `fitE`"""
        out = []
        cols = window_columns_py(case)
        if len(cols) != len(fites):
            return [F("A", "fitE: %d window columns, model %d" % (len(cols), len(fites)), "A:scale:fitE:columns")]
        for (k, wcol), fe in zip(cols, fites):
            m = fe[1] if isinstance(fe, list) else fe
            got = fit_exception_impl(case, wcol)
            if got is None:
                return out
            tags.append("fitE:" + got)
            if any(isinstance(v, str) for v in wcol) and got != "ok":
                tags.append("fitE:string-window-" + got)
            if got != m:
                out.append(F("A", "window column %r = %r under shift=%s scale=%s: the statistics raise %s, the model's fitE says %s"
                             % (k, wcol, show(case["shift"]) if not isinstance(case["shift"], str) else case["shift"],
                                show(case["scale"]) if not isinstance(case["scale"], str) else case["scale"], got, m),
                             "A:scale:fitE:%s-vs-%s" % (got, m)))
                break
        return out

    def check_variance(self, case, driver, tags):
        """`std`: the model's exact sample variance = statistics.variance (the function coba's stdev is the root of), and
        the real stdev is a square root of it within 1e-12 (hypothesis `SqrtWithin` of theorem std_scale_within)"""
        out = []
        kind, rows = case["kind"], case["rows"]
        win = window_rows(case, rows)
        for k in feature_keys(kind, rows)[:2]:
            wcol = [(V(0) if v is ABSENT else v) for v in column(kind, win, k)]
            if any(is_str(v) for v in wcol):
                continue
            xs = [fr(v) for v in wcol if is_num(v)]
            if len(xs) < 2:
                continue
            ans = driver.ask({"op": "variance", "xs": [[x.numerator, x.denominator] for x in xs]})
            mv = Fraction(ans["variance"][0], ans["variance"][1])
            pv = statistics.variance(xs)
            tags.append("variance-checked")
            if mv != pv:
                out.append(F("A", "sample variance of %s: statistics.variance %s, model %s" % (xs, pv, mv), "A:variance"))
            sd = statistics.stdev([to_py(v) for v in wcol if is_num(v)])
            if pv > 0 and abs(Fraction(sd) ** 2 / pv - 1) > Fraction(1, 10 ** 12):
                out.append(F("A", "statistics.stdev(%s)=%r is not the square root of the sample variance %s" % (xs, sd, pv), "A:stdev-not-sqrt"))
            # phase 4: the routine stdev calls (statistics._float_sqrt_of_frac) against the model's pySqrtFrac / pySd
            fs = getattr(statistics, "_float_sqrt_of_frac", None)
            if fs is not None and "pysqrt" in ans and pv > 0:
                num, den = ans["pysqrt"]
                tags.append("pysqrt-checked")
                if fs(pv.numerator, pv.denominator) != num / den:
                    out.append(F("A", "statistics._float_sqrt_of_frac(%d,%d)=%r, model pySqrtFrac gives %d/%d" % (pv.numerator, pv.denominator, fs(pv.numerator, pv.denominator), num, den), "A:pysqrt"))
                if sd != num / den:
                    out.append(F("A", "statistics.stdev(%s)=%r, model pySd gives %d/%d" % (xs, sd, num, den), "A:pysd"))
                for n2, m2 in ((pv.numerator << 131, pv.denominator), (pv.numerator, pv.denominator << 131), (pv.numerator * 3 << 112, pv.denominator * 5)):
                    a2 = driver.ask({"op": "pysqrt", "n": n2, "m": m2})
                    if fs(n2, m2) != a2["num"] / a2["den"]:
                        out.append(F("A", "statistics._float_sqrt_of_frac(%d,%d)=%r, model %d/%d" % (n2, m2, fs(n2, m2), a2["num"], a2["den"]), "A:pysqrt:shifted"))
                r = Fraction(math.isqrt(pv.numerator), math.isqrt(pv.denominator))
                sh = ans.get("shift", 0)
                if r * r == pv and not (sh < 0 and (r.numerator * 2 ** (-sh)) % r.denominator == 0):
                    tags.append("sqrt:square-outside-hypothesis")     # e.g. (8/3)^2: r is no float, the theorem does not apply
                elif r * r == pv:
                    # SqrtExact (hypothesis of fit_eq_spec_q, proved for pySd by sqrt_exact_perfect_square): the real stdev is exact here
                    tags.append("sqrt:perfect-square")
                    psd = Fraction(ans["pysd"][0], ans["pysd"][1])
                    if psd != r:
                        out.append(F("C", "variance %s = (%s)^2 but the model's pySd is %s" % (pv, r, psd), "C:sqrt-exact"))
                    if Fraction(sd) != r:
                        out.append(F("A", "variance %s = (%s)^2 but statistics.stdev returns %r" % (pv, r, sd), "A:sqrt-exact"))
        return out

    def changed(self, case, impl):
        kind = case["kind"]
        for r, o in zip(case["rows"], impl["out"]):
            if o == "nocontext":
                continue
            if kind == "dense":
                if o["kind"] != "dense" or len(o["v"]) != len(r) or any(not Ref.val_eq(a, b) for a, b in zip(o["v"], r)):
                    return True
            elif kind == "sparse":
                if o["kind"] != "sparse" or len(o["v"]) != len(r):
                    return True
                d = dict((k, v) for k, v in r)
                if any(k not in d or not Ref.val_eq(v, d[k]) for k, v in o["v"]):
                    return True
            else:
                if o["kind"] != "scalar" or not Ref.val_eq(o["v"], r):
                    return True
        return False

    @staticmethod
    def model_row(kind, r):
        if kind == "dense":
            return {"kind": "dense", "v": [from_lean(v) for v in r]}
        if kind == "sparse":
            return {"kind": "sparse", "v": sorted(([k, from_lean(v)] for k, v in r), key=lambda kv: kv[0])}
        return {"kind": "scalar", "v": from_lean(r)}

    def rows_to_lean(self, kind, rows):
        if kind == "dense":
            return [[to_lean(v) for v in r] for r in rows]
        if kind == "sparse":
            return [[[k, to_lean(v)] for k, v in r] for r in rows]
        return [to_lean(v) for v in rows]

    def compare_model(self, case, impl, ans):
        model = ans["model"]
        if "err" in impl or "err" in model:
            if impl.get("err") != model.get("err"):
                return ("exception", "implementation %s, model %s" % (impl.get("err", "returned"), model.get("err", "returned")))
            return None
        mrows = model["rows"]
        if len(mrows) != len(impl["out"]):
            return ("rows", "%d rows vs %d" % (len(impl["out"]), len(mrows)))
        hint = 1.0
        if case["op"] == "scale":
            mx = 1.0
            for r in case["rows"]:
                for v in (r if case["kind"] == "dense" else [x for _, x in r] if case["kind"] == "sparse" else [r]):
                    if is_num(v):
                        mx = max(mx, abs(float(fr(v))))
            for ft in ans.get("fits", []):
                p = ft[1] if (isinstance(ft, list) and len(ft) == 2 and isinstance(ft[0], str)) else ft
                if p:
                    s, f = Fraction(p[0][0], p[0][1]), Fraction(p[1][0], p[1][1])
                    hint = max(hint, (mx + abs(float(s))) * abs(float(f)))
        for i, (o, m) in enumerate(zip(impl["out"], mrows)):
            if o["kind"] != model["kind"]:
                return ("kind", "row %d: implementation %s, model %s" % (i, o["kind"], model["kind"]))
            if o["kind"] == "scalar":
                if not self.veq(o["v"], from_lean(m), hint):
                    return ("value", "row %d: implementation %s, model %s" % (i, show(o["v"]), show(from_lean(m))))
            elif o["kind"] == "dense":
                if len(o["v"]) != len(m):
                    return ("shape", "row %d: implementation has %d features, model %d" % (i, len(o["v"]), len(m)))
                for k, (a, b) in enumerate(zip(o["v"], m)):
                    if not self.veq(a, from_lean(b), hint):
                        return ("value", "row %d feature %d: implementation %s, model %s" % (i, k, show(a), show(from_lean(b))))
            else:
                mm = sorted(([k, from_lean(v)] for k, v in m), key=lambda kv: kv[0])
                if [k for k, _ in o["v"]] != [k for k, _ in mm]:
                    return ("shape", "row %d: implementation keys %s, model keys %s" % (i, [k for k, _ in o["v"]], [k for k, _ in mm]))
                for (k, a), (_, b) in zip(o["v"], mm):
                    if not self.veq(a, b, hint):
                        return ("value", "row %d key %r: implementation %s, model %s" % (i, k, show(a), show(b)))
        return None

    @staticmethod
    def veq(a, b, hint):
        if is_num(a) and is_num(b):
            return close(fr(a), fr(b), hint)
        return a == b

    # ---- shrinking
    def shrink(self, case):
        if case.get("mode") == "gens":
            yield from self.shrink_gens(case)
            return
        if "seq" in case:
            yield from self.shrink_seq(case)
            return
        if case.get("op") == "stats":
            for i in range(len(case["col"])):
                yield dict(case, col=case["col"][:i] + case["col"][i + 1:])
            return
        yield from self.shrink_single(case)

    def shrink_seq(self, case):
        subs, order = case["seq"], case.get("read_order") or list(range(len(case["seq"])))
        if len(order) > 1:
            for p in range(len(order) - 1, -1, -1):
                yield dict(case, read_order=order[:p] + order[p + 1:])
        for i in range(len(subs) - 1, -1, -1):
            if len(subs) > 1 and i not in order:
                yield dict(case, seq=subs[:i] + subs[i + 1:], read_order=[o - 1 if o > i else o for o in order])
        if case.get("using") is not None:
            yield dict(case, using=None)
        if case["mode"] == "envs":
            yield dict(case, mode="reuse", stats=case["stats"][:1]) if case["op"] == "impute" else dict(case, mode="reuse")
        cfg = {k: v for k, v in case.items() if k not in ("seq", "mode", "read_order")}
        for i, sub in enumerate(subs):
            for c in self.shrink_single(dict(cfg, **sub)):
                if any(c.get(k) != cfg.get(k) for k in cfg):
                    continue          # only the table is shrunk here
                yield dict(case, seq=subs[:i] + [{k: c[k] for k in ("kind", "rows", "container", "scontainer", "itype") if k in c}] + subs[i + 1:])

    def shrink_single(self, case):
        rows = case["rows"]
        if case.get("keystyle"):
            yield {k: v for k, v in case.items() if k != "keystyle"}      # does it fail with plain string keys too?
        kind = case["kind"]
        n = len(rows)
        for i in range(n - 1, -1, -1):
            if n > 1:
                c = dict(case, rows=rows[:i] + rows[i + 1:])
                yield c
        if case.get("using") is not None:
            yield dict(case, using=None)
            if case["using"] > 1:
                yield dict(case, using=case["using"] - 1)
        if case.get("via") == "env" and (case["op"] == "scale" or len(case["stats"]) == 1):
            yield dict(case, via="filter")
        if case.get("itype") != "sim":
            yield dict(case, itype="sim")
        if kind == "dense" and rows and rows[0] != "nocontext" and len(rows[0]) > 1:
            for j in range(len(rows[0])):
                yield dict(case, rows=[r[:j] + r[j + 1:] for r in rows])
        if kind == "sparse":
            for k in feature_keys(kind, rows):
                yield dict(case, rows=[[kv for kv in r if kv[0] != k] for r in rows])
        if case["op"] == "impute" and len(case["stats"]) > 1:
            yield dict(case, stats=case["stats"][:1])
            yield dict(case, stats=case["stats"][1:])
        # simplify values
        def simp(v):
            if is_num(v) and (v["q"][1] != 1 or abs(v["q"][0]) > 3):
                return V(int(fr(v)) % 4)
            return None
        if rows and rows[0] != "nocontext":
            for i, r in enumerate(rows):
                cells = list(enumerate(r)) if kind == "dense" else [(j, kv[1]) for j, kv in enumerate(r)] if kind == "sparse" else [(None, r)]
                for j, v in cells:
                    s = simp(v)
                    if s is None:
                        continue
                    if kind == "dense":
                        nr = r[:j] + [s] + r[j + 1:]
                    elif kind == "sparse":
                        nr = r[:j] + [[r[j][0], s]] + r[j + 1:]
                    else:
                        nr = s
                    yield dict(case, rows=rows[:i] + [nr] + rows[i + 1:])

    def snippet(self, case):
        if case.get("op") == "stats":
            return ("import sys, os, json; sys.path[:0] = [os.environ.get('COBA_REPO', '/repo'), '/verif/harness']\n"
                    "from props.c11 import stats_impl, to_py\n"
                    "case = json.loads(%r)\n"
                    "print('column (non-missing values):', [to_py(v) for v in case['col'] if v is not None and v != 'nan'])\n"
                    "print('coba.statistics.iqr / percentile([.25,.75]) / statistics.median / mode:', stats_impl(case['col']))\n" % json.dumps(case))
        if case.get("mode") == "gens":
            return ("import sys, os, json; sys.path[:0] = [os.environ.get('COBA_REPO', '/repo'), '/verif/harness']\n"
                    "from props.c11 import run_gens, gens_subs, make_interactions\n"
                    "case = json.loads(%r)\n"
                    "# gmode 'reuse': ONE Scale/Impute object, open i = obj.filter(sequence i); 'envs': Environments([..]).scale/impute, open i = envs[i].read()\n"
                    "# history: open i / next g / close g (generators numbered in order of creation); nothing is drained unless the history says so\n"
                    "for i, sc in enumerate(gens_subs(case)): print('sequence', i, [x.get('context') for x in make_interactions(sc)])\n"
                    "r = run_gens(case)\n"
                    "for op, o in zip(case['history'], r['outs']): print(op, '->', o['t'], r['gens'][o['g']]['items'][o['j']][0] if o['t'] == 'item' else o.get('err', ''))\n" % json.dumps(case))
        if "seq" in case:
            return ("import sys, os, json; sys.path[:0] = [os.environ.get('COBA_REPO', '/repo'), '/verif/harness']\n"
                    "from props.c11 import run_seq, sub_cases, make_interactions\n"
                    "case = json.loads(%r)\n"
                    "# mode 'reuse': ONE Scale/Impute object filters the sequences in read_order; 'envs': Environments([..]).scale/impute\n"
                    "for i, sc in enumerate(sub_cases(case)): print('sequence', i, [x.get('context') for x in make_interactions(sc)])\n"
                    "for idx, res in run_seq(case): print('read of sequence', idx, '->', res)\n" % json.dumps(case))
        return ("import sys, os, json; sys.path[:0] = [os.environ.get('COBA_REPO', '/repo'), '/verif/harness']\n"
                "from props.c11 import run_impl, make_interactions\n"
                "case = json.loads(%r)\n"
                "print('contexts in :', [i.get('context') for i in make_interactions(case)])\n"
                "print('result      :', run_impl(case))\n" % json.dumps(case))


PROPERTY = C11()
