"""C18 Analysis compares only complete, equal-length runs and averages correctly.

Cases
  kind "ma"  : moving_average(values, span, weights) called directly
  kind "res" : a Result built with the public constructor Result(env_rows, lrn_rows, val_rows, int_rows)
               followed by a chain of steps (where_fin / where / where_best / raw_learners).
Every step is checked on its own, from the state the REAL code was in before the step:
  (A) the Lean model (CobaVerif.Model.C18, run by drv_c18) is given that state and must produce what the real
      code produced;
  (B) the property itself is evaluated by a direct, naive computation in this file (`spec_*`), which shares
      nothing with the Lean model.
"""
import json
import os
from collections import OrderedDict
from fractions import Fraction

from core.engine import Property, F

ID_COLS = {"environment_id": "eid", "learner_id": "lid", "evaluator_id": "vid"}
P15_SIG = "fin:group-with-duplicate-level-masking-missing-level-kept"
F2_SIG = "grouping-by-sorted-adjacency-misgroups-partially-ordered-values"
F3_SIG = "fin:length-drop-after-pairing-leaves-incomplete-group"
F4_SIG = "best:grouping-by-sorted-adjacency-splits-cells-of-partially-ordered-values"
F5_SIG = "ma:sliding-window-stays-nan-after-a-non-finite-value"
NAN, INF = float("nan"), float("inf")


def nonfinite(y):
    return isinstance(y, float) and (y != y or y in (INF, -INF))


def nf_mean(w, before=()):
    """mean of the window `w` with IEEE semantics for nan/+inf (exact Fraction otherwise).
    `before` (only for classifying C18-F5): the values that left the window — a prefix-sum implementation still carries them"""
    if any(isinstance(y, float) and y != y for y in list(w) + list(before)):
        return NAN
    if any(y == INF for y in before):
        return NAN                              # inf - inf
    if any(y == INF for y in w):
        return INF
    w = [Fraction(y) for y in w]
    return Fraction(sum(w), len(w))


# ----------------------------------------------------------------------------- values
def dv(j):
    """decode a JSON-encoded parameter value"""
    if isinstance(j, dict):
        if "t" in j:
            return tuple(dv(x) for x in j["t"])
        if "f" in j:
            return float(j["f"])
        if "fs" in j:
            return frozenset(dv(x) for x in j["fs"])
    return j


def ev(v):
    """encode a parameter value as JSON"""
    if isinstance(v, tuple):
        return {"t": [ev(x) for x in v]}
    if isinstance(v, frozenset):
        return {"fs": sorted((ev(x) for x in v), key=repr)}
    if isinstance(v, float):
        return {"f": repr(v)}
    if v is None or isinstance(v, (bool, int, str)):
        return v
    return {"repr": repr(v)}


def q(x):
    fr = Fraction(x)
    return [fr.numerator, fr.denominator]


def unq(p):
    return Fraction(p[0], p[1])


def aslist(x):
    return list(x) if isinstance(x, (list, tuple)) else [x]


# ----------------------------------------------------------------------------- real code
def build_result(case):
    from coba.results.core import Result
    envs = [["environment_id"] + list(case["env_cols"])] + [[dv(x) for x in r] for r in case["envs"]]
    lrns = [["learner_id"] + list(case["lrn_cols"])] + [[dv(x) for x in r] for r in case["lrns"]]
    vals = [["evaluator_id"] + list(case["val_cols"])] + [[dv(x) for x in r] for r in case["vals"]]
    hdr = ["environment_id", "learner_id", "evaluator_id", "index", "reward"] + (["z"] if case.get("extra") else [])
    ints = [hdr]
    for e, l, v, ys in case["evals"]:
        for i, y in enumerate(ys, 1):
            ints.append([e, l, v, i, reward(case, y)] + ([100 * e + 10 * l + v + 1000 * i] if case.get("extra") else []))
    if case.get("rev"):
        ints[1:] = ints[:0:-1]          # rows handed over in reverse order: Result.__init__ has to index them
    return Result(envs, lrns, vals, ints)


def reward(case, y):
    """rewards are generated as small ints; `rk` turns them into 0/1 ints, bools or dyadic floats"""
    rk = case.get("rk")
    if rk == "bin":
        return y % 2
    if rk == "bool":
        return bool(y % 2)
    if rk == "dyadic":
        return y / 4
    if rk == "nf":                       # a diverged learner: now and then a NaN or +inf reward
        return NAN if y == 9 else (INF if y == -3 else y)
    if rk == "lit":                      # round h: the y column as written (ints, floats {"f": repr}, bools mixed)
        return dv(y)
    return y


def snap(res):
    """the four tables as plain python: (columns, rows)"""
    out = {}
    for name, t in (("env", res.environments), ("lrn", res.learners), ("val", res.evaluators), ("int", res.interactions)):
        out[name] = (list(t.columns), [tuple(r) for r in t])
    return out


def snap_json(s):
    return {k: [c, [[ev(x) for x in r] for r in rows]] for k, (c, rows) in s.items()}


def apply_step(res, st):
    """returns (new_result_or_None, output)"""
    op = st["op"]
    if op == "noise":
        # public API calls that only READ the Result object; the object is used again by the later steps
        w = st["what"]
        if w == "from_result":
            from coba.environments import Environments
            envs = Environments.from_result(res)
            [e.params for e in envs]
        elif w == "copy":
            c = res.copy()
            c.where_fin("min", "learner_id", "environment_id")
        elif w == "where_discard":
            res.where(learner_id=[r[0] for r in res.learners][:1])
            res.where(environment_id=[r[0] for r in res.environments][-1:])
        elif w == "fin_discard":
            res.where_fin("min", "learner_id", "environment_id")
            res.where_fin(1, ["learner_id", "evaluator_id"], "environment_id")
        elif w == "raw_discard":
            try:
                res.raw_learners(x="index", y="reward", l="learner_id", p=None)
            except Exception:  # noqa
                pass
        elif w == "accessors":
            list(res.interactions.to_dicts()); list(res.learners); str(res); res.interactions.copy()
            list(res.interactions.groupby(3, "count")); res.interactions["index"]; res == res.copy()
        return None, "noise"
    if st.get("as_tuple"):
        st = dict(st, **{k: tuple(st[k]) for k in ("l", "p", "x") if isinstance(st.get(k), list)})
    if op == "where_fin":
        l, p = st.get("l"), st.get("p")
        out = res.where_fin(st.get("n"), l, p) if not st.get("use_filter_fin") else res.filter_fin(st.get("n"), l, p)
        return out, None
    if op == "where":
        kw = {k: (dv(v) if not isinstance(v, list) else [dv(x) for x in v]) for k, v in st["kw"]}
        return res.where(**kw), None
    if op == "where_best":
        kw = {}
        if "full_l" in st:
            kw["full_l"] = st["full_l"]
        if "full_p" in st:
            kw["full_p"] = st["full_p"]
        return res.where_best(l=st["l"], p=st["p"], n=st.get("n"), **kw), None
    if op == "raw_contrast":
        a, b = contrast_labels(st)
        islist = isinstance(st["l"], (list, tuple))
        l1 = [(v if islist else v[0]) for v in a] if st.get("multi") else (a[0] if islist else a[0][0])
        l2 = [(v if islist else v[0]) for v in b] if st.get("multi") else (b[0] if islist else b[0][0])
        if st.get("plot"):
            LAST_PLOT[:] = [run_plot_contrast(res, l1, l2, st)]
        kw = dict(x=st["x"], y="reward", l=st["l"], p=st["p"], span=st.get("span"))
        for k in st.get("omit", ()):        # phase 5: arguments left to their defaults (the step records the documented default values)
            kw.pop(k, None)
        t = res.raw_contrast(l1, l2, **kw)
        return None, t
    if op == "raw_learners":
        kw = dict(x=st["x"], y=st.get("y", "reward"), l=st["l"], p=st.get("p"), span=st.get("span"))
        for k in st.get("omit", ()):
            kw.pop(k, None)
        t = res.raw_learners(**kw)
        return None, t
    raise RuntimeError("bad op " + op)


LAST_PLOT = []


class RangeCI:
    """an all-rational PointAndInterval object (coba accepts any object with point / point_interval): point = mean,
    error sizes = distance of the mean to the smallest / largest value (mirrored by `rangeCi` in the Lean model)"""

    def point(self, Z):
        return float(sum(Fraction(z) for z in Z) / len(Z))

    def point_interval(self, Z):
        m = sum(Fraction(z) for z in Z) / len(Z)
        return (float(m), (float(m - min(Fraction(z) for z in Z)), float(max(Fraction(z) for z in Z) - m)))


def run_plot_contrast(res, l1, l2, st):
    """calls the real `plot_contrast` with a recording plotter (coba's own `set_plotter` hook) -> what was handed to the plotter"""
    from coba.results.core import Plotter
    pl = st["plot"]
    calls = []

    class Rec(Plotter):
        def plot(self, ax, lines, title, xlabel, ylabel, xlim, ylim, xticks, yticks, legend, xrotation, yrotation, xorder, out):
            calls.append({"lines": [{"X": list(ln.X), "Y": list(ln.Y), "YE": (None if ln.YE is None else list(ln.YE)), "label": ln.label,
                                     "style": ln.style, "color": ln.color} for ln in lines],
                          "title": title, "xorder": (None if xorder is None else list(xorder))})
    old = res._plotter
    res.set_plotter(Rec())
    try:
        err = pl.get("err")
        res.plot_contrast(l1, l2, x=st["x"], y="reward", l=st["l"], p=st["p"], mode=pl["mode"], span=st.get("span"),
                          err=(RangeCI() if err == "range" else err), errevery=pl.get("errevery"), boundary=pl.get("boundary", True), out=None)
        return {"calls": calls}
    except Exception as e:  # noqa
        return {"calls": calls, "err": type(e).__name__, "errmsg": str(e)[:200]}
    finally:
        res._plotter = old


def run_case(case):
    """runs the chain on the real code; returns list of per-step records"""
    from coba.context import CobaContext, NullLogger
    from coba.results.core import moving_average
    old = CobaContext.logger
    CobaContext.logger = NullLogger()
    try:
        if case["kind"] == "ma":
            vs = [tofl(p) for p in case["vs"]]
            w = case.get("w")
            if isinstance(w, list):
                w = [tofl(p) for p in w]
            try:
                return [{"ok": [x for x in moving_average(vs, case.get("span"), w)]}]
            except Exception as e:  # noqa
                return [{"err": type(e).__name__}]
        res = base = build_result(case)
        recs = []
        for st in case["steps"]:
            if st.get("fresh"):
                res = base              # this step starts again from the freshly built Result
            pre = snap(res)
            names = {r[list(pre["lrn"][0]).index("learner_id")]: res._lrn_cache.get(r[list(pre["lrn"][0]).index("learner_id")], {}).get("full_name")
                     for r in pre["lrn"][1]}
            rec = {"pre": pre, "full_names": names}
            try:
                new, out = apply_step(res, st)
                if new is not None:
                    rec["post"] = snap(new)
                    res = new
                elif out == "noise":
                    rec["after"] = snap(res)
                else:
                    rec["table"] = (list(out.columns), [list(out[c]) for c in out.columns])
            except Exception as e:  # noqa
                rec["err"] = type(e).__name__
                rec["errmsg"] = str(e)[:200]
            if st.get("plot") and LAST_PLOT:
                rec["plot"] = LAST_PLOT.pop()
            recs.append(rec)
        return recs
    finally:
        CobaContext.logger = old


INT_HDR = ["environment_id", "learner_id", "evaluator_id", "index", "reward"]


def inc_rows(case, ev_):
    e, l, v, ys = ev_
    return [[e, l, v, i, reward(case, y)] + ([100 * e + 10 * l + v + 1000 * i] if case.get("extra") else []) for i, y in enumerate(ys, 1)]


def inc_look(obj, what, is_table):
    """read-only uses between two inserts (they make the table compute / cache whatever it caches)"""
    t = obj if is_table else obj.interactions
    if what == "table_where":
        ids = list(t["environment_id"])
        if ids:
            len(t.where(environment_id=ids[0]))
    elif what == "table_groupby":
        list(t.groupby(3, "count"))
    elif what == "table_groupby1":
        list(t.groupby(1, "count"))
    elif is_table:
        list(t)
    elif what == "where":
        obj.where(learner_id=[r[0] for r in obj.learners][:1])
    elif what == "fin":
        obj.where_fin(None, "learner_id", "environment_id")
    elif what == "fin_min":
        obj.where_fin("min", "learner_id", "environment_id")
    elif what == "raw":
        try:
            obj.raw_learners(x="index", y="reward", l="learner_id", p=None)
        except Exception:  # noqa
            pass
    elif what == "raw_p":
        try:
            obj.raw_learners(x="environment_id", y="reward", l="learner_id", p="environment_id")
        except Exception:  # noqa
            pass
    elif what == "copy":
        obj.copy().where_fin("min", "learner_id", "environment_id")


def run_inc(case):
    """kind 'inc': the Result (or its interaction Table) is built INCREMENTALLY — batches of evaluations inserted with
    Table.insert, read-only analysis calls in between — and then analysed; the same analysis runs on the Result built in
    one go from all rows.  -> (records of the incremental object, records of the one-shot object)"""
    from coba.context import CobaContext, NullLogger
    from coba.results.core import Result, Table
    old = CobaContext.logger
    CobaContext.logger = NullLogger()
    try:
        hdr = INT_HDR + (["z"] if case.get("extra") else [])
        envs = [["environment_id"] + list(case["env_cols"])] + [[dv(x) for x in r] for r in case["envs"]]
        lrns = [["learner_id"] + list(case["lrn_cols"])] + [[dv(x) for x in r] for r in case["lrns"]]
        vals = [["evaluator_id"] + list(case["val_cols"])] + [[dv(x) for x in r] for r in case["vals"]]
        evs = case["evals"]

        def packed(rows):
            return ({h: [r[j] for r in rows] for j, h in enumerate(hdr)} if case.get("as_dict", True) else [list(r) for r in rows])
        obj, is_table, err = None, case["style"] == "table", None
        try:
            if is_table:
                obj = Table(columns=hdr)
                obj.index("environment_id", "learner_id", "evaluator_id", "index")
            for op in case["sched"]:
                if "ins" in op:
                    rows = [r for k in op["ins"] for r in inc_rows(case, evs[k])]
                    if obj is None:
                        obj = Result(envs, lrns, vals, [hdr] + rows)
                    elif rows:
                        (obj if is_table else obj.interactions).insert(packed(rows))
                elif obj is not None:
                    inc_look(obj, op["look"], is_table)
            if obj is None:
                obj = Result(envs, lrns, vals, [hdr])
            res_i = Result(envs, lrns, vals, obj) if is_table else obj
        except Exception as e:  # noqa
            err = "%s: %s" % (type(e).__name__, str(e)[:200])
            res_i = None
        used = [k for op in case["sched"] if "ins" in op for k in op["ins"]]
        res_o = Result(envs, lrns, vals, [hdr] + [r for k in sorted(used) for r in inc_rows(case, evs[k])])

        def analyse(res):
            out = [{"tables": snap_json(snap(res))}]
            for st in case["final"]:
                rec = {}
                try:
                    new, t = apply_step(res, st)
                    if new is not None:
                        rec["post"] = snap_json(snap(new))
                    else:
                        rec["table"] = json.loads(json.dumps((list(t.columns), [list(t[c]) for c in t.columns]), default=str))
                except Exception as e:  # noqa
                    rec["err"] = type(e).__name__
                if st.get("plot") and LAST_PLOT:
                    rec["plot"] = json.loads(json.dumps(LAST_PLOT.pop(), default=str))
                out.append(rec)
            return out
        return (None if res_i is None else analyse(res_i)), analyse(res_o), err
    finally:
        CobaContext.logger = old


def pyval(v):
    """a parameter value / x label as the Lean model's `PyVal` (None when the class is not modelled: tuples, NaN, …)"""
    if v is None:
        return ["none"]
    if isinstance(v, (bool, int)) or (isinstance(v, float) and v == v and v not in (INF, -INF)):
        return ["num", q(Fraction(v))]
    if isinstance(v, str):
        return ["str", [ord(ch) for ch in v]]
    if isinstance(v, frozenset) and all(isinstance(u, int) and not isinstance(u, bool) and u >= 0 for u in v):
        return ["fset", sorted(v)]
    return None


def tofl(p):
    """[num,den] -> int or float (exact: generated values are small dyadics); "nan" / "inf" -> that float"""
    if isinstance(p, str):
        return float(p)
    return p[0] if p[1] == 1 else p[0] / p[1]


def contrast_labels(st):
    """-> (labels of side 1, labels of side 2), each label a list of values (one per column of l)"""
    islist = isinstance(st["l"], (list, tuple))

    def one(v):
        return [dv(u) for u in v] if islist else [dv(v)]
    if st.get("multi"):
        return [one(v) for v in st["l1"]], [one(v) for v in st["l2"]]
    return [one(st["l1"])], [one(st["l2"])]


# ----------------------------------------------------------------------------- naive specification (B)
class Direct:
    """direct computations on a snapshot; independent of the Lean model"""

    def __init__(self, pre, y="reward"):
        self.pre = pre
        self.ecols, self.erows = pre["env"]
        self.lcols, self.lrows = pre["lrn"]
        self.vcols, self.vrows = pre["val"]
        self.icols, self.irows = pre["int"]
        self.E = {r[self.ecols.index("environment_id")]: dict(zip(self.ecols, r)) for r in self.erows}
        self.L = {r[self.lcols.index("learner_id")]: dict(zip(self.lcols, r)) for r in self.lrows}
        self.V = {r[self.vcols.index("evaluator_id")]: dict(zip(self.vcols, r)) for r in self.vrows}
        ie, il, iv, ii = (self.icols.index(c) for c in ("environment_id", "learner_id", "evaluator_id", "index"))
        self.evals = OrderedDict()
        for r in self.irows:
            self.evals.setdefault((r[ie], r[il], r[iv]), []).append(r)
        for t in self.evals:
            self.evals[t].sort(key=lambda r: r[ii])
        self.ii = ii
        self.iy = self.icols.index(y)

    def cell(self, col, t):
        if col == "environment_id":
            return t[0]
        if col in ("learner_id", "full_name"):
            return t[1]          # full_name = "<learner_id>. ..." is one-to-one with learner_id
        if col == "evaluator_id":
            return t[2]
        if col in self.ecols:
            return self.E[t[0]][col]
        if col in self.lcols:
            return self.L[t[1]][col]
        if col in self.vcols:
            return self.V[t[2]][col]
        raise KeyError(col)

    def key(self, cols, t):
        return tuple(self.cell(c, t) for c in aslist(cols))

    def kept_by_pairing(self, l, p, legacy=False, among=None):
        """evaluations (among `among`, default all) in p-groups that have exactly one evaluation for every compared level"""
        evals = self.evals if among is None else among
        levels = []
        for t in evals:
            k = self.key(l, t)
            if not any(k == x for x in levels):
                levels.append(k)
        groups = []
        for t in evals:
            k = self.key(p, t)
            for g in groups:
                if g[0] == k:
                    g[1].append(t)
                    break
            else:
                groups.append((k, [t]))
        kept = []
        for k, g in groups:
            if legacy:
                ok = len(g) == len(levels)
            else:
                ok = all(sum(1 for t in g if self.key(l, t) == lv) == 1 for lv in levels)
            if ok:
                kept += g
        return set(kept), levels, groups

    def fin(self, n, l, p, legacy=False, seq=False):
        """-> OrderedDict triple -> rows that where_fin(n,l,p) must leave.
        Integer n: the documented contract ("a Result where an l exists for every p and all p have n interactions")
        is read jointly: evaluations shorter than n go first, then the complete pairing groups of the rest stay.
        seq=True: the other order (pairing on everything, short evaluations dropped afterwards) = finding C18-F3."""
        pool = self.evals
        if isinstance(n, int) and not isinstance(n, bool) and n and not seq:
            pool = OrderedDict((t, rows) for t, rows in self.evals.items() if len(rows) >= n)
        if l or p:
            kept, _, _ = self.kept_by_pairing(l, p, legacy, among=pool)
        else:
            kept = set(pool)
        evs = OrderedDict((t, rows) for t, rows in pool.items() if t in kept)
        if n == "min":
            if evs:
                m = min(len(r) for r in evs.values())
                evs = OrderedDict((t, rows[:m]) for t, rows in evs.items())
        elif n:
            evs = OrderedDict((t, rows[:n]) for t, rows in evs.items() if len(rows) >= n)
        return evs

    naive_int_first = False     # only for classifying a mismatch (round h): an int-first window summed left to right in floats

    def window_mean(self, ys, span, i, sticky=False):
        lo = 0 if (span is None) else max(0, i + 1 - span)
        w = ys[lo:i + 1]
        if self.naive_int_first and w and type(w[0]) is int and not any(nonfinite(y) for y in w):
            return float(sum(w) / len(w))
        return nf_mean(w, ys[:lo] if sticky else ())

    def has_nonfinite(self):
        return any(nonfinite(r[self.iy]) for r in self.irows)

    # -- only used to *classify* a mismatch as finding C18-F2: what grouping by sorted()+adjacency (the code's
    #    path whenever sorted() does not raise) gives when the keys are only partially ordered (frozensets)
    def rawkey(self, cols, t):
        vals = [self.cell(c, t) for c in aslist(cols)]
        return tuple(vals) if isinstance(cols, (list, tuple)) else vals[0]

    def col_has_partial_order(self, cols):
        for c in aslist(cols or []):
            for cs, rows in ((self.ecols, self.erows), (self.lcols, self.lrows), (self.vcols, self.vrows)):
                if c in cs and any(isinstance(r[cs.index(c)], frozenset) for r in rows):
                    return True
        return False

    def fin_sorted_adjacent(self, n, l, p, count_rule):
        import itertools
        idx = [(self.rawkey(p, t), self.rawkey(l, t)) + t for t in self.evals]
        n_levels = len(set(i[1] for i in idx))
        try:
            idx = sorted(idx)
            groups = [list(g) for _, g in itertools.groupby(idx, key=lambda i: i[0])]
        except Exception:  # noqa
            merged = OrderedDict()
            for k, g in itertools.groupby(idx, key=lambda i: i[0]):
                merged.setdefault(k, []).extend(g)
            groups = list(merged.values())
        kept = set()
        for g in groups:
            ok = len(g) == n_levels if count_rule else (len(g) <= n_levels and len(set(i[1] for i in g)) >= n_levels)
            if ok:
                kept |= set(i[2:5] for i in g)
        evs = OrderedDict((t, rows) for t, rows in self.evals.items() if t in kept)
        if n == "min":
            if evs:
                m = min(len(r) for r in evs.values())
                evs = OrderedDict((t, rows[:m]) for t, rows in evs.items())
        elif n:
            evs = OrderedDict((t, rows[:n]) for t, rows in evs.items() if len(rows) >= n)
        return evs

    def raw_sorted_adjacent(self, evs, x, l, span):
        """raw_learners' own label grouping on sorted rows: a label met again later overwrites its column"""
        import itertools
        out = self.raw(evs, x, l, span)
        real = OrderedDict()
        for t, rows in evs.items():
            lk = self.key(l, t)
            lr = self.rawkey(l, t)
            if x == "index":
                for r in rows:
                    real.setdefault((lr, r[self.ii]), (lk, (r[self.ii],)))
            else:
                real.setdefault((lr, self.rawkey(x, t)), (lk, self.key(x, t)))
        rows = list(real)
        try:
            rows = sorted(rows)
        except Exception:  # noqa
            return out
        data = OrderedDict()
        for lr, grp in itertools.groupby(rows, key=lambda r: r[0]):
            data[lr] = [real[r] for r in grp]
        res = OrderedDict()
        for lr, keys in data.items():
            for k in keys:
                res[k] = out[k]
        return res

    def raw(self, evs, x, l, span, sticky=False):
        """{(lkey,xkey): [values over evaluations in table order]}"""
        out = OrderedDict()
        for t, rows in evs.items():
            ys = [r[self.iy] for r in rows]
            lk = self.key(l, t)
            if x == "index":
                for i, r in enumerate(rows):
                    sp = None if (span is None or span >= len(ys)) else span
                    out.setdefault((lk, (r[self.ii],)), []).append(self.window_mean(ys, sp, i, sticky))
            else:
                xk = self.key(x, t)
                sp = None if not span else span
                out.setdefault((lk, xk), []).append(self.window_mean(ys, sp, len(ys) - 1))
        return out


def multiset_sub(small, big):
    """every row of `small` occurs (with multiplicity, same types) among the rows of `big`"""
    from collections import Counter

    def k(r):
        return tuple((type(x).__name__, x) for x in r)
    try:
        cb = Counter(k(r) for r in big)
        cs = Counter(k(r) for r in small)
        return all(cb.get(key, 0) >= n for key, n in cs.items())
    except TypeError:
        big = list(big)
        for r in small:
            for i, b in enumerate(big):
                if b == r and type(b) is type(r):
                    del big[i]
                    break
            else:
                return False
        return True


def check_tables(post, pre, fails, op, demand_all_referenced):
    """mutual consistency of the four tables of `post` and 'no value changed' relative to `pre`"""
    names = (("env", "environment_id"), ("lrn", "learner_id"), ("val", "evaluator_id"))
    icols, irows = post["int"]
    for tb, idc in names:
        cols, rows = post[tb]
        if cols != pre[tb][0]:
            fails.append(F("B", "%s: columns of %s table changed from %s to %s" % (op, tb, pre[tb][0], cols), "%s:columns-changed" % op))
            continue
        if not multiset_sub(rows, pre[tb][1]):
            fails.append(F("B", "%s: %s table has a row that is not a row of the input: %s vs %s" % (op, tb, rows, pre[tb][1]), "%s:parameter-row-changed" % op))
        ids = [r[cols.index(idc)] for r in rows]
        ref = set(r[icols.index(idc)] for r in irows)
        dangling = sorted(ref - set(ids))
        if dangling:
            fails.append(F("B", "%s: interactions refer to %s %s absent from its table (ids %s)" % (op, idc, dangling, ids), "%s:dangling-id:%s" % (op, tb)))
        if demand_all_referenced:
            unref = sorted(set(ids) - ref)
            if unref:
                fails.append(F("B", "%s: %s table keeps rows %s that no interaction refers to" % (op, tb, unref), "%s:unreferenced-parameter-row:%s" % (op, tb)))
    if icols != pre["int"][0]:
        fails.append(F("B", "%s: interaction columns changed" % op, "%s:columns-changed" % op))
    elif not multiset_sub(irows, pre["int"][1]):
        fails.append(F("B", "%s: an interaction row of the output is not a row of the input (a value changed)" % op, "%s:value-changed" % op))


def all_referenced(s):
    icols, irows = s["int"]
    for tb, idc in (("env", "environment_id"), ("lrn", "learner_id"), ("val", "evaluator_id")):
        cols, rows = s[tb]
        if set(r[cols.index(idc)] for r in rows) - set(r[icols.index(idc)] for r in irows):
            return False
    return True


def refs_present(s):
    icols, irows = s["int"]
    for tb, idc in (("env", "environment_id"), ("lrn", "learner_id"), ("val", "evaluator_id")):
        cols, rows = s[tb]
        if set(r[icols.index(idc)] for r in irows) - set(r[cols.index(idc)] for r in rows):
            return False
    return True


def table_to_dict(rec, st, d):
    """canonical {(lkey,xkey): [values]} of the Table raw_learners returned"""
    cols, data = rec["table"]
    xs = data[cols.index("x")]
    inv = {}
    for lid, nm in rec["full_names"].items():
        inv[nm] = lid
    out = {}
    for c, col in zip(cols, data):
        if c == "x" and col is xs:
            continue
        lk = c
        if st["l"] == "full_name":
            lk = inv.get(c, c)
        lk = tuple(lk) if isinstance(st["l"], (list, tuple)) else (lk,)
        if isinstance(st["l"], (list, tuple)) and "full_name" in st["l"]:
            lk = tuple(inv.get(v, v) if cn == "full_name" else v for cn, v in zip(st["l"], lk))
        for xv, cell in zip(xs, col):
            if len(cell) == 1 and isinstance(cell[0], float) and cell[0] != cell[0]:
                continue                                   # the [nan] placeholder: no data for this (l,x)
            xk = tuple(xv) if isinstance(st["x"], (list, tuple)) else (xv,)
            out[(lk, xk)] = list(cell)
    return out


def same_number(impl, frac):
    try:
        if isinstance(frac, float):                    # nan / inf expected
            return (impl != impl) if frac != frac else (float(impl) == frac)
        return float(impl) == frac.numerator / frac.denominator
    except Exception:  # noqa
        return False


# ----------------------------------------------------------------------------- model side
_TOK = [0]


def ask(driver, req):
    """driver.ask with a token: if an earlier request of this worker was abandoned (case timeout) its late answer
    is skipped instead of being taken for the answer to this request"""
    _TOK[0] += 1
    tok = _TOK[0]
    ans = driver.ask(dict(req, tok=tok))
    for _ in range(50):
        if ans.get("tok") == tok:
            return ans
        line = driver.p.stdout.readline()
        if not line:
            raise RuntimeError("driver died")
        msg = json.loads(line)
        ans = msg.get("ok") or {}
    raise RuntimeError("driver died")      # hopelessly out of step: let the engine restart it


MAX_MODEL_ROWS = 6000    # (the driver answers a 6000-row state in ~1.5 s; nothing generated is larger)


class Coder:
    """per column: numbers the distinct python values (by ==/hash); order-preserving (rank in Python's sort order)
    when the column's values are mutually orderable, so that the model can mirror iteration over sorted groups"""

    def __init__(self):
        self.cols = {}          # column name -> (dict value->code | None, list of (value, code) for unhashables, sortable)

    def learn(self, snapshot):
        for tb in ("env", "lrn", "val"):
            cols, rows = snapshot[tb]
            for j, c in enumerate(cols):
                if c in self.cols:
                    continue
                vals = []
                for r in rows:
                    if not any(r[j] == u and type(r[j]) is type(u) or r[j] == u for u in vals):
                        vals.append(r[j])
                homog = all(isinstance(v, (int, float)) for v in vals) or all(isinstance(v, str) for v in vals)
                try:
                    if not homog:
                        raise TypeError
                    order = sorted(vals)
                    sortable = True
                except TypeError:
                    order, sortable = vals, False
                d, un = {}, []
                for i, v in enumerate(order):
                    try:
                        d.setdefault(v, i)
                    except TypeError:
                        un.append((v, i))
                self.cols[c] = (d, un, sortable)

    def sortable(self, c):
        return c in ID_COLS or (c in self.cols and self.cols[c][2])

    def code(self, c, v):
        d, un, _ = self.cols.setdefault(c, ({}, [], False))
        try:
            if v in d:
                return d[v]
        except TypeError:
            for u, k in un:
                if u == v:
                    return k
            k = 10 ** 6 + len(un) + len(d)
            un.append((v, k))
            return k
        k = 10 ** 6 + len(un) + len(d)
        d[v] = k
        return k


def model_result(s, coder, ycol="reward"):
    def ptab(tb, idc):
        cols, rows = s[tb]
        k = cols.index(idc)
        return [[r[k], [coder.code(cols[j], x) for j, x in enumerate(r) if j != k]] for r in rows]
    icols, irows = s["int"]
    ix = [icols.index(c) for c in ("environment_id", "learner_id", "evaluator_id", "index")]
    iy = icols.index(ycol)
    return {"envs": ptab("env", "environment_id"), "lrns": ptab("lrn", "learner_id"), "evals": ptab("val", "evaluator_id"),
            "ints": [[r[i] for i in ix] + [yint(r[iy])] for r in irows]}


YSCALE = 4        # dyadic rewards m/4 reach the (integer-reward) model as m; every average is linear in the rewards


def yscale(s, ycol="reward"):
    icols, irows = s["int"]
    iy = icols.index(ycol)
    return YSCALE if any(isinstance(r[iy], float) for r in irows) else 1


def yint(y):
    return int(y * YSCALE) if isinstance(y, float) else y


def dyadic_bound_ok(s, ycol="reward"):
    """hypothesis of Props.C18.window_sum_dyadic with k=2: every reward is m/4 and 4·len·max|m| < 2^53"""
    icols, irows = s["int"]
    iy = icols.index(ycol)
    ys = [r[iy] for r in irows]
    if not all(float(y * YSCALE).is_integer() for y in ys):
        return False
    B = max([abs(int(y * YSCALE)) for y in ys] or [0])
    return YSCALE * max(1, len(ys)) * max(1, B) < 2 ** 53


def col_ref(s, name):
    if name in ID_COLS:
        return ID_COLS[name]
    if name == "full_name":
        return "lid"
    for tb, idc, tag in (("env", "environment_id", "ep"), ("lrn", "learner_id", "lp"), ("val", "evaluator_id", "vp")):
        cols = [c for c in s[tb][0] if c != idc]
        if name in cols:
            return [tag, cols.index(name)]
    raise KeyError(name)


def col_refs(s, names):
    return [col_ref(s, c) for c in aslist(names)]


def int_ok(s, ycol="reward"):
    """the model represents ids/index/reward as integers"""
    icols, irows = s["int"]
    ix = [icols.index(c) for c in ("environment_id", "learner_id", "evaluator_id", "index")]
    for r in irows:
        if not all(isinstance(r[i], int) and not isinstance(r[i], bool) and r[i] >= 0 for i in ix):
            return False
        y = r[icols.index(ycol)]
        if isinstance(y, bool) or not (isinstance(y, int) or (isinstance(y, float) and float(y * YSCALE).is_integer())):
            return False
    return dyadic_bound_ok(s, ycol)


# ----------------------------------------------------------------------------- the property
class C18(Property):
    id = "C18"
    prop_modules = ["CobaVerif.Props.C18"]
    quick_n = 4000
    thorough_n = 100000
    search_n = 3000
    case_timeout = 60
    workers = 8
    rule = ("Results with 1-4 environments (8%: 5-9 environments, 2-4 learners, 1-3 evaluators, lengths up to 27, ids up to 39; "
            "40%: parameter column names containing/extending the special names — fold_index, index2, my_learner_id, evaluator_id2, rewards …; "
            "duplicate parameter values; value types str/int/None/bool/float/''/tuple and, rarely, frozenset), 1-3 learners, "
            "1-2 evaluators, missing triples, ragged lengths 1-7, rewards small ints (also 0/1, bool, dyadic floats, and with NaN/+inf at random positions), rows "
            "sometimes handed to the constructor in reverse order; chains of 1-4 steps of where_fin (n in None/'min'/0/k, l and p ids, "
            "parameter columns, lists, swapped roles), where, where_best (l,p,n,full_l,full_p), raw_contrast (one or several labels per side of a learner column, x also not determined by p, x index / "
            "environment columns, p environment / (environment,evaluator) / an environment column, all spans), raw_learners (x index/parameter columns, span None/0..6, "
            "p None or given); plus direct moving_average calls (all spans, weights None/'exp'/list incl. zeros). Every step is "
            "checked from the real code's own pre-state. Non-trivial = a where_fin step that removed or cut something but kept "
            "something, or a raw_learners table with >= 2 values, or a moving_average over >= 3 values; distinct by canonical JSON")
    trusted_base = [
        "where_best on key columns of mixed type: the order of filter_best's `groups` list after `try: sorted(groups)` is obtained by the "
        "harness from Python's own sorted() on the same tuples and handed to the model (`ordLv`); where every key column is "
        "homogeneous the model sorts itself (`sortLv`)",
        "dyadic rewards m/4 reach the integer-reward model as m and its exact averages are divided by 4 again (all averages are linear "
        "in the rewards); the harness checks the hypothesis of window_sum_dyadic (4*rows*max|m| < 2^53) and then demands float == rational exactly",
        "raw_contrast: `sorted(XY.items())` raising TypeError on a 'b-a' label next to a plain non-string x value is modelled by the flag strX "
        "(computed by the harness from the x column's values)",
        "where_best: the model walks the full_l levels of a cell in ascending order of order-preserving codes (the harness ranks each "
        "column's values by Python's sort); (A) for where_best is applied when the key columns are homogeneous (all numbers or all "
        "strings) and either no exact tie for the best mean exists or every evaluation mean is over a power-of-two number of integer "
        "rewards (then exact ties are float ties); (B) is tie-tolerant and always applied",
        "raw_contrast: the order of the pairs under one x follows a Python set and is compared as a multiset; (B) only where each label "
        "has one evaluation per pairing value (otherwise the card='S' dict overwrites and nothing is documented); x labels 'b-a' are "
        "rebuilt by the harness from the model's key pair",
        "binary64: integers below 2^53 scaled by 2^-k, their sums and differences are exact (window_sum_dyadic bounds every running sum), "
        "one correctly rounded division per reported average",
        "Table.where / Table.groupby / View are modelled by their list meaning (filter, maximal runs, selection by row number); "
        "their indexed implementation is C17's subject",
        "parameter values cross to the model as integer codes of their Python-equality classes (the code only hashes/compares them); "
        "full_name is treated as learner_id (it is '<learner_id>. …', one-to-one)",
        "rewards are small integers, so each reported average is one correctly rounded division of exact integers and is compared "
        "exactly with the model's rational; exponential moving averages are compared at 1e-9 relative tolerance unless alpha is dyadic",
    ]
    assumptions = [
        "rewards NaN / +inf (a diverged learner) are inside the statement: the directly computed average is then NaN / inf (IEEE), a "
        "silently finite value is a wrong average; such cases are (B)-only (the model's rewards are integers). -inf is not generated "
        "(fmean raises ValueError on inf + -inf while a float sum gives nan); where_best with non-finite means is only checked for "
        "table consistency (comparisons with NaN are not documented); a raw_learners cell holding the single value NaN cannot be told "
        "from its own `[nan]` no-data placeholder and is not compared",
        "interaction index column is 1..len within every evaluation (what TransactionResult and from_logged_envs produce)",
        "ids are unique within a parameter table; l and p are both given or both None, and name id or parameter columns "
        "(or full_name); a level value equal to the string 'x' (the name of raw_learners' own first column) is not generated",
        "span=0 with x='index' (mean of the last 0 values), windows of total weight 0, a violated weights-length assert and "
        "'exp' with span<1 are outside the statement (undefined textbook value): nothing is compared there",
        "where_fin(n=k) is read as DESIGN §C18 does: pairing first, then evaluations shorter than k are dropped (which may leave a group incomplete)",
    ]
    partial_theorems = {
        "where_fin_length_drop_counterexample": "finding C18-F3: as the code is, where_fin(n=k,l,p) pairs first and drops short evaluations "
                                                "afterwards (filter_fin_eq_spec describes exactly that, the sequential whereFinS); the documented joint "
                                                "contract whereFinJ is met by the order of fixes/C18-length-drop-before-pairing.diff (filter_fin_d_eq_spec)",
        "group_p_spec_partial": "the unchanged _group_p (len(group) == n_levels) meets the spec only if no level occurs twice inside a "
                                "p-group; witness group_p_duplicate_counterexample (= finding C18-F1). All other theorems are about the "
                                "code with fixes/C18-group-p-duplicate-level.diff applied (model parameter fixed=true) and are at full strength",
    }

    # ---------------------------------------------------------------- generation
    # ---- translator tie (Phase 4, continued): literals of plot_contrast / raw_contrast / _confidence extracted with `ast`
    #      from the CURRENT source into lean/CobaVerif/Generated/C18Modes.lean; Props/C18.lean proves they equal the model's tables
    MODEL_TABLES = {"modes": ["diff", "prob"], "boundary": [(0, 1), (1, 2)], "errs": ["se", "bs", "bi", "sd"], "xspecial": ["index"],
                    "diff_idx": (1, 0), "prob_op": "Gt", "prob_thr": (0, 1), "split_ops": ["Lt", "LtE", "LtE", "Lt"], "every": (1, 20), "skip_off": 1}

    # phase 5: defaults of the analysis functions and the `_confidence` dispatch (err string -> interval class), as the model / the harness assume them
    DEFAULT_FUNCS = ["filter_best", "filter_fin", "where_best", "where_fin", "raw_learners", "raw_contrast", "plot_learners", "plot_contrast"]
    DEFAULT_PARAMS = ["n", "l", "p", "x", "y", "span", "full_l", "full_p", "mode", "err", "errevery"]
    MODEL_DEFAULTS = [
        ("filter_best", "y", "'reward'"), ("filter_best", "n", "None"), ("filter_best", "full_l", "'learner_id'"), ("filter_best", "full_p", "'environment_id'"),
        ("filter_fin", "n", "None"), ("filter_fin", "l", "None"), ("filter_fin", "p", "None"),
        ("where_best", "p", "None"), ("where_best", "y", "'reward'"), ("where_best", "n", "None"), ("where_best", "full_l", "'learner_id'"), ("where_best", "full_p", "'environment_id'"),
        ("where_fin", "n", "None"), ("where_fin", "l", "None"), ("where_fin", "p", "None"),
        ("raw_learners", "x", "'index'"), ("raw_learners", "y", "'reward'"), ("raw_learners", "l", "'full_name'"), ("raw_learners", "p", "'environment_id'"), ("raw_learners", "span", "None"),
        ("raw_contrast", "x", "'environment_id'"), ("raw_contrast", "y", "'reward'"), ("raw_contrast", "l", "'learner_id'"), ("raw_contrast", "p", "'environment_id'"), ("raw_contrast", "span", "None"),
        ("plot_learners", "x", "'index'"), ("plot_learners", "y", "'reward'"), ("plot_learners", "l", "'full_name'"), ("plot_learners", "p", "'environment_id'"), ("plot_learners", "span", "None"),
        ("plot_learners", "err", "None"), ("plot_learners", "errevery", "None"),
        ("plot_contrast", "x", "'environment_id'"), ("plot_contrast", "y", "'reward'"), ("plot_contrast", "l", "'learner_id'"), ("plot_contrast", "p", "'environment_id'"),
        ("plot_contrast", "mode", "'diff'"), ("plot_contrast", "span", "None"), ("plot_contrast", "err", "None"), ("plot_contrast", "errevery", "None")]
    MODEL_CONF = [("se", "StdErrCI"), ("bs", "BootstrapCI"), ("bi", "BinomialCI"), ("sd", "StdDevCI")]

    def gen_defaults(self, src):
        """Generated/C18Defaults.lean from the CURRENT source: (function, parameter, repr(default)) of the analysis functions and the err -> class dispatch of `_confidence`"""
        import ast
        import warnings
        from core import lean
        missing = []
        defaults, conf = list(self.MODEL_DEFAULTS), list(self.MODEL_CONF)
        try:
            with warnings.catch_warnings():
                warnings.simplefilter("ignore")
                tree = ast.parse(src)
            res = [n for n in ast.walk(tree) if isinstance(n, ast.ClassDef) and n.name == "Result"][0]
            fns = {n.name: n for n in res.body if isinstance(n, ast.FunctionDef)}
        except Exception:  # noqa
            fns = None
            missing = ["defaults", "confidence"]
        if fns is not None:
            try:
                out = []
                for name in self.DEFAULT_FUNCS:
                    a = fns[name].args
                    pos = a.posonlyargs + a.args
                    for arg, dflt in list(zip(pos[len(pos) - len(a.defaults):], a.defaults)) + [(k, d) for k, d in zip(a.kwonlyargs, a.kw_defaults) if d is not None]:
                        if arg.arg in self.DEFAULT_PARAMS:
                            out.append((name, arg.arg, repr(ast.literal_eval(dflt))))
                defaults = out
            except Exception:  # noqa
                missing.append("defaults")
            try:
                found = []
                for n in ast.walk(fns["_confidence"]):
                    if isinstance(n, ast.If) and isinstance(n.test, ast.Compare) and isinstance(n.test.left, ast.Name) and n.test.left.id == "err" \
                            and len(n.test.ops) == 1 and isinstance(n.test.ops[0], ast.Eq) and isinstance(n.test.comparators[0], ast.Constant) \
                            and isinstance(n.test.comparators[0].value, str):
                        call = n.body[0].value
                        found.append((n.lineno, n.test.comparators[0].value, call.func.id))
                if not found:
                    raise ValueError("no dispatch")
                conf = [(e, c) for _, e, c in sorted(found)]
            except Exception:  # noqa
                missing.append("confidence")

        def lstr(x):
            return '"' + x.replace("\\", "\\\\").replace('"', '\\"') + '"'
        body = ("-- GENERATED by harness/props/c18.py from coba/results/core.py (defaults of the analysis functions, `_confidence` dispatch) on every run; do not edit.\n"
                "-- A table that could not be extracted (source reshaped) carries the model's own value and is listed in `defaultsNotExtracted`.\n"
                "namespace Coba.Generated.C18\n"
                "def analysisDefaults : List (String × String × String) := [%s]\n"
                "def confDispatch : List (String × String) := [%s]\n"
                "def defaultsNotExtracted : List String := [%s]\n"
                "end Coba.Generated.C18\n"
                % (", ".join("(%s, %s, %s)" % (lstr(a), lstr(b), lstr(c)) for a, b, c in defaults), ", ".join("(%s, %s)" % (lstr(a), lstr(b)) for a, b in conf),
                   ", ".join(lstr(m) for m in missing)))
        path = os.path.join(lean.LEAN_DIR, "CobaVerif", "Generated", "C18Defaults.lean")
        old = open(path, encoding="utf-8").read() if os.path.exists(path) else None
        if old != body:
            os.makedirs(os.path.dirname(path), exist_ok=True)
            with open(path, "w", encoding="utf-8") as f:
                f.write(body)
        return ["C18Defaults: %d defaults, %d dispatch entries from coba/results/core.py%s" % (len(defaults), len(conf), (" (not extracted: %s)" % missing) if missing else "")]

    def pre_build(self):
        import ast
        from core import lean
        src = open(os.path.join(os.environ.get("COBA_REPO", "/repo"), "coba", "results", "core.py"), encoding="utf-8").read()
        got, notes = {}, []
        notes += self.gen_defaults(src)

        def fn(cls, name):
            for n in ast.walk(cls):
                if isinstance(n, ast.FunctionDef) and n.name == name:
                    return n
            return None

        def frac(node):
            if isinstance(node, ast.Constant) and isinstance(node.value, (int, float)) and not isinstance(node.value, bool):
                f = Fraction(repr(node.value)) if isinstance(node.value, float) else Fraction(node.value)
                return (f.numerator, f.denominator)
            raise ValueError("not a number")

        def cmp_consts(f, var):
            out = []
            for n in ast.walk(f):
                if isinstance(n, ast.Compare) and isinstance(n.left, ast.Name) and n.left.id == var and len(n.ops) == 1 and isinstance(n.ops[0], ast.Eq) \
                        and isinstance(n.comparators[0], ast.Constant) and isinstance(n.comparators[0].value, str):
                    out.append((n.lineno, n.col_offset, n.comparators[0].value))
            return [v for _, _, v in sorted(out)]

        def assign(f, name):
            for n in ast.walk(f):
                if isinstance(n, ast.Assign) and len(n.targets) == 1 and isinstance(n.targets[0], ast.Name) and n.targets[0].id == name:
                    return n.value
            return None
        try:
            import warnings
            with warnings.catch_warnings():
                warnings.simplefilter("ignore")
                tree = ast.parse(src)
            res = [n for n in ast.walk(tree) if isinstance(n, ast.ClassDef) and n.name == "Result"][0]
            pc, rc, cf = fn(res, "plot_contrast"), fn(res, "raw_contrast"), fn(res, "_confidence")
        except Exception:  # noqa
            pc = rc = cf = None

        def attempt(key, f):
            try:
                got[key] = f()
            except Exception:  # noqa
                notes.append("C18Modes: %s could not be extracted (source reshaped); correspondence still pins it" % key)
        attempt("modes", lambda: list(dict.fromkeys(cmp_consts(assign(pc, "contraster"), "mode"))) or (_ for _ in ()).throw(ValueError()))

        def boundary():
            v = assign(pc, "_boundary")        # 0 if mode == 'diff' else .5
            assert isinstance(v, ast.IfExp) and cmp_consts(v.test, "mode") == ["diff"]
            return [frac(v.body), frac(v.orelse)]
        attempt("boundary", boundary)
        attempt("errs", lambda: list(dict.fromkeys(cmp_consts(cf, "err"))) or (_ for _ in ()).throw(ValueError()))
        attempt("xspecial", lambda: sorted(set(cmp_consts(pc, "x") + cmp_consts(rc, "x"))) or (_ for _ in ()).throw(ValueError()))

        def lambdas():
            v = assign(pc, "contraster")       # (lambda t: t[1]-t[0]) if mode == 'diff' else (lambda t: int((t[1]-t[0])>0)) if mode=='prob' else mode
            d, p = v.body.body, v.orelse.body.body

            def sub(b):
                assert isinstance(b, ast.BinOp) and isinstance(b.op, ast.Sub)
                return (b.left.slice.value, b.right.slice.value)
            di = sub(d)
            c = p.args[0]
            assert isinstance(p.func, ast.Name) and p.func.id == "int" and isinstance(c, ast.Compare) and sub(c.left) == di
            return di, type(c.ops[0]).__name__, frac(c.comparators[0])
        attempt("lambdas", lambdas)
        if "lambdas" in got:
            got["diff_idx"], got["prob_op"], got["prob_thr"] = got.pop("lambdas")

        def split_ops():
            ops = []
            for name in ("l1_win", "no_win", "l2_win"):
                v = None
                for n in ast.walk(pc):
                    if isinstance(n, ast.Assign) and isinstance(n.targets[0], ast.Name) and n.targets[0].id == name and isinstance(n.value, ast.ListComp):
                        v = n.value
                        break
                for t in v.generators[0].ifs:
                    for c in ([t] if isinstance(t, ast.Compare) else t.values):
                        ops += [type(o).__name__ for o in c.ops]
            return ops
        attempt("split_ops", split_ops)

        def every():
            v = assign(pc, "errevery")
            muls = [n for n in ast.walk(v) if isinstance(n, ast.BinOp) and isinstance(n.op, ast.Mult)]
            f = Fraction(*frac(muls[0].right))
            assert f.numerator == 1
            return (1, f.denominator)
        attempt("every", every)

        def skip_off():
            v = assign(cf, "skip_err")          # (i+1)%errevery
            assert isinstance(v, ast.BinOp) and isinstance(v.op, ast.Mod)
            l = v.left
            if isinstance(l, ast.Name):
                return 0
            assert isinstance(l, ast.BinOp) and isinstance(l.op, ast.Add)
            return l.right.value
        attempt("skip_off", skip_off)
        extracted = {k: (k in got) for k in self.MODEL_TABLES}
        t = dict(self.MODEL_TABLES, **got)

        def strs(l):
            return "[" + ", ".join('"%s"' % x.replace('"', "") for x in l) + "]"

        def fr(pq):
            return "(%d, %d)" % (pq[0], pq[1])
        body = ("-- GENERATED by harness/props/c18.py from coba/results/core.py (Result.plot_contrast / raw_contrast / _confidence) on every run; do not edit.\n"
                "-- An item that could not be extracted (source reshaped) carries the model's own value and is listed in `notExtracted`.\n"
                "namespace Coba.Generated.C18\n"
                "def modes : List String := %s\n"
                "def boundaries : List (Int × Nat) := [%s]\n"
                "def errNames : List String := %s\n"
                "def xSpecial : List String := %s\n"
                "def diffIdx : Nat × Nat := (%d, %d)\n"
                "def probOp : String := \"%s\"\n"
                "def probThreshold : Int × Nat := %s\n"
                "def splitOps : List String := %s\n"
                "def errEveryFactor : Nat × Nat := (%d, %d)\n"
                "def skipOffset : Nat := %d\n"
                "def notExtracted : List String := %s\n"
                "end Coba.Generated.C18\n"
                % (strs(t["modes"]), ", ".join(fr(b) for b in t["boundary"]), strs(t["errs"]), strs(t["xspecial"]), t["diff_idx"][0], t["diff_idx"][1],
                   t["prob_op"], fr(t["prob_thr"]), strs(t["split_ops"]), t["every"][0], t["every"][1], t["skip_off"],
                   strs([k for k in self.MODEL_TABLES if not extracted[k]])))
        path = os.path.join(lean.LEAN_DIR, "CobaVerif", "Generated", "C18Modes.lean")
        old = open(path, encoding="utf-8").read() if os.path.exists(path) else None
        if old != body:
            os.makedirs(os.path.dirname(path), exist_ok=True)
            with open(path, "w", encoding="utf-8") as f:
                f.write(body)
        return notes + ["C18Modes: extracted %s from coba/results/core.py" % sorted(k for k in extracted if extracted[k])]

    def gen_value(self, rng, kind):
        if kind == "str":
            return rng.choice(["a", "b", "a", "c"])
        if kind == "int":
            return rng.choice([0, 1, 1, 2])
        if kind == "mixed":
            return rng.choice(["a", 1, None, {"t": [1, "a"]}, {"f": "0.5"}, "a", 1, True, 0, "", False, {"f": "0.0"}])
        if kind == "fset":          # hashable but only partially ordered
            return rng.choice([{"fs": [1]}, {"fs": [2]}, {"fs": [1]}, {"fs": [1, 2]}, {"fs": []}])
        if kind == "const":
            return "k"
        return None

    def gen_result(self, rng):
        big = rng.chance(0.08)          # now and then a larger Result: many environments, long evaluations, two-digit ids
        ne = rng.choice([1, 2, 2, 3, 3, 4]) if not big else rng.randint(5, 9)
        nl = rng.choice([1, 2, 2, 3]) if not big else rng.randint(2, 4)
        nv = rng.choice([1, 1, 2]) if not big else rng.choice([1, 2, 3])
        ids = lambda n: (list(range(n)) if rng.chance(0.7) else sorted(rng.sample(list(range(0, 12 if not big else 40)), n)))  # noqa
        eids, lids, vids = ids(ne), ids(nl), ids(nv)
        env_cols = rng.choice([["data"], ["data", "seed"], ["data", "seed"], []])
        lrn_cols = rng.choice([["family"], ["family", "lr"], ["family", "lr"], []])
        val_cols = rng.choice([["ev"], [], ["ev"]])
        kinds = {"data": rng.choice(["str", "int", "mixed", "str", "const"]), "seed": rng.choice(["int", "int", "mixed"]),
                 "family": rng.choice(["str", "str", "const", "mixed"]), "lr": rng.choice(["int", "mixed"]), "ev": rng.choice(["str", "int"])}
        if rng.chance(0.05):
            kinds[rng.choice(["data", "data", "family"])] = "fset"
        if rng.chance(0.4):
            # parameter column NAMES that contain / extend the special names, so that a substring or prefix test on a
            # column name (instead of equality) shows: 'index' in 'fold_index', startswith('learner_id'), …
            alias = {"data": ["fold_index", "index2", "environment_id2", "data_index", "reward_data", "my_environment_id"],
                     "seed": ["seed_index", "indexes", "environment_id_seed", "xreward"],
                     "family": ["my_learner_id", "learner_id2", "family_index", "reward_family", "full_name2"],
                     "lr": ["lr_index", "learner_idx", "evaluator_id_lr", "index_lr"],
                     "ev": ["evaluator_id2", "ev_index", "my_evaluator_id", "index_ev", "rewards"]}
            ren = {c: (rng.choice(alias[c]) if rng.chance(0.6) else c) for c in alias}
            env_cols, lrn_cols, val_cols = [ren[c] for c in env_cols], [ren[c] for c in lrn_cols], [ren[c] for c in val_cols]
            kinds = {ren[c]: k for c, k in kinds.items()}
        envs = [[i] + [self.gen_value(rng, kinds[c]) for c in env_cols] for i in eids]
        lrns = [[i] + [self.gen_value(rng, kinds[c]) for c in lrn_cols] for i in lids]
        vals = [[i] + [self.gen_value(rng, kinds[c]) for c in val_cols] for i in vids]
        present = rng.choice([1.0, 1.0, 0.92, 0.85, 0.7, 0.5])
        base = rng.choice([1, 2, 3, 3, 4, 5]) if not big else rng.choice([2, 3, 6, 12, 25, 50])
        ragged = rng.choice([0.0, 0.3, 0.6])
        evals = []
        for e in eids:
            for l in lids:
                for v in vids:
                    if rng.chance(present):
                        n = base
                        if rng.chance(ragged):
                            n = max(1, base + rng.choice([-2, -1, 1, 2]))
                        evals.append([e, l, v, [rng.randint(-3, 9) for _ in range(n)]])
        if not evals and rng.chance(0.9):
            evals.append([eids[0], lids[0], vids[0], [rng.randint(-3, 9) for _ in range(base)]])
        evals = rng.shuffle(evals) if rng.chance(0.5) else evals
        case = {"kind": "res", "env_cols": env_cols, "lrn_cols": lrn_cols, "val_cols": val_cols,
                "envs": rng.shuffle(envs), "lrns": rng.shuffle(lrns), "vals": vals, "evals": evals, "extra": rng.chance(0.3)}
        if rng.chance(0.15):
            case["rev"] = True
        rk = rng.choice([None, None, None, None, "bin", "bool", "dyadic", "nf"])
        if rk:
            case["rk"] = rk
        return case

    def gen_lp(self, rng, case, for_raw=False):
        ec, lc, vc = case["env_cols"], case["lrn_cols"], case["val_cols"]
        ls = ["learner_id", "learner_id", ["learner_id"], ["learner_id", "evaluator_id"], "evaluator_id"]
        ls += [c for c in lc] + ([list(lc)] if lc else []) + ([[lc[0], "learner_id"]] if lc else [])
        ps = ["environment_id", "environment_id", ["environment_id"], ["environment_id", "evaluator_id"]]
        ps += [c for c in ec] + [c for c in ec] + ([list(ec)] if ec else []) + ([[ec[0], "evaluator_id"]] if ec else []) + [c for c in vc]
        if for_raw:
            ls += ["full_name", "full_name"]
        else:
            ls += ["full_name"]
        r = rng.below(100)
        if r < 6:
            return rng.choice(ps), rng.choice(ls)        # swapped roles
        if r < 50:                                       # pairings that can be complete
            nv = len(set(e[2] for e in case["evals"]))
            l = rng.choice(["learner_id", "learner_id", ["learner_id"], "full_name"])
            p = rng.choice(["environment_id", ["environment_id"]]) if (nv <= 1 or rng.chance(0.2)) else ["environment_id", "evaluator_id"]
            if nv > 1 and rng.chance(0.3):
                l, p = ["learner_id", "evaluator_id"], "environment_id"
            return l, p
        return rng.choice(ls), rng.choice(ps)

    def gen_n(self, rng, case=None):
        lens = sorted(len(e[3]) for e in (case or {}).get("evals", [])) or [3]
        ks = [lens[0], lens[0], lens[-1], lens[len(lens) // 2], lens[0] + 1, max(1, lens[0] - 1), 1, lens[-1] + 1]
        return rng.choice([None, None, None, "min", "min", "min", 0] + ks)

    def gen_step(self, rng, case):
        r = rng.below(100)
        if r < 62:
            st = {"op": "where_fin", "n": self.gen_n(rng, case)}
            if rng.chance(0.85):
                st["l"], st["p"] = self.gen_lp(rng, case)
            else:
                st["l"], st["p"] = None, None
            if rng.chance(0.2):
                st["use_filter_fin"] = True
            if rng.chance(0.15) and (isinstance(st["l"], list) or isinstance(st["p"], list)):
                st["as_tuple"] = True
            return st
        if r < 80:
            tb = rng.choice(["env", "lrn", "val"])
            cols = {"env": ["environment_id"] + case["env_cols"], "lrn": ["learner_id"] + case["lrn_cols"], "val": ["evaluator_id"] + case["val_cols"]}[tb]
            col = rng.choice(cols)
            rows = {"env": case["envs"], "lrn": case["lrns"], "val": case["vals"]}[tb]
            vals = [r[cols.index(col)] for r in rows]
            # only hashable scalars that Table.where treats as scalars: ints and strings
            vals = [v for v in vals if isinstance(v, (int, str)) and not isinstance(v, bool)]
            if not vals:
                return {"op": "where_fin", "n": "min", "l": None, "p": None}
            if rng.chance(0.5):
                arg = rng.choice(vals + ([99] if isinstance(vals[0], int) else ["zz"]))
            else:
                pool = []
                for v in vals:
                    if v not in pool and all(type(v) is type(u) for u in pool):
                        pool.append(v)
                arg = rng.sample(pool, rng.randint(1, len(pool)))
            return {"op": "where", "kw": [[col, arg]], "tbl": tb}
        l = rng.choice((case["lrn_cols"] or ["learner_id"]) + ["learner_id"])
        p = rng.choice((case["env_cols"] or ["environment_id"]) + ["environment_id"])
        st = {"op": "where_best", "l": l, "p": p, "n": rng.choice([None, None, 1, 1, 2, 4])}
        if rng.chance(0.35):
            st["full_p"] = rng.choice([["environment_id", "evaluator_id"], ["environment_id"]])
        if rng.chance(0.15):
            st["full_l"] = rng.choice([["learner_id"], ["learner_id", "evaluator_id"]])
            if st["full_l"] == ["learner_id", "evaluator_id"]:
                st["full_p"] = "environment_id"
        return st

    def gen_raw(self, rng, case):
        l, p = self.gen_lp(rng, case, for_raw=True)
        ec = case["env_cols"]
        xs = ["index", "index", "index", "environment_id", "learner_id"] + list(ec) + ([list(ec)] if ec else []) + list(case["lrn_cols"]) + list(case["val_cols"])
        lens = sorted(len(e[3]) for e in case["evals"]) or [3]
        st = {"op": "raw_learners", "x": rng.choice(xs), "l": l, "p": (None if rng.chance(0.25) else p),
              "span": rng.choice([None, None, 0, 1, 2, 2, 3, 4, 6, lens[0], lens[-1], max(1, lens[0] - 1), lens[-1] + 1])}
        if case.get("extra") and not case.get("rk") and rng.chance(0.3):
            st["y"] = "z"
        if rng.chance(0.15) and any(isinstance(st[k], list) for k in ("l", "p", "x")):
            st["as_tuple"] = True
        return st

    def gen_contrast(self, rng, case):
        """two labels of one learner column (or learner_id) contrasted over environments"""
        lc = case["lrn_cols"]
        pool = ["learner_id", "learner_id"] + list(lc) + ([list(lc)] if len(lc) > 1 else [])
        l = rng.choice(pool)
        cols = ["learner_id"] + list(lc)

        def lab(row):
            return [row[cols.index(c)] for c in aslist(l)]
        labs = []
        for r in case["lrns"]:
            v = lab(r)
            if all(isinstance(a, (int, str)) and not isinstance(a, bool) for a in v) and v not in labs:
                labs.append(v)
        if not labs:
            return None
        a = rng.choice(labs)
        b = rng.choice(labs) if (len(labs) < 2 or rng.chance(0.06)) else rng.choice([u for u in labs if u != a])
        if rng.chance(0.05):
            b = [(99 if isinstance(u, int) else "zz") for u in b]
        nv = len(set(e[2] for e in case["evals"]))
        p = "environment_id" if (nv <= 1 or rng.chance(0.3)) else ["environment_id", "evaluator_id"]
        xs = ["index", "index", "environment_id"]
        ec = case["env_cols"]
        if ec:
            xs.append(ec[0])
            if rng.chance(0.3):
                p = ec[0]           # several environments per pairing value: entries overwrite / products
                xs = ["index", ec[0]]
        lens = sorted(len(e[3]) for e in case["evals"]) or [3]
        st = {"op": "raw_contrast", "l": l, "l1": (a if isinstance(l, list) else a[0]), "l2": (b if isinstance(l, list) else b[0]),
              "x": rng.choice(xs), "p": p, "span": rng.choice([None, None, 1, 2, 3, 0, lens[0], lens[-1] + 1])}
        if ec and rng.chance(0.2):
            # x not determined by the pairing value: labels f"{x2}-{x1}" (and, for non-string x, TypeError next to plain values)
            st["p"] = ec[0]
            st["x"] = rng.choice(["environment_id"] + list(ec[1:]))
        if len(labs) >= 3 and rng.chance(0.3) and a in labs and b in labs:
            # several labels on a side
            others = [u for u in labs if u != a and u != b]
            side1 = [a] + ([rng.choice(others)] if rng.chance(0.7) else [])
            side2 = [b] + ([u for u in others if u not in side1][:1] if rng.chance(0.5) else [])
            st["multi"] = True
            st["l1"] = [(u if isinstance(l, list) else u[0]) for u in side1]
            st["l2"] = [(u if isinstance(l, list) else u[0]) for u in side2]
        if rng.chance(0.65):
            # the same contrast through plot_contrast with a recording plotter (Phase 4)
            if not st.get("multi") and isinstance(l, str) and rng.chance(0.2):
                st["x"] = l                 # the `x == l` branch: one point labelled "l2-l1"
            st["plot"] = {"mode": rng.choice(["diff", "diff", "prob"]), "err": rng.choice([None, None, "range", "range", "sd", "se"]),
                          "errevery": rng.choice([None, None, 0, 1, 2, 3]), "boundary": not rng.chance(0.15)}
        return st

    # ---- round g: Results built incrementally (Table.insert batches, analysis calls in between) vs. the one-shot Result
    def gen_inc(self, rng, small=False):
        case = self.gen_result(rng)
        tries = 0
        while len(case["evals"]) < 3 and tries < 5:
            case = self.gen_result(rng)
            tries += 1
        case.pop("rev", None)
        case["kind"] = "inc"
        case["style"] = rng.choice(["table", "result", "result"])
        case["as_dict"] = not rng.chance(0.3)
        evs = case["evals"]
        order = sorted(range(len(evs)), key=lambda k: tuple(evs[k][:3]))      # index order: what a running experiment appends
        if rng.chance(0.12):
            order = rng.shuffle(order)                                          # out of order: insert has to sort again
            case["out_of_order"] = True
        if rng.chance(0.25) and len(order) > 2:
            order = order[:-1] if rng.chance(0.5) else order[:len(order) // 2 + 1]   # the run has not finished yet
        looks_t = ["table_where", "table_groupby", "table_groupby1", "table_where"]
        looks_r = looks_t + ["where", "fin", "fin_min", "raw", "raw", "raw_p", "copy"]
        sched, i = [], 0
        while i < len(order):
            k = rng.choice([1, 1, 2, 3, len(order)])
            sched.append({"ins": order[i:i + k]})
            i += k
            if i < len(order) and rng.chance(0.85):
                for _ in range(rng.choice([1, 1, 2])):
                    sched.append({"look": rng.choice(looks_t if case["style"] == "table" else looks_r)})
        case["sched"] = sched
        final = [{"op": "where_fin", "n": None, "l": "learner_id", "p": "environment_id"},
                 {"op": "raw_learners", "x": "environment_id", "l": "learner_id", "p": "environment_id", "span": None}]
        for _ in range(rng.choice([1, 2, 3])):
            st = self.gen_step(rng, case)
            if st["op"] in ("where_fin", "raw_learners"):
                final.append(st)
        final.append(self.gen_raw(rng, case))
        c = self.gen_contrast(rng, case)
        if c:
            final.append(c)
        case["final"] = [st for st in final if st and st.get("op") in ("where_fin", "raw_learners", "raw_contrast")]
        return case

    def eval_inc(self, case):
        fails, tags = [], ["op:incremental", "inc:style=" + case["style"], "inc:out-of-order" if case.get("out_of_order") else "inc:in-order"]
        got, exp, err = run_inc(case)
        sched = [("ins%s" % op["ins"] if "ins" in op else op["look"]) for op in case["sched"]]
        n_ins = sum(1 for op in case["sched"] if "ins" in op)
        looked = any("look" in op for op in case["sched"])
        tags.append("inc:looks" if looked else "inc:no-looks")
        if err is not None:
            fails.append(F("B", "building the Result incrementally (%s; schedule %s) raised %s" % (case["style"], sched, err), "inc:build-raises-" + err.split(":")[0]))
            return {"fails": fails, "nontrivial": False, "tags": tags, "impl": None, "model": None}
        names = ["tables after the last insert"] + ["%s(%s)" % (st["op"], ", ".join("%s=%r" % (k, st[k]) for k in ("n", "x", "l1", "l2", "l", "p", "span") if k in st)) for st in case["final"]]
        for nm, st, g, e in zip(names, [None] + case["final"], got, exp):
            if canonj(g) == canonj(e):
                continue
            opn = "tables" if st is None else st["op"]
            part = "plot_contrast" if (st is not None and {k: v for k, v in g.items() if k != "plot"} == {k: v for k, v in e.items() if k != "plot"}) else opn
            fails.append(F("B", "Result built incrementally (%s, schedule %s): %s gives %s, the same Result built in one go gives %s"
                           % (case["style"], sched, nm, canonj(g)[:500], canonj(e)[:500]), "inc:%s-differs-from-one-shot" % part))
            break
        for st, g in zip(case["final"], got[1:]):
            tags.append("inc:final=" + st["op"] + (":err" if "err" in g else ""))
        return {"fails": fails, "nontrivial": n_ins >= 2 and looked and any("err" not in g for g in got[1:]), "tags": tags, "impl": got, "model": None}

    def gen_ma(self, rng, boundary=False):
        n = rng.choice([0, 1, 2, 3, 4, 5, 6, 8, 12, 12, 25, 60])
        dy = rng.chance(0.3)
        vs = [q(Fraction(rng.randint(-8, 12), rng.choice([1, 2, 4]) if dy else 1)) for _ in range(n)]
        r = rng.below(100)
        span = rng.choice([None, 0, 1, 2, 3, max(0, n - 1), n, n + 1, 4, 7, max(1, n // 2), 10])
        if r < 45:
            w = None
        elif r < 65:
            w = "exp"
            span = rng.choice([1, 2, 3, 3, 4, 7, 9, 15, 0])
        else:
            z = rng.choice([0.0, 0.0, 0.3])
            w = [q(0 if rng.chance(z) else Fraction(rng.randint(1, 6), rng.choice([1, 1, 2]))) for _ in range(n)]
            if rng.chance(0.04):
                w = w[:-1] if w else [q(1)]
        if w is None and vs and rng.chance(0.15):
            for _ in range(rng.choice([1, 1, 2])):
                vs[rng.below(len(vs))] = rng.choice(["nan", "nan", "inf"])
        return {"kind": "ma", "vs": vs, "span": span, "w": w}

    def generate(self, rng, tier):
        if rng.chance(0.22):
            return self.gen_ma(rng)
        if rng.chance(0.12):
            return self.gen_inc(rng)
        case = self.gen_result(rng)
        steps = []
        k = rng.choice([1, 1, 2, 2, 3, 4])
        for _ in range(k):
            steps.append(self.gen_step(rng, case))
        if rng.chance(0.4):
            st = self.gen_contrast(rng, case)
            if st and (rng.chance(0.6) or st.get("plot")):
                steps.insert(0, st)         # on the fresh Result (raw_contrast does not change the Result)
            elif st:
                steps.append(st)
        if rng.chance(0.55):
            steps.append(self.gen_raw(rng, case))
            if rng.chance(0.15):
                steps.insert(0, self.gen_raw(rng, case))
        for _ in range(rng.choice([0, 0, 1, 1, 2])):
            # the same Result object is handed to another public function between the analysis steps
            steps.insert(rng.below(len(steps) + 1), {"op": "noise", "what": rng.choice(
                ["from_result", "from_result", "copy", "where_discard", "fin_discard", "raw_discard", "accessors"])})
        case["steps"] = steps
        return case

    def search(self, rng, tier):
        """boundary-biased: small dense results with two evaluators and missing triples, where_fin/raw_learners only"""
        if rng.chance(0.15):
            return self.gen_ma(rng, True)
        if rng.chance(0.2):
            return self.gen_inc(rng)
        case = self.gen_result(rng)
        steps = []
        for _ in range(rng.choice([1, 2])):
            st = {"op": "where_fin", "n": self.gen_n(rng, case)}
            st["l"], st["p"] = self.gen_lp(rng, case)
            steps.append(st)
        steps.append(self.gen_raw(rng, case))
        case["steps"] = steps
        return case

    def corpus(self):
        cs = []
        base = {"kind": "res", "env_cols": ["data"], "lrn_cols": ["family"], "val_cols": [],
                "envs": [[0, "a"], [1, "a"], [2, "b"]], "lrns": [[0, "f"], [1, "g"]], "vals": [[0], [1]], "extra": False}
        # P15 shapes: duplicate level masks a missing one
        cs.append(dict(base, evals=[[0, 0, 0, [1, 2]], [0, 0, 1, [3, 4]], [1, 0, 0, [1, 1]], [1, 1, 0, [2, 2]]],
                       steps=[{"op": "where_fin", "n": None, "l": "learner_id", "p": "environment_id"}]))
        cs.append(dict(base, vals=[[0]], evals=[[0, 0, 0, [1, 2]], [1, 0, 0, [3, 4]], [2, 0, 0, [1, 1]], [2, 1, 0, [2, 2]]],
                       steps=[{"op": "where_fin", "n": None, "l": "learner_id", "p": "data"},
                              {"op": "raw_learners", "x": "index", "l": "learner_id", "p": "data", "span": None}]))
        # C18-F2 shapes: partially ordered (frozenset) parameter values as pairing key / as label
        fsb = dict(base, lrn_cols=[], lrns=[[0]], vals=[[0]], envs=[[0, {"fs": [1]}], [1, {"fs": [2]}], [2, {"fs": [1]}]])
        cs.append(dict(fsb, evals=[[0, 0, 0, [1]], [1, 0, 0, [1]], [2, 0, 0, [1]]],
                       steps=[{"op": "where_fin", "n": None, "l": "learner_id", "p": "data"}]))
        cs.append(dict(fsb, evals=[[0, 0, 0, [1]], [1, 0, 0, [1, 3]], [2, 0, 0, [5, 2]]],
                       steps=[{"op": "raw_learners", "x": "index", "l": "data", "p": None, "span": None}]))
        # where_best: a tie for the best mean (the later level wins), n cutting the comparison, two cells
        wb = dict(base, vals=[[0]], lrns=[[0, "f"], [1, "f"], [2, "g"]],
                  evals=[[e, l, 0, ys] for e in (0, 1, 2) for l, ys in ((0, [1, 1, 0, 0]), (1, [0, 1, 1, 0]), (2, [3, 0, 0, 0]))])
        cs.append(dict(wb, steps=[dict({"op": "where_best", "l": "family", "p": "environment_id", "n": n}, fresh=True) for n in (None, 1, 2, 4)] +
                                 [{"op": "where_best", "l": "family", "p": "data", "n": None, "fresh": True},
                                  {"op": "raw_contrast", "l": "learner_id", "l1": 0, "l2": 2, "x": "index", "p": "environment_id", "span": 2, "fresh": True},
                                  {"op": "raw_contrast", "l": "family", "l1": "g", "l2": "f", "x": "environment_id", "p": "environment_id", "span": None, "fresh": True},
                                  {"op": "raw_contrast", "l": "learner_id", "l1": 0, "l2": 1, "x": "data", "p": "data", "span": None, "fresh": True},
                                  {"op": "raw_contrast", "l": "learner_id", "l1": 1, "l2": 1, "x": "index", "p": "environment_id", "span": None, "fresh": True}]))
        # the same Result object used by Environments.from_result (etc.) between analysis steps (mutant c18f-m2): ragged, 3 envs, 2 learners
        rg = dict(base, vals=[[0]], lrns=[[1, "f"], [2, "g"]], extra=True,
                  evals=[[0, 1, 0, [1, 2, 3]], [0, 2, 0, [4, 5]], [1, 1, 0, [6, 7]], [1, 2, 0, [8, 9, 1]], [2, 2, 0, [2]]])
        ana = [{"op": "where_fin", "n": "min", "l": "learner_id", "p": "environment_id", "fresh": True},
               {"op": "raw_learners", "x": "index", "l": "learner_id", "p": "environment_id", "span": None, "fresh": True},
               {"op": "raw_learners", "x": "data", "l": "full_name", "p": None, "span": 2, "fresh": True}]
        for w in ("from_result", "copy", "where_discard", "fin_discard", "raw_discard", "accessors"):
            cs.append(dict(rg, steps=ana[:1] + [{"op": "noise", "what": w}] + ana))
        # column names that contain the special names (mutant c18c-m1: `'index' in x` instead of `x == 'index'`)
        cs.append(dict(base, env_cols=["fold_index"], lrn_cols=["my_learner_id"], envs=[[0, 10], [1, 20]], lrns=[[0, "A"], [1, "B"]], vals=[[0]],
                       evals=[[0, 0, 0, [1, 0]], [0, 1, 0, [0, 1]], [1, 0, 0, [1, 1, 0, 0, 0, 0]], [1, 1, 0, [0, 0, 1, 1, 1, 1]]],
                       steps=[{"op": "raw_learners", "x": "fold_index", "l": "learner_id", "p": "environment_id", "span": None, "fresh": True},
                              {"op": "raw_learners", "x": ["fold_index"], "l": "my_learner_id", "p": "fold_index", "span": 2, "fresh": True},
                              {"op": "where_fin", "n": "min", "l": "my_learner_id", "p": "fold_index", "fresh": True},
                              {"op": "raw_contrast", "l": "my_learner_id", "l1": "A", "l2": "B", "x": "fold_index", "p": "fold_index", "span": None, "fresh": True},
                              {"op": "where_best", "l": "my_learner_id", "p": "fold_index", "n": None, "fresh": True}]))
        # C18-F4: where_best with frozenset pairing values
        cs.append(dict(base, lrn_cols=[], lrns=[[0], [1]], vals=[[0]], envs=[[0, {"fs": [1]}], [1, {"fs": [2]}], [2, {"fs": [1]}]],
                       evals=[[0, 0, 0, [1]], [0, 1, 0, [0]], [1, 0, 0, [1]], [1, 1, 0, [1]], [2, 0, 0, [0]], [2, 1, 0, [3]]],
                       steps=[{"op": "where_best", "l": "evaluator_id", "p": "data", "n": None}]))
        # C18-F3: a short evaluation inside an otherwise complete group; a short duplicate inside an oversized group
        cs.append(dict(base, vals=[[0]], evals=[[0, 0, 0, [1, 1]], [0, 1, 0, [1]], [1, 0, 0, [1, 1]], [1, 1, 0, [1, 1]]],
                       steps=[{"op": "where_fin", "n": 2, "l": "learner_id", "p": "environment_id"}]))
        cs.append(dict(base, vals=[[0]], evals=[[0, 0, 0, [1, 1, 2, 3]], [1, 0, 0, [4]], [0, 1, 0, [1, 1, 2, 3]]],
                       steps=[{"op": "where_fin", "n": 4, "l": "learner_id", "p": "data"}]))
        # complete / equal lengths / ragged / empty
        full = [[e, l, 0, [e + l + i for i in range(3 + (e == 1))]] for e in (0, 1, 2) for l in (0, 1)]
        for n in (None, "min", 0, 1, 3, 4, 5):
            cs.append(dict(base, vals=[[0]], evals=full, steps=[{"op": "where_fin", "n": n, "l": "learner_id", "p": "environment_id"},
                                                                {"op": "where_fin", "n": n, "l": None, "p": None}]))
        cs.append(dict(base, vals=[[0]], evals=full[:-1], steps=[{"op": "where_fin", "n": "min", "l": "family", "p": "data"},
                                                                 {"op": "raw_learners", "x": "index", "l": "full_name", "p": "environment_id", "span": 2}]))
        cs.append(dict(base, vals=[[0]], evals=[], steps=[{"op": "where_fin", "n": "min", "l": "learner_id", "p": "environment_id"},
                                                          {"op": "raw_learners", "x": "index", "l": "learner_id", "p": None, "span": None}]))
        cs.append(dict(base, vals=[[0]], evals=full, steps=[{"op": "raw_learners", "x": x, "l": "learner_id", "p": "environment_id", "span": s}
                                                            for x in ("index", "data", "environment_id") for s in (None, 0, 1, 2, 3, 9)]))
        cs.append(dict(base, vals=[[0]], evals=full, steps=[{"op": "where", "kw": [["environment_id", [0, 2]]], "tbl": "env"},
                                                            {"op": "where", "kw": [["family", "g"]], "tbl": "lrn"},
                                                            {"op": "where_fin", "n": 3, "l": "learner_id", "p": "environment_id"}]))
        # last block of the table removed (cursor reaches the end), first block removed, all removed
        cs.append(dict(base, vals=[[0]], evals=[[0, 0, 0, [1]], [0, 1, 0, [1]], [2, 1, 0, [5, 6]]],
                       steps=[{"op": "where_fin", "n": None, "l": "learner_id", "p": "environment_id"}]))
        cs.append(dict(base, vals=[[0]], evals=[[0, 1, 0, [1]], [1, 0, 0, [1]], [1, 1, 0, [5, 6]]],
                       steps=[{"op": "where_fin", "n": 2, "l": "learner_id", "p": "environment_id"}]))
        cs.append(dict(base, vals=[[0]], evals=[[0, 1, 0, [1]], [1, 0, 0, [1]]],
                       steps=[{"op": "where_fin", "n": None, "l": "learner_id", "p": "environment_id"}]))
        cs.append({"kind": "ma", "vs": [q(1), "nan", q(3), q(5), q(7)], "span": None, "w": None})
        cs.append({"kind": "ma", "vs": [q(1), "inf", q(3), q(5), q(7)], "span": 9, "w": None})
        cs.append({"kind": "ma", "vs": [q(1), "nan", q(3), q(5), q(7)], "span": 2, "w": None})
        nfb = dict(base, vals=[[0]], rk="nf", evals=[[0, 0, 0, [1, 9, 3, 5]], [0, 1, 0, [2, 2, 4, 4]], [1, 0, 0, [1, 2, 3, 6]], [1, 1, 0, [0, 1, -3, 2]]])
        cs.append(dict(nfb, steps=[{"op": "raw_learners", "x": x, "l": "learner_id", "p": "environment_id", "span": sp, "fresh": True}
                                   for x in ("environment_id", "data", "index") for sp in (None, 1, 2, 4)]))
        for vs, span, w in (([1, 2, 3, 4, 5], 2, None), ([1, 2, 3, 4, 5], None, None), ([1, 2, 3], 3, "exp"), ([1, 2, 3, 4], 2, [1, 0, 2, 1]),
                            ([1, 2, 3, 4], None, [1, 2, 3, 4]), ([1, 2, 3], 1, [0, 1, 1]), ([1, 2], 0, None), ([], 2, None), ([5], 1, None),
                            ([1, 2, 3, 4], 3, [0, 0, 0, 1]), ([1, 2, 3], 5, None), ([3, 1, 2, 6, 0, 0, 1], 3, None)):
            cs.append({"kind": "ma", "vs": [q(v) for v in vs], "span": span, "w": (w if not isinstance(w, list) else [q(x) for x in w])})
        # round g (mutant C18-gm4): Results built incrementally — insert batches in index order starting from an empty indexed
        # Table / a Result extended later, with a read-only use between the inserts — against the same Result built in one go
        ib = {"kind": "inc", "env_cols": ["n_actions"], "lrn_cols": ["family"], "val_cols": [], "extra": False, "as_dict": True,
              "envs": [[0, 2], [1, 3], [2, 4]], "lrns": [[0, "A"], [1, "B"]], "vals": [[0]],
              "evals": [[e, l, 0, [(5 * e + 3 * l + i) % 4 for i in range(1, 4)]] for e in range(3) for l in range(2)]}
        fin = [{"op": "where_fin", "n": None, "l": "learner_id", "p": "environment_id"},
               {"op": "where_fin", "n": "min", "l": "learner_id", "p": "environment_id"},
               {"op": "raw_learners", "x": "environment_id", "l": "learner_id", "p": "environment_id", "span": None},
               {"op": "raw_learners", "x": "index", "l": "learner_id", "p": "environment_id", "span": 2},
               {"op": "raw_contrast", "l": "learner_id", "l1": 0, "l2": 1, "x": "environment_id", "p": "environment_id", "span": None,
                "plot": {"mode": "diff", "err": None, "errevery": None, "boundary": True}}]
        for look in ("table_where", "table_groupby", "table_groupby1"):
            cs.append(dict(ib, style="table", final=fin, sched=[{"ins": [0]}, {"ins": [1]}, {"look": look}, {"ins": [2, 3]}, {"ins": [4]}, {"ins": [5]}]))
        for look in ("raw", "where", "fin", "fin_min", "raw_p", "copy", "table_where", "table_groupby"):
            cs.append(dict(ib, style="result", final=fin, sched=[{"ins": [0, 1, 2, 3, 4]}, {"look": look}, {"ins": [5]}]))
            cs.append(dict(ib, style="result", as_dict=False, final=fin, sched=[{"ins": [0, 1]}, {"look": look}, {"ins": [2, 3]}, {"look": look}, {"ins": [4, 5]}]))
        cs.append(dict(ib, style="table", final=fin, sched=[{"ins": [4, 5]}, {"look": "table_where"}, {"ins": [0, 1]}, {"look": "table_groupby"}, {"ins": [2, 3]}]))   # out of order
        # round h (mutant C18-hm2): y columns mixing ints and floats (int first / int last / float first / all ints / bools) with values on which a
        # left-to-right float sum differs from the exactly rounded mean (cancellation 1e16 / 1e17 pairs, 2**53+2, 0.1 ten times, 2-decimal rewards);
        # final averages (x = parameter columns / ids) are compared EXACTLY with the mean over Q rounded once.  Only vectors on which rounding the exact
        # sum first and dividing then gives the same binary64 (no double-rounding effect) are used — checked here with exact arithmetic.
        def fj(v):
            return {"f": repr(v)} if isinstance(v, float) else v

        def once_ok(Y):
            for sp in (len(Y), 2, 3):
                w = [Fraction(v) for v in Y[-sp:]]
                if float(sum(w)) / len(w) != float(sum(w) / len(w)):
                    return False
            return True
        vecs = [[1, 1e16, 1.0, -1e16], [1.0, 1e16, 1, -1e16], [1e16, 1.0, -1e16, 1], [2**53, 1.0, 1.0, 0.0], [1.0, 1.0, 0.0, 2**53], [0.0, 2**53, 1.0, 1.0],
                [3, -1e17, 7.0, 1e17], [1, 0.5, 0.25, 0.25], [1] + [0.1] * 10, [0.1] * 10 + [1], [0.1] * 10, [0] + [0.1] * 10, [2**53, 1, 1, 0], [1, 10**16, 1, -10**16],
                [True, 0.1, 0.2, 0.7], [True, False, True, True], [1, True, 0.3, 0.3], [2, 1e-3, 1e16, -1e16, 5.0], [1, 1e100, 1.0, -1e100], [0, 1e16, 3.0, -1e16]]
        for a in range(12):
            vecs.append([a % 3] + [((7 * a * a + 13 * i * i + 3 * i + a) % 100) / 100 for i in range(1, 4 + a % 4)])
            vecs.append([((11 * a * a + 5 * i * i + i + a) % 100) / 100 for i in range(1, 4 + a % 3)] + [1])
        vecs = [v for v in vecs if once_ok(v)]
        for i in range(0, len(vecs) - 3, 2):
            ys4 = vecs[i:i + 4]
            mb = dict(base, vals=[[0]], rk="lit", envs=[[0, 10], [1, 20]],
                      evals=[[e, l, 0, [fj(v) for v in ys4[2 * e + l]]] for e in (0, 1) for l in (0, 1)])
            cs.append(dict(mb, steps=[dict({"op": "raw_learners", "x": xx, "l": ll, "p": "environment_id", "span": sp}, fresh=True)
                                      for xx, ll, sp in (("data", "learner_id", None), ("data", "family", 3), ("environment_id", "learner_id", 2),
                                                         (["data"], "learner_id", None), ("data", "learner_id", 1))]))
        # phase 5: calls that leave arguments to their defaults (pairing by environments, levels = learners, x='index' / 'environment_id', no span) are judged
        # against the direct computation with the documented defaults (Props.C18.analysis_defaults_match ties the same table to the source)
        dfb = dict(base, vals=[[0]], lrns=[[1, "f"], [2, "g"]],
                   evals=[[0, 1, 0, [1, 2, 3]], [0, 2, 0, [3, 1, 0]], [1, 1, 0, [5, 1]], [2, 1, 0, [2, 4]], [2, 2, 0, [1, 1, 4, 2]]])
        dsteps = [dict({"op": "raw_learners", "x": "index", "l": "full_name", "p": "environment_id", "span": None}, fresh=True, omit=om)
                  for om in (["x", "y", "l", "p", "span"], ["p"], ["l"], ["x"], ["span", "y"])]
        dsteps += [dict({"op": "raw_learners", "x": "data", "l": "full_name", "p": "environment_id", "span": 2}, fresh=True, omit=["l", "p"])]
        dsteps += [dict({"op": "raw_contrast", "l": "learner_id", "l1": 1, "l2": 2, "x": "environment_id", "p": "environment_id", "span": None}, fresh=True, omit=om)
                   for om in (["x", "y", "l", "p", "span"], ["p"], ["x"], ["l"])]
        dsteps += [{"op": "where_best", "l": "family", "p": "environment_id", "n": None, "fresh": True}, {"op": "where_best", "l": "family", "p": "data", "n": 2, "fresh": True}]
        cs.append(dict(dfb, steps=dsteps))
        cs.append(dict(dfb, envs=[[0, "a"], [1, "b"], [2, "b"]], vals=[[0], [1]], evals=dfb["evals"] + [[1, 2, 1, [7, 7]], [0, 1, 1, [2]]], steps=dsteps[:10]))
        # phase 5, goal 2: int(n*0.05) vs n/20 — small n, every residue, n = 20k+19 over all magnitudes, both sides of 3*2^51, up to 2^53-1
        B05 = 3 * 2**51
        cs.append({"kind": "law05", "ns": list(range(0, 130))})
        # phase 6: `sorted()` returns a sorted permutation, independent of the arrival order (py_sorted_perm / _sorted / _order_independent)
        for sl_vals in ([0, 1], [0, 1, 2], [3, 1, 2, 0], [0, 1, 2, 3, 4], ["a", "b", "ab", "", "B"], [1.5, -2, 0, 7, 2.25], ["10", "9", "1", "a1", "A"],
                     [2, "a", 1], [None, 1], [None, None], [1, 2, None, 3], ["a", "b", 3], [0.5, "0.5", 1]):
            cs.append({"kind": "sortlaw", "vals": sl_vals})
        for n in (6, 7, 8, 11, 16, 17, 24, 33, 48, 63):
            cs.append({"kind": "sortlaw", "vals": [(37 * i + 11) % 101 - 50 for i in range(n)]})                 # scattered distinct ints
            cs.append({"kind": "sortlaw", "vals": [chr(97 + (7 * i) % 26) * (1 + i % 3) + str((5 * i) % n) for i in range(n)]})   # distinct strings
            cs.append({"kind": "sortlaw", "vals": list(range(n // 2, 0, -1)) + [n + (13 * i) % n / 4 + i * n for i in range(n - n // 2)]})   # descending run, then floats
        cs.append({"kind": "law05", "ns": sorted(set(v for e in range(5, 53) for v in (2**e - 1, 2**e, 20 * (2**e // 20) + 19, 20 * (3 * 2**e // 40) + 19, 20 * (5 * 2**e // 80) + 19) if 0 <= v < 2**53))})
        cs.append({"kind": "law05", "ns": list(range(B05 - 45, B05 + 45))})
        cs.append({"kind": "law05", "ns": [B05 - 20 * j - 5 for j in range(1, 60)] + [B05 + 20 * j + 15 for j in range(0, 60)] + [5 * 2**50 + d for d in range(-25, 25)] + [2**53 - 1 - d for d in range(0, 45)]})
        cs.append({"kind": "law05", "ns": [20 * ((B05 * j) // (20 * 97)) + 19 for j in range(1, 97)] + [20 * ((B05 + (2**53 - B05) * j // 61) // 20) + r for j in range(0, 61) for r in (18, 19, 0)]})
        # phase 5: x columns of one / mixed Python classes through raw_contrast's final sorted() (now inside the model: `rawContrastPy`):
        # ascending, strictly descending (run reversed), binary insertion, a string / None among numbers at every position, bool/float/int mixes
        for xs_ in ([3, 1, 2], [1, 2, 3], [3, 2, 1], [2, 3, 1, 0], [2, "a", 1], ["a", 2, 1], [1, 2, "a"], [1, 2, 3, "a"], ["b", "a", "c"], ["b", "a", 1],
                    [None, 1, 2], [1, None, 2], [1, 2, None], [None, None], [True, 2, {"f": "0.5"}], [{"f": "1.5"}, "x", 0], [5, 4, 3, 2, 1, "z"], [1, 5, 2, 4, 3],
                    [2, 1, 4, 3, 6, 5, "q"], [7, 3, 5, 1, 6, 2, 4]):
            mx = dict(base, vals=[[0]], envs=[[i, v] for i, v in enumerate(xs_)],
                      evals=[[e, l, 0, [(3 * e + 2 * l + i) % 5 for i in range(1, 4)]] for e in range(len(xs_)) for l in (0, 1)])
            cs.append(dict(mx, steps=[
                {"op": "raw_contrast", "l": "learner_id", "l1": 0, "l2": 1, "x": "data", "p": "environment_id", "span": None, "fresh": True},
                {"op": "raw_contrast", "l": "learner_id", "l1": 0, "l2": 1, "x": "data", "p": "environment_id", "span": 2, "fresh": True,
                 "plot": {"mode": "diff", "err": None, "errevery": None, "boundary": True}},
                {"op": "raw_contrast", "l": "family", "l1": "f", "l2": "g", "x": "data", "p": "environment_id", "span": None, "fresh": True,
                 "plot": {"mode": "prob", "err": "range", "errevery": 2, "boundary": False}}]))
        # phase 6 (round i: key handling): parameter values that are equal across types (1 == 1.0 == True, 0 == False) or whose str()/repr()
        # coincide ('1' vs 1, "(1, 2)" vs (1, 2), 'None' vs None) as pairing key, as label, as x and as `where` argument — histories
        # where / analysis / fresh analysis on the same object; judged by the existing (B) monitors (direct computation with Python equality)
        for ks_ in ([1, "1", {"f": "1.0"}, True, "True", 2], [0, False, "0", "", None, "None"], ["a", "a ", "A", "('a',)", {"t": ["a"]}, "['a']"],
                    [{"t": [1, 2]}, "(1, 2)", {"t": [1, {"f": "2.0"}]}, "1", 1, "1.0"], [10, "10", {"f": "10.0"}, "10.0", {"f": "10.5"}, "1e1"],
                    [True, "True", 1, False, "False", 0]):
            kh = dict(base, vals=[[0]], envs=[[i, v] for i, v in enumerate(ks_)],
                      evals=[[e, l, 0, [(3 * e + 2 * l + i) % 5 for i in range(1, 3 + (e + l) % 3)]] for e in range(len(ks_)) for l in (0, 1) if (e, l) != (4, 1)])
            hist = [{"op": "where_fin", "n": None, "l": "learner_id", "p": "data", "fresh": True},
                    {"op": "where_fin", "n": "min", "l": "data", "p": "learner_id", "fresh": True},
                    {"op": "raw_learners", "x": "data", "l": "learner_id", "p": "environment_id", "span": None, "fresh": True},
                    {"op": "raw_learners", "x": "index", "l": "data", "p": None, "span": 2, "fresh": True},
                    {"op": "raw_learners", "x": "data", "l": "family", "p": None, "span": 2, "fresh": True}]
            scal_ = [v for v in ks_ if not (isinstance(v, dict) and "t" in v)]     # a tuple argument of `where` means "one of", like a list
            for v_ in scal_[:4]:
                hist += [{"op": "where", "kw": [["data", v_]], "tbl": "env", "fresh": True},
                         {"op": "raw_learners", "x": "environment_id", "l": "learner_id", "p": "environment_id", "span": None},
                         {"op": "where_fin", "n": 2, "l": "learner_id", "p": "environment_id"}]
            hist += [{"op": "where", "kw": [["data", scal_[:2]]], "tbl": "env", "fresh": True},
                     {"op": "where_fin", "n": None, "l": "learner_id", "p": "data"},
                     {"op": "raw_learners", "x": "data", "l": "learner_id", "p": "environment_id", "span": None, "fresh": True}]
            cs.append(dict(kh, steps=hist))
        return cs

    def exhaustive(self, tier):
        """every pattern of present / absent triples and lengths 1/2 over 2 environments x 2 learners x 2 evaluators
        (3^8 Results), each put through six where_fin / raw_learners calls from the fresh Result"""
        triples = [(e, l, v) for e in (0, 1) for l in (0, 1) for v in (0, 1)]
        steps = [{"op": "where_fin", "n": None, "l": "learner_id", "p": "environment_id", "fresh": True},
                 {"op": "where_fin", "n": "min", "l": "learner_id", "p": ["environment_id", "evaluator_id"], "fresh": True},
                 {"op": "where_fin", "n": 2, "l": ["learner_id", "evaluator_id"], "p": "data", "fresh": True},
                 {"op": "where_fin", "n": 2, "l": None, "p": None, "fresh": True},
                 {"op": "raw_learners", "x": "index", "l": "full_name", "p": "environment_id", "span": 2, "fresh": True},
                 {"op": "raw_learners", "x": "data", "l": "learner_id", "p": ["environment_id", "evaluator_id"], "span": None, "fresh": True}]
        for code in range(3 ** 8):
            evals, c = [], code
            for t in triples:
                k = c % 3
                c //= 3
                if k:
                    evals.append([t[0], t[1], t[2], [t[0] + 2 * t[1] + 1, t[2] + 3][:k]])
            yield {"kind": "res", "env_cols": ["data"], "lrn_cols": [], "val_cols": [], "envs": [[0, "a"], [1, "b"]],
                   "lrns": [[0], [1]], "vals": [[0], [1]], "evals": evals, "extra": False, "steps": steps}

    # ---------------------------------------------------------------- evaluation
    # ---- phase 5, goal 2: `int(n*0.05)` (plot_contrast / plot_learners: default errevery) on binary64 vs. the model's `n / 20`
    def eval_law05(self, case, driver):
        """Props.C18.int_mul_005_eq_div20: equal for every n < 3*2^51; above (n < 2^53) they differ exactly for n % 20 == 19 (by +1)."""
        fails, tags = [], []
        ns = case["ns"]
        bound = 3 * 2**51
        model = [max(n // 20, 1) for n in ns]
        if driver is not None:
            ans = ask(driver, {"kind": "errevery", "ns": ns})
            model, bound = ans["model"], ans["bound"]
        impl = [max(int(n * 0.05), 1) for n in ns]          # the expression of coba/results/core.py (factor tied by plot_errevery_match)
        for n, a, m in zip(ns, impl, model):
            exp_diff = n >= bound and n % 20 == 19
            tags.append("law05:" + ("below-bound" if n < bound else ("above-bound:differs" if exp_diff else "above-bound:equal")) + (":r=19" if n % 20 == 19 else ""))
            if (a != m) != exp_diff or (exp_diff and a != m + 1):
                fails.append(F("A", "max(int(%d*0.05),1) = %d on binary64, the model's max(%d/20,1) = %d; the theorem int_mul_005_eq_div20 (n < 3*2^51) / the exact set "
                               "{n >= 3*2^51, n %% 20 == 19} says they %s" % (n, a, n, m, "differ by 1" if exp_diff else "agree"), "A:int-n-0.05-vs-div20"))
        return {"fails": fails, "nontrivial": len(ns) > 1, "tags": tags, "impl": impl, "model": model}

    # ---- phase 6: `sorted()` (CPython) vs. the model's `pySorted`, in every arrival order of the same values
    @staticmethod
    def sortlaw_arrangements(vals):
        n = len(vals)
        if n <= 5:
            import itertools
            return [list(p_) for p_ in itertools.permutations(vals)]
        out = [list(vals), vals[::-1], vals[1:] + vals[:1], vals[-1:] + vals[:-1], vals[::2] + vals[1::2][::-1], vals[n // 2:] + vals[:n // 2][::-1],
               vals[1::2] + vals[::2], vals[::3] + vals[1::3] + vals[2::3]]
        try:
            asc = sorted(vals)
            out += [asc, asc[::-1], asc[:n // 2] + asc[n // 2:][::-1], asc[n // 3:] + asc[:n // 3]]
        except TypeError:
            pass
        for mul in (7, 11, 13, 17, 19, 23):                      # fixed multiplicative shuffles (all positions for n coprime, else a rotation mix)
            idx = sorted(range(n), key=lambda i: ((i + 1) * mul * 2654435761) % 4294967296)
            out.append([vals[i] for i in idx])
        return out

    def eval_sortlaw(self, case, driver):
        """Props.C18.py_sorted_perm / py_sorted_sorted / py_sorted_order_independent against CPython's sorted()."""
        fails, tags = [], []
        vals = case["vals"]
        arrs = self.sortlaw_arrangements(vals)
        one_class = all(isinstance(v, (bool, int, float)) for v in vals) or all(isinstance(v, str) for v in vals)
        first_impl, first_model, impl_all = None, None, []
        for arr in arrs:
            try:
                impl = {"ok": [pyval(v) for v in sorted(arr)]}
            except TypeError:
                impl = {"err": "TypeError"}
            impl_all.append(impl)
            if first_impl is None:
                first_impl = impl
            elif impl != first_impl:
                fails.append(F("A", "sorted(%r) = %r but sorted of the first arrangement = %r" % (arr, impl, first_impl), "A:sortlaw-python-order-dependent"))
            if driver is not None:
                m = ask(driver, {"kind": "pysort", "vals": [pyval(v) for v in arr]})["model"]
                if m != impl:
                    fails.append(F("A", "sorted(%r): Python %r, the model of sorted() %r" % (arr, impl, m), "A:sortlaw-python-vs-model"))
                if first_model is None:
                    first_model = m
                elif one_class and m != first_model:
                    fails.append(F("C", "model of sorted() depends on the arrival order: %r gives %r, the first arrangement %r" % (arr, m, first_model), "C:sortlaw-order-dependent"))
                if "ok" in m and sorted(map(canonj, m["ok"])) != sorted(canonj(pyval(v)) for v in arr):
                    fails.append(F("C", "model of sorted() over %r is not a permutation: %r" % (arr, m), "C:sortlaw-perm"))
                if ("ok" in m) != ("ok" in first_model):
                    fails.append(F("C", "model of sorted() raises for one arrangement of %r and not for another" % (vals,), "C:sortlaw-raises-order-dependent"))
        n = len(vals)
        tags.append("sortlaw:%s:%s" % ("ok" if "ok" in first_impl else "TypeError", "n<=5:all-perms" if n <= 5 else "n=6-16" if n <= 16 else "n=17-63"))
        tags.append("sortlaw:arrangements=%d" % (len(arrs) if len(arrs) < 30 else 10 * (len(arrs) // 10)))
        return {"fails": fails, "nontrivial": n >= 2, "tags": tags, "impl": first_impl, "model": first_model}

    def evaluate(self, case, driver):
        if case["kind"] == "sortlaw":
            return self.eval_sortlaw(case, driver)
        if case["kind"] == "ma":
            return self.eval_ma(case, driver)
        if case["kind"] == "inc":
            return self.eval_inc(case)
        if case["kind"] == "law05":
            return self.eval_law05(case, driver)
        fails, tags = [], []
        recs = run_case(case)
        nontrivial = False
        impl_out, model_out = [], []
        coder = Coder()
        for st, rec in zip(case["steps"], recs):
            op = st["op"]
            nfails0 = len(fails)
            tags.append("op:" + op)
            pre = rec["pre"]
            coder.learn(pre)
            best_a_ok = False
            if "err" in rec:
                tags.append("err:%s:%s" % (op, rec["err"]))
            if op == "noise":
                tags.append("noise:" + st["what"])
                if "err" in rec:
                    fails.append(F("B", "%s on the Result raised %s: %s" % (st["what"], rec["err"], rec.get("errmsg")), "noise:%s-raises-%s" % (st["what"], rec["err"])))
                elif rec["after"] != pre:
                    tb = [k for k in ("env", "lrn", "val", "int") if rec["after"][k] != pre[k]]
                    fails.append(F("B", "a read-only use of the Result (%s) changed its own %s table(s): rows before %s, after %s — every later "
                                   "where_fin / raw_learners on this object works on the altered table"
                                   % (st["what"], tb, pre[tb[0]][1][:8], rec["after"][tb[0]][1][:8]), "noise:%s-changes-the-result" % st["what"]))
                impl_out.append({"noise": st["what"]})
                model_out.append(None)
                continue
            nf_here = any(nonfinite(r[pre["int"][0].index("reward")]) for r in pre["int"][1]) if "reward" in pre["int"][0] else False
            if nf_here:
                tags.append("rewards:non-finite")
            if op == "where_best" and nf_here:
                tags.append("best:skipped-non-finite")       # comparisons with NaN means: nothing documented
                if "post" in rec:
                    check_tables(rec["post"], pre, fails, op, False)
            elif op == "where_best":
                nt, best_a_ok = self.check_best(st, rec, fails, tags, coder)
                nontrivial = nontrivial or nt
            if op == "where_fin":
                nt = self.check_fin(st, rec, fails, tags)
                nontrivial = nontrivial or nt
            elif op == "raw_learners":
                nt = self.check_raw(st, rec, fails, tags)
                nontrivial = nontrivial or nt
            elif op == "raw_contrast":
                nt = self.check_contrast(st, rec, fails, tags, coder)
                nontrivial = nontrivial or nt
                if st.get("plot") and "plot" in rec:
                    self.check_plot(st, rec, fails, tags, coder)
            elif "post" in rec:
                check_tables(rec["post"], pre, fails, op, False)
            elif op == "where":
                if rec["err"] == "IndexError" and not pre["int"][1]:
                    tags.append("where:empty-indexed-table(C17)")     # Table.where on an empty indexed table: C17's subject
                    impl_out.append({"err": rec["err"]})
                    model_out.append(None)
                    continue
                fails.append(F("B", "where(%s) raised %s: %s" % (st["kw"], rec["err"], rec.get("errmsg")), "where:raises-" + rec["err"]))
            impl_out.append({"post": snap_json(rec["post"])} if "post" in rec else ({"table": json.loads(json.dumps(rec.get("table"), default=str))} if "table" in rec else {"err": rec["err"]}))
            # (A)
            undefined = op in ("raw_learners", "raw_contrast") and st["x"] == "index" and st.get("span") == 0
            single_x = op == "raw_contrast" and not isinstance(st["x"], (list, tuple))
            if op == "raw_contrast" and "contrast:mixed-x-labels" in tags[-3:] and not (single_x and rec.get("err") == "TypeError"):
                undefined = True
            if op == "raw_contrast" and st["x"] != "index" and not all(coder.sortable(c) for c in aslist(st["x"])):
                if single_x:
                    tags.append("contrast:A-mixed-x-via-pysort")    # which labels sorted() can compare: model `pySorted`
                else:
                    undefined = True        # several x columns of mixed types: tuple labels, sorted() depends on the dict order
                    tags.append("contrast:A-skipped-unsortable-x")
            f2_here = any(f["sig"] == F2_SIG for f in fails[nfails0:])   # the model groups by equality; (B) reports this step
            small = len(pre["int"][1]) <= MAX_MODEL_ROWS
            if yscale(pre, st.get("y", "reward")) != 1 and op in ("raw_learners", "raw_contrast", "where_best"):
                tags.append("dyadic-stream:" + op)      # the model's exact rational must equal the float exactly
            if not small:
                tags.append("A:skipped-large-state")
            if op == "where_best" and not best_a_ok:
                model_out.append(None)
            elif driver is not None and op in ("where_fin", "where", "raw_learners", "where_best", "raw_contrast") and int_ok(pre, st.get("y", "reward")) and not undefined and not f2_here and small:
                model_out.append(self.correspond(st, rec, driver, coder, fails, tags))
            else:
                model_out.append(None)
        return {"fails": fails, "nontrivial": nontrivial, "tags": tags, "impl": impl_out, "model": model_out}

    # ---- (B) where_fin
    def check_fin(self, st, rec, fails, tags):
        pre = rec["pre"]
        n, l, p = st.get("n"), st.get("l"), st.get("p")
        tags.append("fin:n=%s" % ("k" if isinstance(n, int) and n else n))
        tags.append("fin:lp=%s" % ("none" if not (l or p) else ("list" if isinstance(l, list) or isinstance(p, list) else "single")))
        d = Direct(pre)
        exp = d.fin(n, l, p)
        if "err" in rec:
            fails.append(F("B", "where_fin(n=%r,l=%r,p=%r) raised %s: %s" % (n, l, p, rec["err"], rec.get("errmsg")), "fin:raises-" + rec["err"]))
            return False
        post = rec["post"]
        check_tables(post, pre, fails, "fin", bool(l or p) or all_referenced(pre))
        got = Direct(post).evals if refs_present(post) else None
        if got is None:
            return False
        ie, il, iv = (post["int"][0].index(c) for c in ("environment_id", "learner_id", "evaluator_id"))
        if got != exp and (l or p) and isinstance(n, int) and n and got == d.fin(n, l, p, seq=True):
            tags.append("f3")
            dg = Direct(post)
            _, levels, groups = dg.kept_by_pairing(l, p)
            bad = [(k, g) for k, g in groups if not all(sum(1 for t in g if dg.key(l, t) == lv) == 1 for lv in levels)]
            what = ("the result keeps the %s-group %r with evaluations %s, which lacks a level (levels in the result %s)"
                    % (p, bad[0][0], bad[0][1], levels)) if bad else \
                   ("it returns the evaluations %s; with the short evaluations dropped first the complete groups are %s" % (list(got), list(exp)))
            fails.append(F("B", "where_fin(n=%r,l=%r,p=%r) pairs first and drops the evaluations shorter than %r afterwards: %s"
                           % (n, l, p, n, what), F3_SIG))
        elif got != exp:
            legacy = d.fin(n, l, p, legacy=True)
            sim = [d.fin_sorted_adjacent(n, l, p, rule) for rule in (True, False)] if ((l or p) and d.col_has_partial_order(p)) else []
            if (l or p) and got != legacy and any(got == e for e in sim):
                tags.append("f2")
                fails.append(F("B", "where_fin(n=%r,l=%r,p=%r) splits a %s-group because its key values are only partially ordered "
                               "(frozensets): sorted() does not raise and equal keys are not adjacent; kept %s, expected %s"
                               % (n, l, p, p, list(got), list(exp)), F2_SIG))
            elif (l or p) and got == legacy:
                tags.append("p15")
                kept, levels, groups = d.kept_by_pairing(l, p, legacy=True)
                bad = [(k, g) for k, g in groups if len(g) == len(levels) and set(g) <= kept and not all(sum(1 for t in g if d.key(l, t) == lv) == 1 for lv in levels)]
                fails.append(F("B", "where_fin(n=%r,l=%r,p=%r) keeps the %s-group %r whose evaluations %s have a duplicate %s level and lack another (levels %s)"
                               % (n, l, p, p, bad[0][0] if bad else None, bad[0][1] if bad else None, l, levels), P15_SIG))
            else:
                extra = [t for t in got if t not in exp]
                missing = [t for t in exp if t not in got]
                kept, levels, groups = (d.kept_by_pairing(l, p) if (l or p) else (set(d.evals), [], []))
                if extra:
                    t = extra[0]
                    why = "incomplete-group-kept" if t not in kept else "short-evaluation-kept"
                    fails.append(F("B", "where_fin(n=%r,l=%r,p=%r) keeps evaluation %s which must be removed (%s); levels %s" % (n, l, p, t, why, levels), "fin:" + why))
                if missing:
                    t = missing[0]
                    why = "complete-group-dropped" if (isinstance(n, str) or not n or len(d.evals[t]) >= n) else "dropped"
                    fails.append(F("B", "where_fin(n=%r,l=%r,p=%r) drops evaluation %s which must stay (%s)" % (n, l, p, t, why), "fin:" + why))
                if not extra and not missing:
                    t = [t for t in exp if got[t] != exp[t]][0]
                    fails.append(F("B", "where_fin(n=%r,l=%r,p=%r) leaves %d rows of evaluation %s, expected %d (first rows in index order)"
                                   % (n, l, p, len(got[t]), t, len(exp[t])), "fin:wrong-length"))
        # the documented postcondition itself, evaluated on what the real code returned
        if l or p:
            dg = Direct(post)
            keptp, levelsp, groupsp = dg.kept_by_pairing(l, p)
            rec["post_complete"] = (keptp == set(dg.evals))
            if not rec["post_complete"] and not any(f["sig"] in (F3_SIG, P15_SIG, F2_SIG) for f in fails):
                badg = [(k, g) for k, g in groupsp if not set(g) <= keptp]
                fails.append(F("B", "where_fin(n=%r,l=%r,p=%r) returns the %s-group %r with evaluations %s: not exactly one per level %s"
                               % (n, l, p, p, badg[0][0], badg[0][1], levelsp), "fin:result-not-completely-paired"))
            if isinstance(n, int) and not isinstance(n, bool) and n and any(len(rows) != n for rows in dg.evals.values()):
                fails.append(F("B", "where_fin(n=%r,l=%r,p=%r) returns evaluations of lengths %s" % (n, l, p, sorted(set(len(r) for r in dg.evals.values()))), "fin:result-not-equal-length"))
        removed = len(d.evals) - len(exp)
        cut = sum(1 for t in exp if len(exp[t]) < len(d.evals[t]))
        if removed:
            tags.append("fin:removed-evaluations")
        if cut:
            tags.append("fin:cut-evaluations")
        if not exp:
            tags.append("fin:nothing-left")
        return bool(exp) and bool(removed or cut)

    # ---- (B) where_best: in every (p,l) cell of the complete full_p groups exactly the evaluations of ONE full_l level
    #      stay, and that level's mean (of the evaluations' means over their first n rewards) is not exceeded
    def check_best(self, st, rec, fails, tags, coder):
        pre = rec["pre"]
        l, p, n = st["l"], st["p"], st.get("n")
        fl, fp = st.get("full_l", "learner_id"), st.get("full_p", "environment_id")
        call = "where_best(l=%r,p=%r,n=%r,full_l=%r,full_p=%r)" % (l, p, n, fl, fp)
        d = Direct(pre)
        fin = d.fin(None, fl, fp)
        if "err" in rec:
            if rec["err"] == "StatisticsError" and n == 0:
                return False, False
            fails.append(F("B", "%s raised %s: %s" % (call, rec["err"], rec.get("errmsg")), "best:raises-" + rec["err"]))
            return False, False
        post = rec["post"]
        check_tables(post, pre, fails, "best", True)
        if not refs_present(post):
            return False, False
        got = Direct(post).evals
        cells = OrderedDict()
        for t, rows in fin.items():
            ys = [Fraction(r[d.iy]) for r in rows][:n]
            cells.setdefault((d.key(p, t), d.key(l, t)), OrderedDict()).setdefault(d.key(fl, t), []).append((t, sum(ys) / len(ys)))
        ties = False
        for ck, levels in cells.items():
            score = {f: sum(s for _, s in evs) / len(evs) for f, evs in levels.items()}
            best = max(score.values())
            ties = ties or sum(1 for v in score.values() if v == best) > 1
            kept_levels = [f for f, evs in levels.items() if any(t in got for t, _ in evs)]
            partial = [f for f, evs in levels.items() if any(t in got for t, _ in evs) and not all(t in got for t, _ in evs)]
            if (len(kept_levels) != 1 or partial or score[kept_levels[0]] != best) and \
                    (d.col_has_partial_order(p) or d.col_has_partial_order(l) or d.col_has_partial_order(fl)):
                tags.append("f4")
                fails.append(F("B", "%s: the cell (p,l)=%s is split because its key values are only partially ordered (frozensets) and filter_best groups "
                               "by sorted()+adjacency; levels left %s (partially %s), scores %s" % (call, ck, kept_levels, partial, {str(k): str(v) for k, v in score.items()}), F4_SIG))
            elif len(kept_levels) != 1 or partial:
                fails.append(F("B", "%s leaves the levels %s (partially: %s) in the cell (p,l)=%s; exactly one %s level must stay, entirely (scores %s)"
                               % (call, kept_levels, partial, ck, fl, {str(k): str(v) for k, v in score.items()}), "best:not-exactly-one-level-per-cell"))
            elif score[kept_levels[0]] != best:
                fails.append(F("B", "%s keeps the %s level %s with mean %s in the cell (p,l)=%s although level(s) %s have the best mean %s"
                               % (call, fl, kept_levels[0], score[kept_levels[0]], ck, [f for f in score if score[f] == best], best), "best:kept-level-not-best"))
        allowed = set(t for levels in cells.values() for evs in levels.values() for t, _ in evs)
        stray = [t for t in got if t not in allowed]
        if stray:
            fails.append(F("B", "%s keeps evaluations %s of %s groups that are not complete over %s" % (call, stray, fp, fl), "best:incomplete-full_p-group-kept"))
        for t, rows in got.items():
            if t in fin and rows != fin[t]:
                fails.append(F("B", "%s altered/cut the rows of evaluation %s" % (call, t), "best:rows-changed"))
                break
        tags.append("best:cells=%s" % min(len(cells), 3))
        if ties:
            tags.append("best:ties")
        # (A) is meaningful only when the code walks the levels in a reproducible order (sortable key columns) and exact
        # ties are float ties too (every evaluation mean is over a power-of-two number of integer rewards)
        cols = [c for c in aslist(l) + aslist(p) + aslist(fl) if c != "full_name"]
        sortable = all(coder.sortable(c) for c in cols) and "full_name" not in aslist(l) + aslist(p) + aslist(fl)
        pow2 = all((len(rows[:n]) & (len(rows[:n]) - 1)) == 0 for rows in fin.values())
        if not sortable:
            # the order of filter_best's `groups` list after `try: groups = sorted(groups) except: pass`, from Python's own
            # sorted() on the same tuples (key values of mixed type: it raises, or happens not to compare the odd pair)
            names = rec.get("full_names", {})

            def rk(cols, t):
                vals = [(names.get(t[1]) if c == "full_name" else d.cell(c, t)) for c in aslist(cols)]
                return tuple(vals) if isinstance(cols, (list, tuple)) else vals[0]
            idx = [(rk(p, t), rk(l, t), rk(fl, t), t) for t in fin]
            try:
                idx = sorted(idx)
                tags.append("best:order=sorted-by-python")
            except Exception:  # noqa
                tags.append("best:order=table(sorted-raised)")
            rec["best_order"] = [list(i[3]) for i in idx]
        a_ok = pow2 or not ties
        if not a_ok:
            tags.append("best:A-skipped")
        return len(cells) > 0 and len(fin) > len(got) > 0, a_ok

    # ---- (B) raw_contrast: for every pairing value that both labels have, the pairs (value under l1, value under l2)
    #      per x, values computed directly; only where each label has ONE evaluation per pairing value (otherwise the
    #      card='S' dict silently overwrites and the documentation does not say what is reported)
    def contrast_expected(self, st, pre):
        d = Direct(pre)
        l, x, p, span = st["l"], st["x"], st["p"], st.get("span")
        lcols = aslist(l)
        labs1, labs2 = contrast_labels(st)
        if any(a in labs2 for a in labs1):
            return "raise", d
        if not d.irows:
            return "raise", d
        sides = []
        for labs in (labs1, labs2):
            side = OrderedDict()          # pairing value -> [(t, rows)] label after label
            for vs in labs:
                evs = OrderedDict((t, rows) for t, rows in d.evals.items() if all(d.cell(c, t) == v for c, v in zip(lcols, vs)))
                keys = [d.key(p, t) for t in evs]
                if any(keys.count(k) > 1 for k in keys):
                    return "unpaired", d   # one label evaluated twice under one pairing value: the card='S' dict overwrites
                for t, rows in evs.items():
                    side.setdefault(d.key(p, t), []).append((t, rows))
            sides.append(side)
        if x == "index" and (len(labs1) > 1 or len(labs2) > 1):
            return "unpaired", d           # several labels zipped position by position: nothing documented; (A) only
        out = {}
        for k in sides[0]:
            if k not in sides[1]:
                continue
            for (t1, r1) in sides[0][k]:
                for (t2, r2) in sides[1][k]:
                    y1, y2 = [r[d.iy] for r in r1], [r[d.iy] for r in r2]
                    if x == "index":
                        for i, (a, b) in enumerate(zip(r1, r2)):
                            s1 = None if (span is None or span >= len(y1)) else span
                            s2 = None if (span is None or span >= len(y2)) else span
                            out.setdefault(a[d.ii], []).append((d.window_mean(y1, s1, i), d.window_mean(y2, s2, i)))
                    else:
                        x1, x2 = d.rawkey(x, t1), d.rawkey(x, t2)
                        lab = x1 if x1 == x2 else "%s-%s" % (x2, x1)
                        sp = None if not span else span
                        out.setdefault(lab, []).append((d.window_mean(y1, sp, len(y1) - 1), d.window_mean(y2, sp, len(y2) - 1)))
        return (out if out else "raise"), d

    def contrast_got(self, rec):
        cols, data = rec["table"]
        xs, ys = data[0], data[1]
        return {xv: list(pairs) for xv, pairs in zip(xs, ys)}

    @staticmethod
    def same_pairs(got, exp):
        if set(got) != set(exp):            # by ==/hash, as the code's own dict (0 == False == 0.0)
            return False
        for k in exp:
            def tok(v):
                f = float(v) if isinstance(v, (int, float)) else v.numerator / v.denominator
                return "nan" if f != f else repr(float(f))
            g = sorted([tok(a), tok(b)] for a, b in got[k])
            e = sorted([tok(a), tok(b)] for a, b in exp[k])
            if g != e:
                return False
        return True

    def check_contrast(self, st, rec, fails, tags, coder):
        call = "raw_contrast(%r,%r,x=%r,l=%r,p=%r,span=%r)" % (st["l1"], st["l2"], st["x"], st["l"], st["p"], st.get("span"))
        tags.append("contrast:x=%s" % ("index" if st["x"] == "index" else "params"))
        if st.get("multi"):
            tags.append("contrast:several-labels")
        if st["x"] == "index" and st.get("span") == 0:
            tags.append("contrast:undefined-span0")
            return False
        if st["x"] == "index" and st.get("span") and Direct(rec["pre"]).has_nonfinite():
            tags.append("contrast:windowed-non-finite(F5)")       # see C18-F5; raw_learners reports it
            return False
        exp, d = self.contrast_expected(st, rec["pre"])
        if rec.get("err") == "KeyError" and st["l"] == "learner_id":
            labs1, labs2 = contrast_labels(st)
            if any(v[0] not in d.L for v in labs1[:1] + labs2[:1]):
                tags.append("contrast:mixed-x-labels")      # (reuses the skip tag) the legend looks up the first label's full_name: an
                return False                                 # absent learner id as first of several labels is a caller error
        if rec.get("err") == "TypeError" and st["x"] != "index":
            mixed = isinstance(exp, dict) and len(set(type(k).__name__ for k in exp)) > 1
            unsortable = not all(coder.sortable(c) for c in aslist(st["x"]))
            if not unsortable:
                tags.append("contrast:TypeError-label-next-to-value")   # modelled (`strX`): (A) compares the exception
                if isinstance(exp, dict) and not mixed:
                    fails.append(F("B", "%s raised TypeError although all x labels %s are of one kind" % (call, list(exp)), "contrast:raises-TypeError"))
                return False
            if mixed or unsortable or exp == "unpaired":
                # raw_contrast sorts its x labels without the str fallback raw_learners has: 'b-a' strings next to plain
                # values (x not determined by p) or an x column of mixed types make sorted() raise; outside the statement
                tags.append("contrast:mixed-x-labels")
                return False
        if exp == "unpaired":
            tags.append("contrast:unpaired")
            return False
        if exp == "raise":
            tags.append("contrast:nothing-to-pair")
            if rec.get("err") != "CobaException":
                fails.append(F("B", "%s returned %s although there is nothing to pair" % (call, rec.get("table") or rec.get("err")), "contrast:should-raise"))
            return False
        if "err" in rec:
            fails.append(F("B", "%s raised %s (%s); a direct computation gives %s" % (call, rec["err"], rec.get("errmsg"), {str(k): [(str(a), str(b)) for a, b in v] for k, v in exp.items()}), "contrast:raises-" + rec["err"]))
            return False
        got = self.contrast_got(rec)
        if not self.same_pairs(got, exp):
            kind = "keys" if set(got) != set(exp) else "values"
            fails.append(F("B", "%s reports %s; pairing the directly computed averages by %s gives %s"
                           % (call, got, st["p"], {str(k): [(str(a), str(b)) for a, b in v] for k, v in exp.items()}), "contrast:%s-differ" % kind))
        return sum(len(v) for v in exp.values()) >= 2

    # ---- (B) plot_contrast (Phase 4): the recording plotter receives, for exactly the x labels of the pairing, the arithmetic
    #      mean of the contrasts (l2-l1, or int(l2-l1>0)) of the correctly paired, directly computed averages
    @staticmethod
    def plot_points(call):
        """data lines handed to the plotter (the grey boundary line excluded) -> [[(x, y, (lo, hi))]]"""
        out = []
        for ln in call["lines"]:
            if ln["color"] == "#888":
                continue
            ye = ln["YE"] if ln["YE"] is not None else [0] * len(ln["X"])
            out.append([(xv, yv, (tuple(e) if isinstance(e, (list, tuple)) else (e, e))) for xv, yv, e in zip(ln["X"], ln["Y"], ye)])
        return out

    @staticmethod
    def prints_differ(st, pre):
        """x values that are equal (one dict key: 1 == True == 1.0) but print differently: the str(x) labels of the win/tie/loss
        branch then depend on which of them was inserted first (set order) — not compared"""
        if st["x"] == "index":
            return False
        d = Direct(pre)
        vals = []
        for c in aslist(st["x"]):
            for t in d.evals:
                try:
                    vals.append(d.cell(c, t))
                except Exception:  # noqa
                    pass
        seen = {}
        for v in vals:
            try:
                if seen.setdefault(v, str(v)) != str(v):
                    return True
            except TypeError:
                pass
        return False

    def check_plot(self, st, rec, fails, tags, coder):
        pl, pr = st["plot"], rec["plot"]
        if self.prints_differ(st, rec["pre"]):
            tags.append("plotc:skipped-equal-values-print-differently")
            return
        call = "plot_contrast(%r,%r,x=%r,l=%r,p=%r,mode=%r,span=%r,err=%r,errevery=%r)" % (
            st["l1"], st["l2"], st["x"], st["l"], st["p"], pl["mode"], st.get("span"), pl.get("err"), pl.get("errevery"))
        tags.append("plotc:mode=%s" % pl["mode"])
        tags.append("plotc:err=%s" % pl.get("err"))
        if st["x"] == "index" and st.get("span") == 0:
            return
        d0 = Direct(rec["pre"])
        if d0.has_nonfinite():
            tags.append("plotc:skipped-non-finite")
            return
        if any(t in tags[-8:] for t in ("contrast:mixed-x-labels", "contrast:unpaired", "contrast:TypeError-label-next-to-value", "contrast:windowed-non-finite(F5)")):
            tags.append("plotc:B-skipped(as raw_contrast)")
            return
        exp, d = self.contrast_expected(st, rec["pre"])
        if exp == "unpaired":
            return
        if exp == "raise":
            tags.append("plotc:nothing-to-plot")
            if pr["calls"] or "err" in pr:
                fails.append(F("B", "%s handed %s to the plotter although there is nothing to pair" % (call, pr.get("err") or pr["calls"][0]["lines"]), "plotc:plots-nothing-to-pair"))
            return
        if "err" in pr:
            if "err" in rec and rec["err"] == pr["err"]:
                return                                  # raw_contrast itself raises: reported (or excused) there
            if pl.get("err") in ("sd", "se"):
                # observation O-P4 (notes): statistics.var's one-pass formula can come out slightly negative for (nearly) equal
                # contrasts, stdev = var**(1/2) is then complex and round() raises TypeError. Error bars are outside the statement.
                tags.append("plotc:ci-raises-%s(outside-statement)" % pr["err"])
                return
            fails.append(F("B", "%s raised %s (%s); raw_contrast on the same arguments does not" % (call, pr["err"], pr.get("errmsg")), "plotc:raises-" + pr["err"]))
            return
        if "err" in rec:
            return
        if len(pr["calls"]) != 1:
            fails.append(F("B", "%s called the plotter %d times" % (call, len(pr["calls"])), "plotc:plotter-calls"))
            return
        tags.append("plotc:plotted")
        kind = "index" if st["x"] == "index" else ("isL" if st["x"] == st["l"] else "other")
        tags.append("plotc:branch=%s" % kind)
        pts = [p for ln in self.plot_points(pr["calls"][0]) for p in ln]

        def contrast(a, b):
            return (b - a) if pl["mode"] == "diff" else Fraction(int(b - a > 0))
        want = {}
        for k, pairs in exp.items():
            zs = [contrast(Fraction(a), Fraction(b)) for a, b in pairs]
            want[str(k) if kind == "other" else k] = sum(zs) / len(zs)
        got = {}
        for xv, yv, _ in pts:
            got.setdefault(xv, []).append(yv)
        if set(got) != set(want) or any(len(v) != 1 for v in got.values()):
            fails.append(F("B", "%s plots the x values %s; pairing the evaluations by %s gives the x values %s" % (call, sorted(map(str, got)), st["p"], sorted(map(str, want))), "plotc:x-values-differ"))
            return
        bad = [(k, got[k][0], str(want[k])) for k in want if not (abs(Fraction(got[k][0]) - want[k]) <= Fraction(1, 10**9) * max(1, abs(want[k])))]
        if bad:
            fails.append(F("B", "%s plots y=%r at x=%r; the arithmetic mean of the %s of the paired, directly computed averages is %s (pairs %s)"
                           % (call, bad[0][1], bad[0][0], "differences l2-l1" if pl["mode"] == "diff" else "indicators [l2>l1]", bad[0][2],
                              [(str(a), str(b)) for a, b in [v for k, v in exp.items() if (str(k) if kind == "other" else k) == bad[0][0]][0]][:6]), "plotc:mean-of-paired-%s-differs" % pl["mode"]))
            return
        if pl.get("err") is None and any(e != (0, 0) for _, _, e in pts):
            fails.append(F("B", "%s draws error bars %s although err=None" % (call, [e for _, _, e in pts][:4]), "plotc:error-bars-without-err"))

    def correspond_plot(self, st, rec, driver, coder, fails, tags, req, m_raw, lab_of):
        """(A): the lines handed to the recording plotter vs. `plotContrast` of the Lean model"""
        pl, pr = st["plot"], rec["plot"]
        if pl.get("err") not in (None, "range"):
            tags.append("plotc:A-skipped-sqrt-interval")
            return
        if self.prints_differ(st, rec["pre"]):
            return
        x = st["x"]
        kind = "index" if x == "index" else ("isL" if x == st["l"] else "other")
        if kind == "isL" and st.get("multi"):
            return
        xord = None
        if x != "index" and "table" in rec:
            inv = {}
            for x1, x2, _ in m_raw.get("ok", []):
                inv.setdefault(lab_of(x1, x2), []).append([x1, x2])
            xs = list(rec["table"][1][0])
            if any(len(inv.get(v, [])) != 1 for v in xs) or len(xs) != len(inv):
                tags.append("plotc:A-skipped-ambiguous-labels")
                return
            xord = [inv[v][0] for v in xs]
        labs = None
        if x != "index" and not isinstance(x, (list, tuple)) and "ok" in m_raw:
            # phase 5: no order handed over — the model sorts the labels itself (`plotContrastPy`); the old `xord` path stays for
            # tuple labels, frozensets (order depends on the insertion order) and >= 64 labels
            lv = [[x1, x2, pyval(lab_of(x1, x2))] for x1, x2, _ in m_raw["ok"]]
            if all(e[2] is not None and e[2][0] != "fset" for e in lv) and len(lv) < 64:
                labs, xord = lv, None
                tags.append("plotc:A-sorted-in-model")
        ans = ask(driver, dict(req, kind="plotc", mode=pl["mode"], ci=("none" if pl.get("err") is None else "range"), errevery=pl.get("errevery"),
                               xkind=kind, xord=xord, labs=labs))
        m = ans["model"]
        if canonj(m) != canonj(ans["spec"]):
            fails.append(F("C", "model of plot_contrast differs from its spec", "C:plot_contrast"))
        sc = yscale(rec["pre"])
        if "err" in m:
            # CobaException is logged by plot_contrast, the plotter is not called; other errors propagate
            ok = (m["err"] == "CobaException" and not pr["calls"] and "err" not in pr) or (pr.get("err") == m["err"])
            if not ok:
                fails.append(F("A", "plot_contrast: implementation %s, model %s" % (pr.get("err") or ("%d plotter calls" % len(pr["calls"])), m["err"]), "A:plot_contrast-error"))
            return
        if "err" in pr or len(pr["calls"]) != 1:
            fails.append(F("A", "plot_contrast: implementation %s, model plots %s" % (pr.get("err") or ("%d plotter calls" % len(pr["calls"])), canonj(m)[:200]), "A:plot_contrast-error"))
            return
        tags.append("plotc:A-applied")
        scale_y = sc if pl["mode"] == "diff" else 1
        mlines = [[((x1[0] if x == "index" else lab_of(x1, x2)), unq(y) / scale_y, unq(lo) / scale_y, unq(hi) / scale_y) for x1, x2, y, lo, hi in ln] for ln in m["ok"]]
        ilines = self.plot_points(pr["calls"][0])
        tol = Fraction(1, 10**9)

        def near(a, b):
            return abs(Fraction(a) - b) <= tol * max(1, abs(b))

        def same():
            if len(mlines) != len(ilines):
                return False
            for ml, il in zip(mlines, ilines):
                if len(ml) != len(il):
                    return False
                for (mx, my, mlo, mhi), (ix, iy, (ilo, ihi)) in zip(ml, il):
                    if (str(mx) if kind == "other" else mx) != ix or not (near(iy, my) and near(ilo, mlo) and near(ihi, mhi)):
                        return False
            return True
        if same():
            return
        # float noise can only matter where an exactly computed bound touches the boundary / two y coincide
        b = Fraction(0) if pl["mode"] == "diff" else Fraction(1, 2)
        allp = [p for ln in mlines for p in ln]
        vals_exact = all(Fraction(float(v)).denominator <= 2**20 for prs in rec["table"][1][1] for ab in prs for v in ab)
        touching = any(abs(p[1] + p[3] - b) < tol or abs(p[1] - p[2] - b) < tol for p in allp)
        close_y = any(p1[1] != p2[1] and abs(p1[1] - p2[1]) < tol for i, p1 in enumerate(allp) for p2 in allp[i + 1:])
        if kind == "other" and not vals_exact and (touching or close_y or any(p1[1] == p2[1] for i, p1 in enumerate(allp) for p2 in allp[i + 1:])):
            tags.append("plotc:A-fragile-float-boundary")
            return
        fails.append(F("A", "plot_contrast(%r,%r,x=%r,l=%r,p=%r,mode=%r,span=%r,err=%r,errevery=%r): plotter received %s, model %s"
                       % (st["l1"], st["l2"], x, st["l"], st["p"], pl["mode"], st.get("span"), pl.get("err"), pl.get("errevery"),
                          [[(ix, iy, e) for ix, iy, e in il] for il in ilines][:3], [[(str(mx), str(my), str(mlo), str(mhi)) for mx, my, mlo, mhi in ml] for ml in mlines][:3]), "A:plot_contrast"))

    # ---- (B) raw_learners
    def check_raw(self, st, rec, fails, tags):
        pre = rec["pre"]
        x, l, p, span = st["x"], st["l"], st.get("p"), st.get("span")
        tags.append("raw:x=%s" % ("index" if x == "index" else "params"))
        tags.append("raw:span=%s" % span)
        tags.append("raw:p=%s" % ("none" if p is None else "given"))
        d = Direct(pre, st.get("y", "reward"))

        def expected(legacy, sim=None, sticky=False):
            if not d.irows:
                return None
            if p:
                if sim is None:
                    evs = d.fin("min" if x == "index" else None, l, p, legacy)
                else:
                    evs = d.fin_sorted_adjacent("min" if x == "index" else None, l, p, sim)
                if not evs:
                    return None
            else:
                evs = d.evals
            return d.raw(evs, x, l, span, sticky) if sim is None else d.raw_sorted_adjacent(evs, x, l, span)
        if x == "index" and span == 0 and any(len(r) > 0 for r in d.evals.values()):
            tags.append("raw:undefined-span0")       # the mean of the last 0 values is not defined: only (A) applies
            return False
        exp = expected(False)
        call = "raw_learners(x=%r,l=%r,p=%r,span=%r)" % (x, l, p, span)

        def matches(e):
            if e is None:
                return rec.get("err") == "CobaException"
            if "err" in rec:
                return False
            got = table_to_dict(rec, st, d)
            # a cell holding the single value NaN cannot be told from raw_learners' own "no data" placeholder [nan]
            e = OrderedDict((k, v) for k, v in e.items() if not (len(v) == 1 and isinstance(v[0], float) and v[0] != v[0]))
            if set(got) != set(e):
                return False
            return all(len(got[k]) == len(e[k]) and all(same_number(a, b) for a, b in zip(got[k], e[k])) for k in e)
        if not matches(exp):
            partial = d.col_has_partial_order(p) or d.col_has_partial_order(l)
            if x == "index" and span and d.has_nonfinite() and matches(expected(False, sticky=True)):
                tags.append("f5")
                fails.append(F("B", "%s: after a NaN/inf reward every later windowed average is NaN although its window holds finite rewards only "
                               "(moving_average takes differences of running sums: nan-nan, inf-inf); a direct computation gives %s" % (call, fmt(exp)), F5_SIG))
            elif p and matches(expected(True)):
                tags.append("p15")
                fails.append(F("B", "%s reports averages over a %s-group with a duplicate %s level and a missing one" % (call, p, l), P15_SIG))
            elif partial and any(matches(expected(False, sim=rule)) for rule in (True, False)):
                tags.append("f2")
                fails.append(F("B", "%s groups by sorted()+adjacency although the %s values are only partially ordered (frozensets): "
                               "a group is split / a label column is overwritten; a direct computation gives %s" % (call, "p" if d.col_has_partial_order(p) else "l", fmt(exp)), F2_SIG))
            elif "err" in rec:
                fails.append(F("B", "%s raised %s (%s) although there is data to report: expected %s" % (call, rec["err"], rec.get("errmsg"), fmt(exp)), "raw:raises-" + rec["err"]))
            elif exp is None:
                fails.append(F("B", "%s returned a table although no %s is finished for every %s" % (call, p, l), "raw:should-raise"))
            else:
                got = table_to_dict(rec, st, d)
                mode = "final" if x != "index" else ("progressive" if (span is None) else "windowed")
                d.naive_int_first = True
                naive = x != "index" and matches(expected(False))
                d.naive_int_first = False
                if set(got) != set(exp):
                    fails.append(F("B", "%s reports the (l,x) pairs %s, a direct computation gives %s" % (call, sorted(map(str, got)), sorted(map(str, exp))), "raw:keys-differ:" + mode))
                elif naive:
                    k = [k for k in exp if not (len(got[k]) == len(exp[k]) and all(same_number(a, b) for a, b in zip(got[k], exp[k])))][0]
                    fails.append(F("B", "%s reports %s for (l,x)=%s; the exact average of the interaction rows, rounded once, is %s — the reported value is what a plain left-to-right float "
                                   "sum gives for the evaluations whose y column starts with an int (mixed int/float y column)" % (call, got[k], k, [repr(float(v)) for v in exp[k]]),
                                   "raw:final-average-int-first-sample-summed-naively"))
                else:
                    k = [k for k in exp if not (len(got[k]) == len(exp[k]) and all(same_number(a, b) for a, b in zip(got[k], exp[k])))][0]
                    fails.append(F("B", "%s reports %s for (l,x)=%s, a direct computation from the interaction rows gives %s" % (call, got[k], k, [str(v) for v in exp[k]]), "raw:values-differ:" + mode))
        if exp is None:
            tags.append("raw:nothing-to-plot")
        return exp is not None and sum(len(v) for v in exp.values()) >= 2

    # ---- (A)
    def correspond(self, st, rec, driver, coder, fails, tags):
        pre = rec["pre"]
        op = st["op"]
        res = model_result(pre, coder, st.get("y", "reward"))
        if op == "where_fin":
            l, p = st.get("l"), st.get("p")
            lp = None if not (l or p) else {"l": col_refs(pre, l), "p": col_refs(pre, p)}
            ans = ask(driver, {"kind": "fin", "res": res, "n": st.get("n"), "lp": lp})
            impl = {"err": rec["err"]} if "err" in rec else {"ok": model_result(rec["post"], coder)}
            self.cmp_models("where_fin(n=%r,l=%r,p=%r)" % (st.get("n"), l, p), impl, ans, fails, "A:where_fin")
            if ans["hyp"] and ans["allref"] and canonj(ans["joint"]) != canonj(ans["specJ"]):
                fails.append(F("C", "model of where_fin with the length step first differs from the joint spec: %s vs %s" % (canonj(ans["joint"])[:300], canonj(ans["specJ"])[:300]), "C:where_fin-joint"))
            if ans["hyp"] and (lp is not None or ans["allref"]) and canonj(ans["model"]) != canonj(ans["spec"]):
                fails.append(F("C", "model of where_fin differs from its spec although the hypotheses hold: %s vs %s" % (canonj(ans["model"])[:300], canonj(ans["spec"])[:300]), "C:where_fin"))
            if not ans["hyp"]:
                tags.append("hyp:false")
            if lp is not None and "post" in rec and "post_complete" in rec and int_ok(rec["post"]):
                pcm = ask(driver, {"kind": "complete", "res": model_result(rec["post"], coder), "l": lp["l"], "p": lp["p"]})
                if pcm["model"] != {"ok": rec["post_complete"]}:
                    fails.append(F("A", "pairingComplete on the result of where_fin(n=%r,l=%r,p=%r): model %s, direct evaluation %s"
                                   % (st.get("n"), l, p, pcm["model"], rec["post_complete"]), "A:pairingComplete"))
                elif ans["hyp"] and pcm["model"] != {"ok": True} and canonj(impl) == canonj(ans["joint"]):
                    fails.append(F("C", "the result of the model's where_fin is not completely paired although the hypotheses hold", "C:pairingComplete"))
            return ans["model"]
        if op == "raw_contrast":
            l, x = st["l"], st["x"]
            if self.prints_differ(st, pre):
                # 1 == True == 1.0 are one value for the model (and one dict key for coba) but print differently inside the
                # f"{x2}-{x1}" labels: which label comes out depends on the insertion order — not modelled
                tags.append("contrast:A-skipped-equal-values-print-differently")
                return None
            lcols = aslist(l)
            tbl_of = {}
            for tb, idc in (("env", "environment_id"), ("lrn", "learner_id"), ("val", "evaluator_id")):
                for c in pre[tb][0]:
                    tbl_of.setdefault(c, (tb, idc))

            def sel(vals):
                out = []
                for c, v in zip(lcols, vals):
                    tb, idc = tbl_of[c]
                    cols = [cc for cc in pre[tb][0] if cc != idc]
                    out.append({"tbl": tb, "j": (None if c == idc else cols.index(c)), "v": (v if c == idc else coder.code(c, v))})
                return out
            labs1, labs2 = contrast_labels(st)
            if not all(isinstance(v, int) and not isinstance(v, bool) for vs in labs1 + labs2 for c, v in zip(lcols, vs) if c in ID_COLS):
                return None
            dd = Direct(pre)
            strx = x != "index" and all(isinstance(dd.cell(c, t), str) for t in dd.evals for c in aslist(x)) and not isinstance(x, (list, tuple))
            req = {"kind": "contrast", "res": res, "sels1": [sel(v) for v in labs1], "sels2": [sel(v) for v in labs2],
                   "p": col_refs(pre, st["p"]), "x": ("index" if x == "index" else col_refs(pre, x)), "span": st.get("span"),
                   "strx": bool(strx)}
            mixedx = x != "index" and not isinstance(x, (list, tuple)) and not coder.sortable(x)
            if mixedx:
                req["strx"] = True          # the model's own label-next-to-value rule is replaced by `pySorted` on the actual labels
            ans = ask(driver, req)
            m = ans["model"]
            inv = {c: {code: val for val, code in list(coder.cols[c][0].items()) + list(coder.cols[c][1])} for c in coder.cols}

            def real(cols, key):
                vals = [(k if (c in ID_COLS or c == "index") else inv[c].get(k)) for c, k in zip(aslist(cols), key)]
                return tuple(vals) if isinstance(cols, (list, tuple)) else vals[0]

            def lab_of(x1, x2):
                if x == "index":
                    return x1[0]
                a_, b_ = real(x, x1), real(x, x2)
                return a_ if a_ == b_ else "%s-%s" % (b_, a_)
            if x != "index" and not isinstance(x, (list, tuple)) and "ok" in m:
                # goal 2: the final `sorted(XY.items())` — Python's outcome (TypeError / order of the x labels) vs. `pySorted`
                labels = list(dict.fromkeys(lab_of(x1, x2) for x1, x2, _ in m["ok"]))
                enc = [pyval(v) for v in labels]
                if any(e is None for e in enc) or len(enc) >= 64:
                    tags.append("pysort:skipped-unmodelled-value")
                    if mixedx:
                        return None
                else:
                    # phase 5: the sort is part of the model (`rawContrastPy`): only the Python value of each label crosses
                    mp = ask(driver, dict(req, labs=[[x1, x2, pyval(lab_of(x1, x2))] for x1, x2, _ in m["ok"]]))
                    mpy = mp["modelpy"]
                    tags.append("contrast:sorted-in-model:%s%s" % ("TypeError" if "err" in mpy else "ok", ":mixed-column" if mixedx else ""))
                    if canonj(mpy) != canonj(mp["specpy"]):
                        fails.append(F("C", "model of raw_contrast (with its sorted()) differs from its spec", "C:raw_contrast-py"))
                    if "err" in mpy:
                        if rec.get("err") != mpy["err"]:
                            fails.append(F("A", "raw_contrast(x=%r) over the x labels %r: implementation %s, the model (sorted() inside) raises %s"
                                           % (x, labels, rec.get("err") or "returns a table", mpy["err"]), "A:raw_contrast-sorted-in-model"))
                    elif rec.get("err") == "TypeError":
                        fails.append(F("A", "raw_contrast(x=%r) raised TypeError; the model (sorted() inside) returns the x labels %r"
                                       % (x, [lab_of(x1, x2) for x1, x2, _ in mpy["ok"]]), "A:raw_contrast-sorted-in-model"))
                    elif "table" in rec and not any(e[0] == "fset" for e in enc):
                        mx = [lab_of(x1, x2) for x1, x2, _ in mpy["ok"]]
                        if [pyval(v) for v in mx] != [pyval(v) for v in rec["table"][1][0]]:
                            fails.append(F("A", "raw_contrast(x=%r): x labels come out as %r, the model (sorted() inside) gives %r"
                                           % (x, list(rec["table"][1][0]), mx), "A:raw_contrast-sorted-in-model-order"))
                    ps = ask(driver, {"kind": "pysort", "vals": enc})["model"]
                    tags.append("pysort:%s%s" % ("TypeError" if "err" in ps else "ok", ":mixed-column" if mixedx else ""))
                    if "err" in ps:
                        if rec.get("err") != ps["err"]:
                            fails.append(F("A", "raw_contrast(x=%r): sorted() over the x labels %r: implementation %s, model of sorted() raises %s"
                                           % (x, labels, rec.get("err") or "returns a table", ps["err"]), "A:raw_contrast-sorted"))
                        return m
                    if rec.get("err") == "TypeError":
                        fails.append(F("A", "raw_contrast(x=%r) raised TypeError; the model of sorted() orders the x labels %r without raising" % (x, labels), "A:raw_contrast-sorted"))
                        return m
                    if len(enc) >= 2 and all(e[0] in ("num", "str") for e in enc):
                        # phase 6 (`py_sorted_perm`, `py_sorted_sorted`, `py_sorted_order_independent`): the model's output is a
                        # sorted permutation of the labels, and every other arrival order of the same labels gives the same list —
                        # in the model (run-time guard of the theorems) and in Python's own `sorted` (tie of `pySorted` to CPython)
                        try:
                            py_sorted = sorted(labels)
                        except TypeError:
                            py_sorted = None
                        if py_sorted is not None:
                            if [pyval(v) for v in py_sorted] != ps["ok"]:
                                fails.append(F("A", "sorted(%r) gives %r, the model of sorted() gives %r" % (labels, py_sorted, ps["ok"]), "A:pysort-direct"))
                            if sorted(map(canonj, ps["ok"])) != sorted(map(canonj, enc)):
                                fails.append(F("C", "model of sorted() over %r does not return a permutation: %r" % (labels, ps["ok"]), "C:pysort-perm"))
                            if any(py_sorted[i + 1] < py_sorted[i] for i in range(len(py_sorted) - 1)):
                                fails.append(F("C", "the order %r that the model of sorted() agrees with is not ascending" % (py_sorted,), "C:pysort-sorted"))
                            n_ = len(labels)
                            arrangements = [("reversed", labels[::-1]), ("rotated", labels[1:] + labels[:1]),
                                            ("interleaved", labels[::2] + labels[1::2][::-1]), ("mid-first", labels[n_ // 2:] + labels[:n_ // 2][::-1])]
                            for nm, arr in arrangements:
                                pp = ask(driver, {"kind": "pysort", "vals": [pyval(v) for v in arr]})["model"]
                                if pp != ps:
                                    fails.append(F("C", "model of sorted(): the %s arrangement %r of the labels %r gives %r instead of %r" % (nm, arr, labels, pp, ps), "C:pysort-order-dependent"))
                                if [pyval(v) for v in sorted(arr)] != ps["ok"]:
                                    fails.append(F("A", "sorted(%r) (the %s arrangement) gives %r, the model of sorted() gives %r" % (arr, nm, sorted(arr), ps["ok"]), "A:pysort-arrangement"))
                            tags.append("pysort:perm-invariant:%s" % ("n=2" if n_ == 2 else "n=3-4" if n_ <= 4 else "n>=5"))
                    if "table" in rec and not any(e[0] == "fset" for e in enc):
                        got_x = [pyval(v) for v in rec["table"][1][0]]
                        if got_x != ps["ok"]:
                            fails.append(F("A", "raw_contrast(x=%r): x labels come out as %r, the model of sorted() gives %r" % (x, list(rec["table"][1][0]), ps["ok"]), "A:raw_contrast-sorted-order"))
            if st.get("plot") and "plot" in rec and (rec.get("err") == m.get("err")):
                self.correspond_plot(st, rec, driver, coder, fails, tags, req, m, lab_of)
            if "err" in rec or "err" in m:
                if rec.get("err") != m.get("err"):
                    fails.append(F("A", "raw_contrast: implementation %s, model %s" % (rec.get("err") or "table", canonj(m)[:300]), "A:raw_contrast"))
                return m
            exp = {}
            for x1, x2, pairs in m["ok"]:
                if x == "index":
                    lab = x1[0]
                else:
                    a, b = real(x, x1), real(x, x2)
                    lab = a if a == b else "%s-%s" % (b, a)
                exp.setdefault(lab, []).extend((unq(pq[0]) / yscale(pre), unq(pq[1]) / yscale(pre)) for pq in pairs)
            got = self.contrast_got(rec)
            if not self.same_pairs(got, exp):
                fails.append(F("A", "raw_contrast(%r,%r,x=%r,l=%r,p=%r,span=%r): implementation %s, model %s" % (st["l1"], st["l2"], x, l, st["p"], st.get("span"), got, {str(k): [(str(a), str(b)) for a, b in v] for k, v in exp.items()}), "A:raw_contrast"))
            if canonj(ans["model"]) != canonj(ans["spec"]):
                fails.append(F("C", "model of raw_contrast differs from its spec", "C:raw_contrast"))
            return m
        if op == "where_best":
            ans = ask(driver, {"kind": "best", "res": res, "l": col_refs(pre, st["l"]), "p": col_refs(pre, st["p"]), "n": st.get("n"),
                               "fl": col_refs(pre, st.get("full_l", "learner_id")), "fp": col_refs(pre, st.get("full_p", "environment_id")),
                               "order": rec.get("best_order")})
            impl = {"err": rec["err"]} if "err" in rec else {"ok": model_result(rec["post"], coder)}
            if canonj(impl) != canonj(ans["model"]):
                fails.append(F("A", "where_best(l=%r,p=%r,n=%r): implementation %s, model %s" % (st["l"], st["p"], st.get("n"), canonj(impl)[:400], canonj(ans["model"])[:400]), "A:where_best"))
            if ans["hyp"] and canonj(ans["model"]) != canonj(ans["spec"]):
                fails.append(F("C", "model of where_best differs from its spec: %s vs %s" % (canonj(ans["model"])[:300], canonj(ans["spec"])[:300]), "C:where_best"))
            return ans["model"]
        if op == "where":
            col, arg = st["kw"][0]
            tb = st["tbl"]
            idc = {"env": "environment_id", "lrn": "learner_id", "val": "evaluator_id"}[tb]
            cols = [c for c in pre[tb][0] if c != idc]
            j = None if col == idc else cols.index(col)
            vals = [dv(x) for x in arg] if isinstance(arg, list) else [dv(arg)]
            codes = [(v if j is None else coder.code(col, v)) for v in vals]
            if j is None and not all(isinstance(v, int) for v in vals):
                return None
            ans = ask(driver, {"kind": "where", "res": res, "tbl": tb, "j": j, "vals": codes})
            impl = {"err": rec["err"]} if "err" in rec else {"ok": model_result(rec["post"], coder)}
            if canonj(impl) != canonj(ans["model"]):
                fails.append(F("A", "where(%s=%r): implementation %s, model %s" % (col, arg, canonj(impl)[:400], canonj(ans["model"])[:400]), "A:where"))
            return ans["model"]
        if op == "raw_learners":
            x, l, p = st["x"], st["l"], st.get("p")
            ans = ask(driver, {"kind": "raw", "res": res, "x": ("index" if x == "index" else col_refs(pre, x)), "l": col_refs(pre, l),
                              "p": (None if p is None else col_refs(pre, p)), "span": st.get("span")})
            if "err" in rec:
                impl = {"err": rec["err"]}
            else:
                d = Direct(pre, st.get("y", "reward"))
                got = table_to_dict(rec, st, d)

                def ck(cols, key):
                    out = []
                    for c, v in zip(aslist(cols), key):
                        out.append(v if (c in ID_COLS or c in ("full_name", "index")) else coder.code(c, v))
                    return out
                impl = {"ok": sorted([[ck(l, lk), ck(x, xk), vs] for (lk, xk), vs in got.items()], key=lambda e: json.dumps(e[:2]))}

            def same(m):
                if "err" in impl or "err" in m:
                    return impl.get("err") == m.get("err")
                mm = sorted(m["ok"], key=lambda e: json.dumps(e[:2]))
                if [e[:2] for e in mm] != [e[:2] for e in impl["ok"]]:
                    return False
                sc = yscale(pre, st.get("y", "reward"))
                return all(len(a[2]) == len(b[2]) and all(same_number(u, unq(w) / sc) for u, w in zip(a[2], b[2])) for a, b in zip(impl["ok"], mm))
            if not same(ans["model"]) and not same(ans["legacy"]):
                fails.append(F("A", "raw_learners(x=%r,l=%r,p=%r,span=%r): implementation %s, model %s" % (x, l, p, st.get("span"), json.dumps(impl, default=str)[:400], canonj(ans["model"])[:400]), "A:raw_learners"))
            if ans["hyp"] and canonj(ans["model"]) != canonj(ans["spec"]):
                fails.append(F("C", "model of raw_learners differs from its spec: %s vs %s" % (canonj(ans["model"])[:300], canonj(ans["spec"])[:300]), "C:raw_learners"))
            return ans["model"]
        return None

    def cmp_models(self, call, impl, ans, fails, sig):
        ci = canonj(impl)
        if ci == canonj(ans["model"]):
            return
        if ci == canonj(ans["legacy"]):
            return      # the code without fixes/C18-group-p-duplicate-level.diff; (B) reports the defect on this very case
        if "joint" in ans and ci == canonj(ans["joint"]):
            return      # the code with fixes/C18-length-drop-before-pairing.diff (C18-F3)
        fails.append(F("A", "%s: implementation %s, model %s" % (call, ci[:500], canonj(ans["model"])[:500]), sig))

    # ---- moving_average
    def eval_ma_nonfinite(self, case):
        """unweighted moving_average over values with NaN / +inf: (B) only, IEEE-aware textbook value"""
        fails, tags = [], ["op:moving_average", "ma:non-finite"]
        vs = [tofl(p) for p in case["vs"]]
        span = case.get("span")
        out = run_case(case)[0]
        call = "moving_average(%s, span=%r)" % (vs, span)
        if span == 0 and vs:
            return {"fails": fails, "nontrivial": False, "tags": tags + ["ma:undefined"], "impl": str(out), "model": None}

        def textbook(sticky):
            res = []
            for i in range(len(vs)):
                lo = 0 if (span is None or span >= len(vs)) else max(0, i + 1 - span)
                res.append(nf_mean(vs[lo:i + 1], vs[:lo] if sticky else ()))
            return res
        exp = textbook(False)
        if "err" in out:
            fails.append(F("B", "%s raised %s; textbook value %s" % (call, out["err"], [str(x) for x in exp]), "ma:raises-%s:non-finite" % out["err"]))
        elif not (len(out["ok"]) == len(exp) and all(same_number(a, b) for a, b in zip(out["ok"], exp))):
            st = textbook(True)
            if span and len(out["ok"]) == len(st) and all(same_number(a, b) for a, b in zip(out["ok"], st)):
                tags.append("f5")
                fails.append(F("B", "%s returned %s: every window after the non-finite value is NaN; textbook sliding mean %s" % (call, out["ok"], [str(x) for x in exp]), F5_SIG))
            else:
                fails.append(F("B", "%s returned %s; textbook definition gives %s" % (call, out["ok"], [str(x) for x in exp]), "ma:differs:non-finite"))
        return {"fails": fails, "nontrivial": len(vs) >= 3, "tags": tags, "impl": str(out), "model": None}

    def eval_ma(self, case, driver):
        if any(isinstance(p, str) for p in case["vs"]):
            return self.eval_ma_nonfinite(case)
        fails, tags = [], []
        vs = [unq(p) for p in case["vs"]]
        span, w = case.get("span"), case.get("w")
        out = run_case(case)[0]
        kind = "exp" if w == "exp" else ("weighted" if isinstance(w, list) else "plain")
        tags += ["op:moving_average", "ma:" + kind, "ma:span=%s" % ("None" if span is None else ("ge-len" if span >= len(vs) else span if span < 3 else "k"))]
        ws = [unq(p) for p in w] if isinstance(w, list) else None
        call = "moving_average(%s, span=%r, weights=%s)" % ([str(v) for v in vs], span, w if ws is None else [str(x) for x in ws])
        # (B) textbook definition, computed directly
        exp = None
        defined = True
        exact = True
        if ws is not None and len(ws) != len(vs):
            defined = False                      # the documented assert
        elif w == "exp":
            if span is None or span < 1:
                defined = False
            else:
                b = 1 - Fraction(2, 1 + span)
                exp = [sum(b ** i * vs[t - i] for i in range(t + 1)) / sum(b ** i for i in range(t + 1)) for t in range(len(vs))]
                exact = (span + 1) & span == 0 and len(vs) <= 12
        else:
            wl = ws if ws else [Fraction(1)] * len(vs)
            exp = []
            for i in range(len(vs)):
                lo = 0 if span is None else max(0, i + 1 - span)
                den = sum(wl[lo:i + 1])
                if den == 0:
                    defined = False
                    break
                exp.append(sum(a * b for a, b in zip(vs[lo:i + 1], wl[lo:i + 1])) / den)
        if defined:
            if "err" in out:
                fails.append(F("B", "%s raised %s; textbook value %s" % (call, out["err"], [str(x) for x in exp]), "ma:raises-%s:%s" % (out["err"], kind)))
            else:
                got = out["ok"]
                ok = len(got) == len(exp) and all(close(a, b, exact) for a, b in zip(got, exp))
                if not ok:
                    fails.append(F("B", "%s returned %s; textbook definition gives %s" % (call, got, [str(x) for x in exp]),
                                   "ma:differs:%s:%s" % (kind, "progressive" if (span is None or span >= len(vs)) else "windowed")))
        else:
            tags.append("ma:undefined")
        model = None
        if driver is not None and defined:      # where the textbook value is undefined (a window of total weight 0,
            # violated assert, span<1 for 'exp') the statement demands nothing, so nothing is compared
            ans = ask(driver, {"kind": "ma", "vs": case["vs"], "span": span, "w": w})
            model = ans["model"]
            if "err" in out or "err" in model:
                if out.get("err") != model.get("err"):
                    fails.append(F("A", "%s: implementation %s, model %s" % (call, out, model), "A:moving_average:" + kind))
            else:
                mo = [unq(p) for p in model["ok"]]
                if not (len(mo) == len(out["ok"]) and all(close(a, b, exact) for a, b in zip(out["ok"], mo))):
                    fails.append(F("A", "%s: implementation %s, model %s" % (call, out["ok"], [str(x) for x in mo]), "A:moving_average:" + kind))
            if defined and canonj(ans["model"]) != canonj(ans["spec"]):
                fails.append(F("C", "%s: model %s, spec %s" % (call, ans["model"], ans["spec"]), "C:moving_average"))
        impl = {"ok": [str(x) for x in out["ok"]]} if "ok" in out else out
        return {"fails": fails, "nontrivial": len(vs) >= 3 and defined, "tags": tags, "impl": impl, "model": model}

    # ---------------------------------------------------------------- shrinking / replay
    def shrink(self, case):
        if case["kind"] == "sortlaw":
            vals = case["vals"]
            for k in range(len(vals)):
                if len(vals) > 2:
                    yield {"kind": "sortlaw", "vals": vals[:k] + vals[k + 1:]}
            return
        if case["kind"] == "law05":
            for n in case["ns"]:
                yield {"kind": "law05", "ns": [n]}
            return
        if case["kind"] == "ma":
            vs = case["vs"]
            for k in range(len(vs)):
                c = dict(case, vs=vs[:k] + vs[k + 1:])
                if isinstance(case.get("w"), list) and len(case["w"]) == len(vs):
                    c["w"] = case["w"][:k] + case["w"][k + 1:]
                yield c
            for k in range(len(vs)):
                if vs[k] != [0, 1]:
                    yield dict(case, vs=vs[:k] + [[1, 1] if vs[k] != [1, 1] else [0, 1]] + vs[k + 1:])
            if case.get("span"):
                yield dict(case, span=case["span"] - 1)
            return
        if case["kind"] == "inc":
            fin, sched = case["final"], case["sched"]
            for k in range(len(fin)):
                if len(fin) > 1:
                    yield dict(case, final=fin[:k] + fin[k + 1:])
            for k in range(len(sched)):
                if "look" in sched[k]:
                    yield dict(case, sched=sched[:k] + sched[k + 1:])
            for k in range(len(sched) - 1, -1, -1):
                if "ins" in sched[k] and len(sched[k]["ins"]) > 1:
                    yield dict(case, sched=sched[:k] + [{"ins": sched[k]["ins"][:-1]}] + sched[k + 1:])
                elif "ins" in sched[k] and sum(1 for o in sched if "ins" in o) > 1:
                    yield dict(case, sched=sched[:k] + sched[k + 1:])
            if case.get("extra"):
                yield dict(case, extra=False)
            if case.get("rk"):
                yield {k: v for k, v in case.items() if k != "rk"}
            return
        steps = case["steps"]
        for k in range(len(steps)):
            if len(steps) > 1:
                yield dict(case, steps=steps[:k] + steps[k + 1:])
        evals = case["evals"]
        for k in range(len(evals)):
            yield dict(case, evals=evals[:k] + evals[k + 1:])
        for k in range(len(evals)):
            e = evals[k]
            if len(e[3]) > 1:
                yield dict(case, evals=evals[:k] + [[e[0], e[1], e[2], e[3][:-1]]] + evals[k + 1:])
        used = {0: set(e[0] for e in evals), 1: set(e[1] for e in evals), 2: set(e[2] for e in evals)}
        for name, pos in (("envs", 0), ("lrns", 1), ("vals", 2)):
            rows = case[name]
            for k in range(len(rows)):
                if rows[k][0] not in used[pos] and len(rows) > 1:
                    yield dict(case, **{name: rows[:k] + rows[k + 1:]})
        if case.get("extra"):
            yield dict(case, extra=False)
        for flag in ("rev", "rk"):
            if case.get(flag):
                yield {k: v for k, v in case.items() if k != flag}
        for k in range(len(evals)):
            e = evals[k]
            if any(y != 1 for y in e[3]):
                yield dict(case, evals=evals[:k] + [[e[0], e[1], e[2], [1] * len(e[3])]] + evals[k + 1:])
        for k, st in enumerate(steps):
            if st.get("span") is not None:
                yield dict(case, steps=steps[:k] + [dict(st, span=None)] + steps[k + 1:])
            if st["op"] == "where_fin" and st.get("n") not in (None,):
                yield dict(case, steps=steps[:k] + [dict(st, n=None)] + steps[k + 1:])
            for key in ("l", "p", "x"):
                if isinstance(st.get(key), list) and len(st[key]) == 1:
                    yield dict(case, steps=steps[:k] + [dict(st, **{key: st[key][0]})] + steps[k + 1:])

    def snippet(self, case):
        if case["kind"] == "sortlaw":
            return ("import itertools\nvals = %r\nfor arr in itertools.islice(itertools.permutations(vals), 200):\n    try: print(list(arr), sorted(arr))\n"
                    "    except TypeError as e: print(list(arr), 'TypeError')\n" % (case["vals"],))
        if case["kind"] == "law05":
            return "for n in %r:\n    print(n, max(int(n*0.05),1), max(n//20,1))\n" % (case["ns"][:20],)
        if case["kind"] == "ma":
            vs = [tofl(p) for p in case["vs"]]
            w = case.get("w")
            w = [tofl(p) for p in w] if isinstance(w, list) else w
            return ("import sys; sys.path.insert(0, %r)\nfrom coba.results.core import moving_average\n"
                    "print(list(moving_average(%r, %r, %r)))\n" % (os.environ.get("COBA_REPO", "/repo"), vs, case.get("span"), w))
        if case["kind"] == "inc":
            return ("import sys, json; sys.path.insert(0, %r); sys.path.insert(0, %r)\n"
                    "from props.c18 import run_inc, canonj\ncase = json.loads(%r)\n"
                    "# builds the Result incrementally (Table.insert batches %s, style %r) and in one go, then runs the same analysis on both\n"
                    "got, exp, err = run_inc(case)\nprint(err)\n"
                    "for st, g, e in zip(['tables'] + case['final'], got or [], exp):\n"
                    "    print(st, 'SAME' if canonj(g) == canonj(e) else ('incremental: ' + canonj(g)[:600] + '  one-shot: ' + canonj(e)[:600]))\n"
                    % (os.environ.get("COBA_REPO", "/repo"), os.path.dirname(os.path.dirname(os.path.abspath(__file__))), json.dumps(case),
                       [op.get("ins", op.get("look")) for op in case["sched"]], case["style"]))
        envs = [["environment_id"] + list(case["env_cols"])] + [[dv(x) for x in r] for r in case["envs"]]
        lrns = [["learner_id"] + list(case["lrn_cols"])] + [[dv(x) for x in r] for r in case["lrns"]]
        vals = [["evaluator_id"] + list(case["val_cols"])] + [[dv(x) for x in r] for r in case["vals"]]
        lines = ["import sys; sys.path.insert(0, %r)" % os.environ.get("COBA_REPO", "/repo"),
                 "from coba.results.core import Result", "from coba.context import CobaContext, NullLogger", "CobaContext.logger = NullLogger()",
                 "ints = [['environment_id','learner_id','evaluator_id','index','reward'%s]]" % (",'z'" if case.get("extra") else ""),
                 "for e,l,v,ys in %r:" % (case["evals"],),
                 "    for i,y in enumerate(ys,1): ints.append([e,l,v,i,%s]%s)" % ({"bin": "y%2", "bool": "bool(y%2)", "dyadic": "y/4", "nf": "(float('nan') if y==9 else float('inf') if y==-3 else y)"}.get(case.get("rk"), "y"), "+[100*e+10*l+v+1000*i]" if case.get("extra") else ""),
                 "ints[1:] = ints[:0:-1]" if case.get("rev") else "pass",
                 "base = r = Result(%r, %r, %r, ints)" % (envs, lrns, vals)]
        for st in case["steps"]:
            if st.get("as_tuple"):
                st = dict(st, **{k: tuple(st[k]) for k in ("l", "p", "x") if isinstance(st.get(k), list)})
            if st.get("fresh"):
                lines.append("r = base")
            if st["op"] == "noise":
                lines.append({"from_result": "from coba.environments import Environments; [e.params for e in Environments.from_result(r)]",
                              "copy": "r.copy().where_fin('min','learner_id','environment_id')",
                              "where_discard": "r.where(learner_id=[x[0] for x in r.learners][:1]); r.where(environment_id=[x[0] for x in r.environments][-1:])",
                              "fin_discard": "r.where_fin('min','learner_id','environment_id'); r.where_fin(1,['learner_id','evaluator_id'],'environment_id')",
                              "raw_discard": "r.raw_learners(x='index',y='reward',l='learner_id',p=None)",
                              "accessors": "list(r.interactions.to_dicts()); str(r); r.interactions.copy(); list(r.interactions.groupby(3,'count'))"}[st["what"]])
                lines.append("print([list(t) for t in (r.environments, r.learners, r.evaluators, r.interactions)])")
                continue
            if st["op"] == "where_fin":
                lines.append("r = r.where_fin(%r, %r, %r)" % (st.get("n"), st.get("l"), st.get("p")))
            elif st["op"] == "where":
                col, arg = st["kw"][0]
                lines.append("r = r.where(**{%r: %r})" % (col, [dv(x) for x in arg] if isinstance(arg, list) else dv(arg)))
            elif st["op"] == "raw_contrast":
                a_, b_ = contrast_labels(st)
                isl = isinstance(st["l"], (list, tuple))
                l1 = [(v if isl else v[0]) for v in a_] if st.get("multi") else (a_[0] if isl else a_[0][0])
                l2 = [(v if isl else v[0]) for v in b_] if st.get("multi") else (b_[0] if isl else b_[0][0])
                lines.append("t = r.raw_contrast(%r, %r, x=%r, y='reward', l=%r, p=%r, span=%r); print(t.columns, list(t))" % (l1, l2, st["x"], st["l"], st["p"], st.get("span")))
            elif st["op"] == "where_best":
                lines.append("r = r.where_best(l=%r, p=%r, n=%r, full_l=%r, full_p=%r)" % (st["l"], st["p"], st.get("n"), st.get("full_l", "learner_id"), st.get("full_p", "environment_id")))
            else:
                lines.append("t = r.raw_learners(x=%r, y=%r, l=%r, p=%r, span=%r); print(t.columns, list(t))" % (st["x"], st.get("y", "reward"), st["l"], st.get("p"), st.get("span")))
            lines.append("print([list(t) for t in (r.environments, r.learners, r.evaluators, r.interactions)])")
        return "\n".join(lines) + "\n"


def canonj(x):
    return json.dumps(x, sort_keys=True, separators=(",", ":"), default=str)


def close(impl, frac, exact):
    try:
        fi = Fraction(impl)
    except Exception:  # noqa
        return False
    if float(impl) == frac.numerator / frac.denominator:
        return True
    if exact:
        return False
    return abs(fi - frac) <= Fraction(1, 10 ** 9) * max(1, abs(frac))


def fmt(exp):
    if exp is None:
        return None
    return {str(k): [str(v) for v in vs] for k, vs in exp.items()}


PROPERTY = C18()
