"""C19 Shared caches never expose partial entries and always release their locks."""
import json
import os

from core.engine import Property, F
from core import lean
from props import c19_run as R

EVJSON = {"begin", "nextSeg", "skip", "spin", "raiseBody"}


def lean_instr(ins):
    if ins[0] == "gs":
        return ["gs", ins[1], ins[2]]
    if ins[0] == "rmv":
        return ["rmv", ins[1], len(ins) > 2 and ins[2] == "fail"]
    if ins[0] == "raise":
        return ["raise"]
    return list(ins)


def seg_ok(ok, seg):
    st = []
    for ins in seg:
        if ins[0] == "gs":
            if not ok(st, ins[1]):
                return False
            st.append(ins[1])
        elif ins[0] == "exit":
            if st:
                st.pop()
        elif ins[0] == "raise":
            return True
        elif ins[0] == "rmv":
            if not ok(st, ins[1]):
                return False
    return True


def well_nested(idx, prog):
    return all(seg_ok(lambda st, k: all(j == k or idx[j] != idx[k] for j in st), seg) for seg in prog)


def hier(idx, prog):
    return all(seg_ok(lambda st, k: k in st or all(idx[j] < idx[k] for j in st), seg) for seg in prog)


def static_rank(idx, progs):
    """rank per key from a topological order of the static lock-order graph (held slot -> requested slot over all
    nested operations of all programs); None if that graph has a cycle (then no `ord` with Hier ord exists)"""
    edges, nodes = set(), set(idx)
    for prog in progs:
        for seg in prog:
            st = []
            for ins in seg:
                if ins[0] in ("gs", "rmv"):
                    k = ins[1]
                    if k not in st:
                        for j in st:
                            if idx[j] == idx[k]:
                                return None
                            edges.add((idx[j], idx[k]))
                    if ins[0] == "gs":
                        st.append(k)
                elif ins[0] == "exit":
                    if st:
                        st.pop()
                elif ins[0] == "raise":
                    break
    rank, remaining = {}, set(nodes)
    while remaining:
        free = sorted(n for n in remaining if not any(a in remaining and b == n for a, b in edges))
        if not free:
            return None
        for n in free:
            rank[n] = len(rank)
        remaining -= set(free)
    return [rank[i] for i in idx]


class C19(Property):
    id = "C19"
    prop_modules = ["CobaVerif.Props.C19"]
    quick_n = 3000
    thorough_n = 60000
    search_n = 1500
    case_timeout = 60
    workers = 8
    rule = ("2-4 real threads run random programs (segments of nested get_set / exit / body-raise / rmv over 1-4 keys whose 16-bit "
            "blake2b indexes are equal, distinct or colliding; getters ok / raising when called / lazy generators raising after j parts while the inner cacher materialises them / raising a "
            "BaseException; with-bodies raising an Exception or a BaseException; the inner cacher's rmv ok / raising) on a real "
            "ConcurrentCacher(instrumented MemoryCacher, recording list, scheduler lock) under a baton scheduler (random or "
            "preemption-bounded schedules); on a hang the wait-for edges of the real threads are compared with the model's wait-for graph; plus DiskCacher cases, alone and "
            "wrapped in ConcurrentCacher (streaming getter raising an Exception / KeyboardInterrupt / SystemExit / GeneratorExit after j lines, file truncated at byte n, zero-length "
            "file), 20 % of the scheduled runs use the real DiskCacher as inner cacher (half-written files visible to the unlocked `in` of rmv); "
            "a few free-running runs on a real multiprocessing RawArray+Lock, OpenmlSource.read (data-id and task-id sources, also downloaded through a "
            "fake HttpSource, and 4-7 threads really waiting on a 1-3 permit semaphore) against an instrumented 3-permit "
            "openml_semaphore with the fake data set cached before / by a peer during acquire() / served on demand and full, abandoned and raising "
            "reads (permits and cacher locks must be back afterwards), the CobaMultiprocessor glue (for MemoryCacher / DiskCacher / NullCacher and user subclasses: what the workers get as cacher, two workers "
            "missing one key at once; OpenmlSource objects read, then pickled / deep-copied to a process with another CobaContext.cacher), a key->slot probe across interpreters with different PYTHONHASHSEED, typed key pairs (1 / 1.0 / True / '1' / None / tuples: one dict entry with two str() forms, two entries with one str(), identical, unrelated) in the history get_set(k1) || get_set(k2) inside k1's getter, rmv(k2), get_set(k1) again, and reader-depth probes (127-400 simultaneous read locks on one "
            "slot of the lock table built by CobaMultiprocessor, by nesting or by threads at a barrier). non-trivial = a scheduled run in which at least "
            "two threads operated on one index and a write lock was taken, or a disk case with a cut strictly inside the entry")
    trusted_base = [
        "blocks under `with self._lock:` are atomic (the lock itself, multiprocessing.Lock/RawArray memory visibility, the OS scheduler) "
        "and any interleaving of such blocks and of inner-cache operations is possible; the real 1-second sleep is replaced by a yield",
        "the shared array's cell type can hold the number of simultaneous read locks on one slot (the model's cell is an unbounded Int, "
        "theorem slot_counts_readers); probed on the RawArray that coba/multiprocessing.py itself allocates with 127-400 nested re-entrant "
        "reads by one caller and 130-300 threads inside their with-blocks",
        "OpenmlSource: only the semaphore protocol of read() is modelled (openmlSem); the REST API is replaced by cache entries of a fake data set; "
        "the generator's `finally:` runs when a read is exhausted, raises or is closed (CPython generator semantics)",
        "gzip/zlib: reading a truncated .gz member raises before end of file (trailer check)",
        "inner cacher operations are those of MemoryCacher (a failing getter stores nothing); DiskCacher is modelled separately as a map",
        "the baton scheduler and the event labelling of harness/props/c19_sched.py, c19_run.py (a failed lock guard followed by the "
        "repaired code's CobaException is relabelled `refuse`; `ccreate` marks the start of the inner populate = DiskCacher's file creation)",
        "DiskCacher inside the scheduled runs is represented by MemoryCacher semantics plus the ccreate/cpop window; the real DiskCacher is "
        "exercised sequentially (alone and through ConcurrentCacher), not under the scheduler",
        "the unlocked `key in self` of rmv is an oracle in the model (flag `o` of Instr.rmv): every theorem holds for every answer; with the real "
        "DiskCacher as inner cacher of the scheduled runs the driver takes the observed answers and checks that a True on an uncached key only "
        "occurs while the model has a writer between ccreate and cpop (partialWriter); file-system visibility order of create/close is CPython+OS",
        "OpenmlSource network path: HttpSource and time in coba.environments.openml are replaced by fakes (as the unit tests do)",
        "fairness: the scheduler gives every caller a turn again and again (FairSched); OS thread/process scheduling is assumed fair in this sense",
        "translator harness/props/c19_proto.py (ast only): a small symbolic walk of ConcurrentCacher.get_set / rmv that lists the calls in evaluation order for "
        "each combination of membership answers / inner call raising (handler tests answered as the state dictates: _locks = -1 after a failed populate), "
        "guard and updates of the five `with self._lock:` blocks as (operator, literal) pairs, and the key expressions of DiskCacher._cache_name / "
        "ConcurrentCacher._index as text; a source it does not understand is reported as not extracted and fails the obligation",
    ]
    assumptions = [
        "a caller never operates, inside a with-block, on a different key whose 16-bit hash collides with one it is reading (property quantifier)",
        "getters do not call back into the cacher; every returned context manager is entered and left",
        "keys that the inner cacher treats as one entry have one lock slot (slotsRespectEq; true for str keys, which is all coba itself uses; false for 1 / 1.0 / True: known finding C19-F4)",
        "for the unrepaired code deadlock freedom and fair termination are proved under the lock-hierarchy hypothesis Hier (nested operations go to keys already held or to larger indexes); "
        "without it two callers can wait for each other (known finding C19-F1)",
    ]
    partial_theorems = {
        "deadlock_free_partial": "needs Hier: cross-caller nested write-waits deadlock on the real code (C19-F1 = a 2-cycle of the wait-for graph, "
                                 "f1_is_two_cycle, counterexample replayed); deadlock_free_repaired / fair_termination_repaired hold without any hypothesis for "
                                 "the code with fixes/C19-nested-write-wait-raises.diff (the harness probes which variant it runs and uses the matching model)",
        "fair_termination": "same hypothesis Hier (unrepaired code); deadlock_free_ranked / no_wait_cycle_ranked / fair_termination_ranked weaken it to an "
                            "acyclic static lock order (any rank `ord` compatible with the slots; the harness finds it by topological sorting)",
        "deadlock_free_getset_only": "second hypothesis-weakening of deadlock freedom besides the ranked one: no rmv in the programs (GetSetOnly) and no two different "
                                     "keys of the programs in one slot (CollisionFree); any nesting order, also cyclic. Both hypotheses are necessary "
                                     "(cross_nesting_counterexample, getset_only_collision_counterexample = the two forms of C19-F1)",
        "chunked_progress_bounded": "the variant of the file-level system decreases on chunk/close steps of SUCCESSFUL getters only: a failing getter may write any "
                                    "number of chunks before it raises in the model, so fair termination of the file-level system is not stated (writer_progress, "
                                    "chunked_no_caller_stuck, chunked_deadlock_free are)",
        "typed_keys_slot_function_partial": "needs slotsRespectEq (keys that are one entry for the inner cacher have one str(), or at least one slot): 1 / 1.0 / True are one "
                                            "dict entry with two or three lock slots (C19-F4, typed_keys_counterexample, replayed on the real code); no small repair",
        "typed_keys_exclusion_partial": "same hypothesis slotsRespectEq (C19-F4)",
        "zero_length_is_absent_concurrent_partial": "needs the file not to be zero-length: through ConcurrentCacher a zero-length file raises (C19-F3, "
                                                    "concurrent_zero_length_counterexample); test_overwrite_empty_cache pins the `in` semantics, no small repair",
    }

    # ------------------------------------------------------------------ generation
    KEYSETS = None
    # distinct legal DiskCacher keys that a "normalising" file-name function would map to one file
    NAME_TWINS = [("openml 42", "openml 42 "), (" k1", "k1"), ("Kx", "kx"), ("x_y", "x y"), ("x.", "x"), ("\u212b1", "\u00c51"), ("\ufb01le", "file")]

    # phase 6: typed key pairs. same entry for a dict but different str() (-> different lock slots), different entries with one str()
    # (-> one slot, a natural collision), identical, unrelated
    KEY_PAIRS = [
        (["int", 1], ["float", 1.0]), (["int", 1], ["bool", True]), (["bool", True], ["float", 1.0]), (["int", 0], ["bool", False]),
        (["int", 0], ["float", 0.0]), (["float", 0.0], ["float", -0.0]), (["int", 2 ** 53], ["float", float(2 ** 53)]),
        (["tuple", [["int", 1], ["int", 2]]], ["tuple", [["float", 1.0], ["float", 2.0]]]), (["float", 1.0], ["int", 1]),
        (["int", 1], ["str", "1"]), (["str", "1"], ["int", 1]), (["float", 1.0], ["str", "1.0"]), (["bool", True], ["str", "True"]),
        (["none"], ["str", "None"]), (["tuple", [["int", 1]]], ["str", "(1,)"]), (["str", "a"], ["str", "a"]), (["int", 1], ["int", 1]),
        (["float", 1.5], ["float", 1.5]), (["tuple", [["str", "a"], ["int", 1]]], ["tuple", [["str", "a"], ["int", 1]]]),
        (["str", "openml_000042_data"], ["str", "openml_000042_data"]), (["int", 10 ** 20], ["int", 10 ** 20]), (["float", 1e300], ["float", 1e300]),
        (["str", "a"], ["str", "b"]), (["int", 1], ["int", 2]), (["str", "1"], ["str", "1.0"]), (["int", 10], ["float", 1.0]),
    ]

    def pre_build(self):
        """translator step: constants of the lock table and the download semaphore, read with `ast` from the CURRENT source"""
        import ast
        repo = os.environ.get("COBA_REPO", "/repo")
        vals = {"permits": None, "digest": None, "slots": None}

        def num(node):
            try:
                return int(eval(compile(ast.Expression(node), "<c19>", "eval"), {"__builtins__": {}}, {}))
            except Exception:
                return None
        try:
            for node in ast.walk(ast.parse(open(os.path.join(repo, "coba", "multiprocessing.py"), encoding="utf-8").read())):
                if isinstance(node, ast.Call) and isinstance(node.func, ast.Attribute) and node.func.attr in ("Semaphore", "BoundedSemaphore") and len(node.args) == 1:
                    vals["permits"] = num(node.args[0])
                if isinstance(node, ast.Call) and isinstance(node.func, ast.Attribute) and node.func.attr == "RawArray" and len(node.args) == 2:
                    a = node.args[1]
                    if isinstance(a, ast.BinOp) and isinstance(a.op, ast.Mult) and isinstance(a.left, ast.List):
                        vals["slots"] = num(a.right)
            for node in ast.walk(ast.parse(open(os.path.join(repo, "coba", "context", "cachers.py"), encoding="utf-8").read())):
                if isinstance(node, ast.Assign) and len(node.targets) == 1 and isinstance(node.targets[0], ast.Attribute) and node.targets[0].attr == "_digest_size":
                    vals["digest"] = num(node.value)
        except Exception:
            pass
        ok = all(v is not None for v in vals.values())
        body = ("-- GENERATED by harness/props/c19.py (pre_build) from coba/multiprocessing.py and coba/context/cachers.py on every run; do not edit.\n"
                "namespace Coba.C19.Generated\n"
                "/-- `spawn_context.Semaphore(n)` stored as `openml_semaphore` by CobaMultiprocessor -/\ndef openmlPermits : Nat := %d\n"
                "/-- length of the shared `RawArray` CobaMultiprocessor hands to ConcurrentCacher -/\ndef lockTableSize : Nat := %d\n"
                "/-- `ConcurrentCacher._digest_size` (bytes of the blake2b digest used as slot number) -/\ndef digestBytes : Nat := %d\n"
                "def extracted : Bool := %s\nend Coba.C19.Generated\n"
                % (vals["permits"] if ok else 3, vals["slots"] if ok else 65536, vals["digest"] if ok else 2, "true" if ok else "false"))
        path = os.path.join(lean.LEAN_DIR, "CobaVerif", "Generated", "C19Consts.lean")
        old = open(path, encoding="utf-8").read() if os.path.exists(path) else None
        if old != body:
            os.makedirs(os.path.dirname(path), exist_ok=True)
            with open(path, "w", encoding="utf-8") as f:
                f.write(body)
        # phase 5 / round h: call order of get_set / rmv along every path, the five lock blocks, and the key expressions that name the file
        # and the lock slot -> Generated/C19Protocol.lean (obligations generated_call_order, generated_lock_blocks, generated_key_identity)
        from props import c19_proto
        text, how = c19_proto.generate(repo)
        ppath = os.path.join(lean.LEAN_DIR, "CobaVerif", "Generated", "C19Protocol.lean")
        pold = open(ppath, encoding="utf-8").read() if os.path.exists(ppath) else None
        if pold != text:
            with open(ppath, "w", encoding="utf-8") as f:
                f.write(text)
        # phase 6: the expressions by which MemoryCacher identifies an entry (subscripts of / membership tests on its dict) -> Generated/C19Keys.lean
        # (obligation generated_memory_key_identity: the entry is identified by the key ITSELF, which is what `KeyRep.ident` stands for)
        exprs, kok = [], False
        try:
            tree = ast.parse(open(os.path.join(repo, "coba", "context", "cachers.py"), encoding="utf-8").read())
            cls = [n for n in tree.body if isinstance(n, ast.ClassDef) and n.name == "MemoryCacher"][0]
            is_store = lambda n: ast.unparse(n) in ("self._cache", "self")
            found = []
            for node in ast.walk(cls):
                if isinstance(node, ast.Subscript) and is_store(node.value):
                    found.append((node.lineno, node.col_offset, ast.unparse(node.slice)))
                if isinstance(node, ast.Compare) and len(node.ops) == 1 and isinstance(node.ops[0], (ast.In, ast.NotIn)) and is_store(node.comparators[0]):
                    found.append((node.lineno, node.col_offset, ast.unparse(node.left)))
            exprs = [e for _, _, e in sorted(found)]
            kok = len(exprs) > 0
        except Exception:
            pass
        ktext = ("-- GENERATED by harness/props/c19.py (pre_build) from class MemoryCacher in coba/context/cachers.py on every run; do not edit.\n"
                 "namespace Coba.C19.Generated\n"
                 "/-- every subscript of / membership test on MemoryCacher's dict, in source order -/\n"
                 "def memoryKeyExprs : List String := [%s]\n"
                 "def memoryKeysExtracted : Bool := %s\nend Coba.C19.Generated\n"
                 % (", ".join(json.dumps(e) for e in exprs), "true" if kok else "false"))
        kpath = os.path.join(lean.LEAN_DIR, "CobaVerif", "Generated", "C19Keys.lean")
        kold = open(kpath, encoding="utf-8").read() if os.path.exists(kpath) else None
        if kold != ktext:
            with open(kpath, "w", encoding="utf-8") as f:
                f.write(ktext)
        return ["C19 constants from source: %s%s" % (vals, "" if ok else " (NOT all extracted: source reshaped)"), "C19 protocol from source: " + how,
                "C19 MemoryCacher key expressions from source: %s" % exprs]

    def keysets(self):
        if C19.KEYSETS is None:
            (p0, p1), (q0, q1) = R.PAIRS[0], R.PAIRS[1]
            C19.KEYSETS = [
                (30, ["a"]), (25, ["a", "b"]), (20, [p0, p1]), (12, [p0, p1, "a"]), (8, [p0, p1, q0, q1]), (5, ["a", "b", "c"]),
            ]
        return C19.KEYSETS

    def gen_getter(self, rng, parts, vctr, base_ok=True):
        r = rng.below(100)
        vctr[0] += 1
        if r < 68:
            return [vctr[0]]
        if r < 74:
            return [None, "call"]            # the getter itself raises when called
        if r < 98 or not base_ok:
            return [None, rng.randint(0, parts)]   # a lazy generator that raises after j parts while the inner cacher materialises it
        return [None, rng.randint(0, parts), "base"]

    def gen_seg(self, rng, nkeys, idx, mode, parts, vctr, base_ok=True):
        seg, st = [], []
        budget = rng.choice([1, 1, 2, 2, 3, 4]) if mode != "gsonly" else rng.choice([2, 3, 3, 4, 5])
        while budget > 0:
            budget -= 1
            allowed = list(range(nkeys))
            if mode == "hier":
                allowed = [k for k in allowed if k in st or all(idx[j] < idx[k] for j in st)]
            elif mode == "wn":
                allowed = [k for k in allowed if all(j == k or idx[j] != idx[k] for j in st)]
            r = rng.below(100)
            if st and r < 30:
                seg.append(["exit"])
                st.pop()
                continue
            if st and r < 38:
                seg.append(["raise", rng.choice(["base", "KeyboardInterrupt", "KeyboardInterrupt", "SystemExit", "GeneratorExit"])] if rng.chance(0.4) else ["raise"])
                return seg
            if not allowed:
                seg.append(["exit"])
                st.pop()
                continue
            k = rng.choice(allowed)
            if r >= 70 and k in st and rng.chance(0.7):
                fresh = [x for x in allowed if x not in st]
                k = rng.choice(fresh) if fresh else k
            if mode == "gsonly":
                # get_set only (no_wait_cycle_getset_only): any key order, also crossing ones; prefer a key not yet held
                if len(st) >= 3:
                    seg.append(["exit"])
                    st.pop()
                    continue
                fresh = [x for x in allowed if x not in st]
                k = rng.choice(fresh) if fresh and rng.chance(0.85) else k
                seg.append(["gs", k] + self.gen_getter(rng, parts, vctr, base_ok))
                st.append(k)
            elif r < 70 and len(st) < 3:
                seg.append(["gs", k] + self.gen_getter(rng, parts, vctr, base_ok))
                st.append(k)
            else:
                seg.append(["rmv", k, "fail"] if rng.chance(0.25) else ["rmv", k])
        if st and rng.chance(0.5):
            seg += [["exit"]] * len(st)     # explicit exits; otherwise the end of the segment closes the blocks
        return seg

    def gen_sched_case(self, rng, tier, contention=False, gsonly=False):
        keys = list(rng.wchoice(self.keysets()))
        if contention:
            keys = list(rng.choice([["a"], [R.PAIRS[0][0], R.PAIRS[0][1]], ["a", "b"]]))
        if gsonly:
            # phase 5: get_set-only programs on collision-free keys with arbitrary (crossing, cyclic) nesting orders
            keys = list(rng.choice([["a", "b"], ["a", "b"], ["a", "b", "c"], ["a", "b", "c"], ["a", "b", "c", "d"]]))
        idx = [R.kidx(k) for k in keys]
        n = rng.wchoice([(50, 2), (35, 3), (15, 4)])
        mode = rng.wchoice([(82, "hier"), (13, "wn"), (5, "any")])
        if gsonly:
            mode = "gsonly"
        parts = rng.choice([1, 2, 2, 3])
        vctr = [0]
        progs = []
        for _ in range(n):
            progs.append([self.gen_seg(rng, len(keys), idx, mode, parts, vctr, base_ok=not contention) for _ in range(rng.choice([1, 1, 2, 3]))])
        if rng.chance(0.5):
            sched = {"mode": "rand"}
        else:
            sched = {"mode": "pb", "switch": [rng.randint(1, 18) for _ in range(rng.randint(0, 5))]}
        case = {"kind": "sched", "keys": keys, "progs": progs, "parts": parts, "seed": rng.below(2 ** 32), "sched": sched}
        if rng.chance(0.2):
            case["inner"] = "disk"
        return case

    def gen_disk_case(self, rng, tier):
        L1 = [rng.choice(["a,b,c", "1", "", "xyz" * rng.randint(1, 6), "été"]) for _ in range(rng.randint(1, 3))]
        L2 = ["second", "value"][: rng.randint(1, 2)]
        r = rng.below(100)
        if r < 35:
            cut = ["getter", rng.randint(0, len(L1)), rng.wchoice([(40, "exception"), (20, "KeyboardInterrupt"), (12, "SystemExit"),
                                                                    (12, "GeneratorExit"), (16, "base")])]
        elif r < 40:
            cut = ["getter-call"]
        elif r < 85:
            cut = ["truncate", rng.randint(0, 60)]
        elif r < 93:
            cut = ["zero"]
        else:
            cut = ["none"]
        return {"kind": "disk", "lines": L1, "lines2": L2, "cut": cut, "conc": rng.chance(0.4)}

    def gen_mp_case(self, rng, tier):
        keys = list(rng.choice([["a"], ["a", "b"], [R.PAIRS[0][0], R.PAIRS[0][1]]]))
        v = [0]
        progs = []
        for _ in range(rng.randint(2, 4)):
            p = []
            for _ in range(rng.randint(2, 5)):
                k = rng.below(len(keys))
                if rng.chance(0.3):
                    p.append(["rmv", k])
                else:
                    v[0] += 1
                    p.append(["gs", k, None if rng.chance(0.2) else v[0]])
            progs.append(p)
        return {"kind": "mp", "keys": keys, "progs": progs, "parts": 2, "wiring": rng.chance(0.6)}

    def gen_semsched_case(self, rng, tier):
        n = rng.choice([2, 3, 3, 4])
        progs = []
        for _ in range(n):
            prog = []
            for _ in range(rng.choice([1, 1, 2, 3])):
                order = rng.choice(["uncached", "uncached", "uncached", "during", "before"])
                rd = {"order": order}
                end = rng.choice(["full", "full", "abandon", "deactivated", "interrupt"])
                if end != "full" and not (order == "during" and end == "interrupt"):
                    rd["end"] = end
                prog.append(rd)
            progs.append(prog)
        return {"kind": "openml", "sched_sem": True, "permits": rng.choice([1, 1, 2, 3]), "progs": progs, "seed": rng.below(2 ** 32),
                "sched": {"mode": "rand"} if rng.chance(0.7) else {"mode": "pb", "switch": [rng.randint(0, 12) for _ in range(rng.randint(1, 4))]}}

    def gen_openml_case(self, rng, tier):
        if rng.chance(0.5):
            return self.gen_semsched_case(rng, tier)
        reads = []
        for _ in range(rng.choice([1, 2, 3, 4, 5])):
            rd = {"order": rng.wchoice([(20, "before"), (40, "during"), (15, "uncached"), (25, "network")]),
                  "mode": rng.wchoice([(60, "full"), (40, "partial")])}
            b = rng.wchoice([(60, None), (20, "deactivated"), (20, "badfeat")])
            if b:
                rd["bad"] = b
            if rng.chance(0.35):
                rd["task"] = True
            reads.append(rd)
        if rng.chance(0.12):
            return {"kind": "openml", "threads": True, "n": rng.randint(4, 7), "permits": rng.choice([1, 2, 3, 3]), "task": rng.chance(0.4)}
        return {"kind": "openml", "reads": reads, "concurrent": rng.chance(0.6), "semaphore": not rng.chance(0.1), "permits": 3}

    GLUE_KINDS = ["MemoryCacher", "SharedMem", "DiskCacher", "UserDisk", "NullCacher", "UserNull"]

    def gen_glue_case(self, rng, tier):
        if rng.chance(0.5):
            return {"kind": "glue", "what": "wrap", "cacher": rng.choice(self.GLUE_KINDS), "outer": rng.chance(0.5)}
        return {"kind": "glue", "what": "source-copy", "copy": rng.choice(["pickle", "deepcopy"]), "first_read": rng.chance(0.8),
                "bad": rng.choice([None, None, "badfeat", "deactivated"])}

    def gen_depth_case(self, rng, tier):
        if rng.chance(0.7):
            return {"kind": "depth", "variant": "nest", "n": rng.choice([127, 128, 129, 130, 200, 255, 256, 257, 300, 400])}
        return {"kind": "depth", "variant": "threads", "n": rng.choice([130, 150, 200, 300])}

    def generate(self, rng, tier):
        if rng.chance(0.04):
            return self.gen_semsched_case(rng, tier)
        r = rng.below(1000)
        if r >= 994:
            a, b = rng.choice(self.KEY_PAIRS)
            return {"kind": "keyeq", "k1": b, "k2": a} if rng.chance(0.5) else {"kind": "keyeq", "k1": a, "k2": b}
        if r < 1:
            return {"kind": "index", "keys": [rng.choice(["a", "b", "k%d" % rng.randint(0, 999), "openml_%06d_data" % rng.randint(1, 99999), rng.randint(0, 10 ** 6)])
                                              for _ in range(rng.randint(1, 6))], "hashseeds": [rng.randint(1, 1000)]}
        if r < 4:
            return self.gen_depth_case(rng, tier)
        if r < 8:
            return self.gen_glue_case(rng, tier)
        if r < 23:
            return self.gen_openml_case(rng, tier)
        if r < 120:
            return self.gen_disk_case(rng, tier)
        if r < 128:
            return self.gen_mp_case(rng, tier)
        if r < 198:
            return self.gen_sched_case(rng, tier, gsonly=True)
        if r < 201:
            return {"kind": "proto", "what": rng.choice(["get_set", "get_set", "rmv"]), "in1": rng.chance(0.5), "in2": rng.chance(0.5), "fails": rng.chance(0.4),
                    "guard": [rng.randint(0, 5), rng.randint(-1, 1)], "upd": [rng.randint(0, 2), rng.randint(-1, 1)]}
        if r < 215:
            # round h: twin keys (one file under a normalising name function) with the second caller inside the first one's write
            k1, k2 = rng.choice(self.NAME_TWINS)
            return {"kind": "sched", "inner": "disk", "keys": [k1, k2], "parts": rng.choice([2, 3]), "seed": rng.below(2 ** 32),
                    "sched": {"mode": "pb", "switch": [rng.randint(6, 18), rng.randint(2, 8), rng.randint(1, 5)]},
                    "progs": [[[["gs", 0, 1], ["exit"]]], [[["gs", 1, 2], ["exit"]], [["gs", 0, 3], ["exit"]]]]}
        return self.gen_sched_case(rng, tier)

    def search(self, rng, tier):
        r = rng.below(100)
        if r >= 92:
            return self.gen_semsched_case(rng, tier)
        if r >= 80:
            c = self.gen_sched_case(rng, tier, contention=True)
            c["inner"] = "disk"
            return c
        if r < 15:
            return self.gen_disk_case(rng, tier)
        if r < 18:
            return self.gen_mp_case(rng, tier)
        if r < 28:
            return self.gen_sched_case(rng, tier, gsonly=True)
        return self.gen_sched_case(rng, tier, contention=rng.chance(0.7))

    def corpus(self):
        (p0, p1), (q0, q1) = R.PAIRS[0], R.PAIRS[1]
        cs = []
        rnd = {"mode": "rand"}
        # two callers, one key: populate vs read, all simple preemption points
        for sw in range(1, 14):
            cs.append({"kind": "sched", "keys": ["a"], "parts": 2, "seed": sw, "sched": {"mode": "pb", "switch": [sw]},
                       "progs": [[[["gs", 0, 1], ["exit"]]], [[["gs", 0, 2], ["exit"]]]]})
            cs.append({"kind": "sched", "keys": ["a"], "parts": 2, "seed": sw, "sched": {"mode": "pb", "switch": [sw, 3]},
                       "progs": [[[["gs", 0, 1], ["exit"]], [["rmv", 0]]], [[["gs", 0, 2], ["exit"]]], [[["rmv", 0]], [["gs", 0, 3]]]]})
            cs.append({"kind": "sched", "keys": [p0, p1], "parts": 1, "seed": sw, "sched": {"mode": "pb", "switch": [sw, 5]},
                       "progs": [[[["gs", 0, 1], ["exit"]]], [[["gs", 1, 2], ["exit"]], [["rmv", 0]]]]})
            cs.append({"kind": "sched", "keys": ["a"], "parts": 2, "seed": sw, "sched": {"mode": "pb", "switch": [sw, 4]},
                       "progs": [[[["gs", 0, None, 1]], [["gs", 0, 5], ["exit"]]], [[["gs", 0, 6], ["raise"]]], [[["gs", 0, None, 2]]]]})
        # the inner cacher's rmv raises while the write lock is held: the lock must be released, later callers must get through
        for sw in range(0, 22, 3):
            cs.append({"kind": "sched", "keys": ["a"], "parts": 1, "seed": sw, "sched": {"mode": "pb", "switch": [sw, 4]},
                       "progs": [[[["gs", 0, 1], ["exit"]], [["rmv", 0, "fail"]], [["rmv", 0]]], [[["gs", 0, 2], ["exit"]], [["rmv", 0, "fail"]], [["gs", 0, 3], ["exit"]]]]})
            cs.append({"kind": "sched", "keys": [p0, p1], "parts": 1, "seed": sw, "sched": {"mode": "pb", "switch": [sw, 6]},
                       "progs": [[[["gs", 0, 1], ["exit"]], [["gs", 1, 4], ["rmv", 0, "fail"]]], [[["gs", 1, 2], ["exit"], ["rmv", 0, "fail"], ["rmv", 1]]]]})
        # the unlocked `in` of rmv sees a half-written DiskCacher file (Lean: partial_file_seen_by_rmv): all switch points
        for sw in range(4, 22):
            cs.append({"kind": "sched", "inner": "disk", "keys": ["a"], "parts": 2, "seed": sw, "sched": {"mode": "pb", "switch": [sw, 5]},
                       "progs": [[[["gs", 0, 1]]], [[["rmv", 0]]]]})
            cs.append({"kind": "sched", "inner": "disk", "keys": ["a"], "parts": 2, "seed": sw, "sched": {"mode": "pb", "switch": [sw, 3]},
                       "progs": [[[["gs", 0, None, 1]], [["gs", 0, 2], ["exit"]]], [[["rmv", 0]], [["gs", 0, 3], ["exit"]]]]})
        # re-entrant read, rmv of a key being read by the same caller (documented CobaException), body raising in a nest
        cs.append({"kind": "sched", "keys": ["a", "b"], "parts": 2, "seed": 1, "sched": rnd,
                   "progs": [[[["gs", 0, 1], ["gs", 0, 2], ["exit"], ["rmv", 0]]], [[["gs", 0, 3], ["exit"]], [["rmv", 0]]]]})
        cs.append({"kind": "sched", "keys": ["a", "b"], "parts": 2, "seed": 2, "sched": rnd,
                   "progs": [[[["gs", 0, 1], ["gs", 1, 2], ["raise"]], [["gs", 1, 9], ["exit"]]], [[["rmv", 1]], [["gs", 0, None, 0]]]]})
        # getter raising a BaseException (known finding C19-F2 until the fix is committed)
        cs.append(self.f2_case())
        # cross-caller nested write-waits (known finding C19-F1): rmv form and colliding-key form
        cs.append(self.f1_case())
        cs.append({"kind": "sched", "keys": [p0, p1, q0, q1], "parts": 1, "seed": 0,
                   "sched": {"mode": "list", "list": [0] * 14 + [1] * 14, "sticky": False},
                   "progs": [[[["gs", 0, 1], ["gs", 3, 2]]], [[["gs", 2, 3], ["gs", 1, 4]]]]})
        # self-deadlock by nesting colliding keys: outside the quantifier, correspondence only
        cs.append({"kind": "sched", "keys": [p0, p1], "parts": 1, "seed": 0, "sched": rnd,
                   "progs": [[[["gs", 0, 1], ["gs", 1, 2]]], [[["gs", 0, 3]]]]})
        # disk boundary cases
        for kind in ("exception", "KeyboardInterrupt", "SystemExit", "GeneratorExit", "base"):
            for p_ in (0, 1, 2):
                for conc in (False, True):
                    cs.append({"kind": "disk", "lines": ["a,b", "c"], "lines2": ["second"], "cut": ["getter", p_, kind], "conc": conc})
        cs.append({"kind": "index", "keys": ["a", "openml_042693_arff", "k74", 1, 42693, [1, "x"], "é"], "hashseeds": [1, 2]})
        for cut in (["getter", 0], ["getter", 1], ["getter", 2], ["getter", 1, "base"], ["getter-call"], ["zero"], ["none"],
                    ["truncate", 0], ["truncate", 1], ["truncate", 10], ["truncate", 20], ["truncate", 1000]):
            cs.append({"kind": "disk", "lines": ["a,b", "c"], "lines2": ["second"], "cut": cut})
            cs.append({"kind": "disk", "lines": ["a,b", "c"], "lines2": ["second"], "cut": cut, "conc": True})
        # OpenmlSource and the 3-permit download semaphore: every order of "cached" x every way a read can end
        for order in ("before", "during", "uncached"):
            for mode, bad in (("full", None), ("partial", None), ("full", "deactivated"), ("full", "badfeat")):
                rd = {"order": order, "mode": mode}
                if bad:
                    rd["bad"] = bad
                cs.append({"kind": "openml", "reads": [rd], "concurrent": True, "semaphore": True, "permits": 3})
        cs.append({"kind": "openml", "reads": [{"order": "during", "mode": "full"}] * 4, "concurrent": False, "semaphore": True, "permits": 3})
        for order in ("before", "during", "uncached", "network"):
            cs.append({"kind": "openml", "reads": [{"order": order, "mode": "full", "task": True}, {"order": order, "mode": "partial", "task": True}],
                       "concurrent": True, "semaphore": True, "permits": 3})
        cs.append({"kind": "openml", "reads": [{"order": "network", "mode": "full"}, {"order": "network", "mode": "full", "bad": "deactivated"},
                                              {"order": "network", "mode": "full", "bad": "badfeat"}, {"order": "network", "mode": "partial"}],
                   "concurrent": True, "semaphore": True, "permits": 3})
        cs.append({"kind": "openml", "threads": True, "n": 6, "permits": 3, "task": False})
        cs.append({"kind": "openml", "threads": True, "n": 5, "permits": 1, "task": True})
        cs.append({"kind": "openml", "reads": [{"order": "during", "mode": "full"}, {"order": "uncached", "mode": "partial"}], "concurrent": True, "semaphore": False, "permits": 3})
        # the CobaMultiprocessor glue: every kind of context cacher must reach the workers wrapped; sources copied to workers
        for kind in self.GLUE_KINDS:
            cs.append({"kind": "glue", "what": "wrap", "cacher": kind})
            cs.append({"kind": "glue", "what": "wrap", "cacher": kind, "outer": True})
        for cp in ("pickle", "deepcopy"):
            for first in (True, False):
                for bad in (None, "badfeat"):
                    cs.append({"kind": "glue", "what": "source-copy", "copy": cp, "first_read": first, "bad": bad})
        # more simultaneous readers of one slot than a signed byte can count, on the lock table the library allocates
        # phase 4: the download semaphore under the scheduler (all read kinds x endings on 1 permit; the Lean example's programs)
        for sw in (0, 2, 5, 9):
            cs.append({"kind": "openml", "sched_sem": True, "permits": 1, "seed": sw, "sched": {"mode": "pb", "switch": [sw, 3, 4]},
                       "progs": [[{"order": "uncached"}, {"order": "before"}], [{"order": "during"}], [{"order": "uncached", "end": "interrupt"}]]})
            cs.append({"kind": "openml", "sched_sem": True, "permits": 2, "seed": sw, "sched": {"mode": "pb", "switch": [sw, 2, 6]},
                       "progs": [[{"order": "uncached", "end": "abandon"}, {"order": "during"}], [{"order": "uncached", "end": "deactivated"}, {"order": "uncached"}],
                                 [{"order": "during", "end": "abandon"}], [{"order": "uncached"}]]})
        cs.append({"kind": "openml", "sched_sem": True, "permits": 1, "seed": 1, "sched": rnd, "progs": [[{"order": "during"}] * 3, [{"order": "during"}] * 3]})
        # phase 4: DiskCacher write as open / chunks / close with a reader, a remover and a second writer running in between
        for sw in range(7, 19):
            cs.append({"kind": "sched", "inner": "disk", "keys": ["a"], "parts": 3, "seed": sw, "sched": {"mode": "pb", "switch": [sw, 4, 2]},
                       "progs": [[[["gs", 0, 1], ["exit"]]], [[["gs", 0, 2], ["exit"]]], [[["rmv", 0]], [["gs", 0, None, 2]]]]})
        for sw in (8, 10, 12):
            cs.append({"kind": "sched", "inner": "disk", "keys": ["a"], "parts": 2, "seed": sw, "sched": {"mode": "pb", "switch": [sw, 3]},
                       "progs": [[[["gs", 0, None, 1, "base"]], [["gs", 0, 4], ["raise", "KeyboardInterrupt"]]], [[["gs", 0, 2], ["exit"]]]]})
        # phase 5: get_set-only programs with a CYCLIC lock order on collision-free keys (no_wait_cycle_getset_only): the crossing pair
        # (the Lean example's programs), the three-way ring, with failing getters / raising bodies; a hang here is a violation
        cross = [[[["gs", 0, 1], ["gs", 1, 2], ["exit"], ["exit"]]], [[["gs", 1, 3], ["gs", 0, 4], ["exit"], ["exit"]]]]
        cs.append({"kind": "sched", "keys": ["a", "b"], "parts": 1, "seed": 0, "sched": {"mode": "list", "list": [0] * 14 + [1] * 14, "sticky": False}, "progs": cross})
        for sw in range(6, 30, 3):
            cs.append({"kind": "sched", "keys": ["a", "b"], "parts": 1, "seed": sw, "sched": {"mode": "pb", "switch": [sw, 4, 3]}, "progs": cross})
            cs.append({"kind": "sched", "keys": ["a", "b", "c"], "parts": 2, "seed": sw, "sched": {"mode": "pb", "switch": [sw, sw // 2, 5, 2]},
                       "progs": [[[["gs", 0, 1], ["gs", 1, 2]]], [[["gs", 1, 3], ["gs", 2, None, 1]], [["gs", 2, 4], ["gs", 0, 5], ["raise"]]],
                                 [[["gs", 2, 6], ["gs", 0, 7], ["gs", 1, 8]]]]})
        cs.append({"kind": "sched", "keys": ["a", "b", "c"], "parts": 1, "seed": 0,
                   "sched": {"mode": "list", "list": [0] * 14 + [1] * 14 + [2] * 14, "sticky": False},
                   "progs": [[[["gs", 0, 1], ["gs", 1, 2]]], [[["gs", 1, 3], ["gs", 2, 4]]], [[["gs", 2, 5], ["gs", 0, 6]]]]})
        # phase 5: call order of get_set / rmv along every path, recorded on the real class (= model = extracted, generated_call_order)
        for in1 in (False, True):
            for in2 in (False, True):
                for fl in (False, True):
                    cs.append({"kind": "proto", "what": "get_set", "in1": in1, "in2": in2, "fails": fl, "guard": [(in1 * 2 + in2 * 1 + fl * 3) % 6, in2 - fl], "upd": [(in1 + in2 + fl) % 3, 1 - 2 * fl]})
            for fl in (False, True):
                cs.append({"kind": "proto", "what": "rmv", "in1": in1, "fails": fl})
        # round h: key PAIRS that a normalising file-name function would merge (surrounding blanks, case, '_' vs blank, '.' suffix,
        # unicode compatibility twins; all legal DiskCacher keys with different lock slots) through ConcurrentCacher(DiskCacher), the
        # second caller scheduled inside the first one's chunked write: each caller must get its OWN complete value
        for k1, k2 in self.NAME_TWINS:
            for sw in (8, 10, 12, 14, 17):
                cs.append({"kind": "sched", "inner": "disk", "keys": [k1, k2], "parts": 3, "seed": sw, "sched": {"mode": "pb", "switch": [sw, 6, 3]},
                           "progs": [[[["gs", 0, 1], ["exit"]]], [[["gs", 1, 2], ["exit"]], [["gs", 0, 3], ["exit"]]]]})
        cs.append({"kind": "depth", "variant": "nest", "n": 200})
        cs.append({"kind": "depth", "variant": "nest", "n": 128})
        cs.append({"kind": "depth", "variant": "threads", "n": 150})
        for wiring in (False, True):
            cs.append({"kind": "mp", "keys": ["a"], "parts": 2, "wiring": wiring,
                       "progs": [[["gs", 0, 1], ["rmv", 0], ["gs", 0, 2]], [["gs", 0, 3], ["gs", 0, None]], [["rmv", 0], ["gs", 0, 4]]]})
        # phase 6: typed key pairs (one entry / two slots, two entries / one slot, identical, unrelated), both orders where they differ
        for a, b in self.KEY_PAIRS:
            cs.append({"kind": "keyeq", "k1": a, "k2": b})
        return cs

    def f1_case(self):
        return {"kind": "sched", "keys": ["a", "b"], "parts": 1, "seed": 0,
                "sched": {"mode": "list", "list": [0] * 14 + [1] * 14, "sticky": False},
                "progs": [[[["gs", 0, 1], ["rmv", 1]]], [[["gs", 1, 2], ["rmv", 0]]]]}

    def f2_case(self):
        return {"kind": "sched", "keys": ["a"], "parts": 2, "seed": 3, "sched": {"mode": "pb", "switch": []},
                "progs": [[[["gs", 0, None, 1, "base"]]], [[["gs", 0, 2], ["exit"]]]]}

    def exhaustive(self, tier):
        (p0, p1) = R.PAIRS[0]
        out = []
        shapes = [
            (["a"], [[[["gs", 0, 1], ["exit"]]], [[["gs", 0, 2], ["exit"]]]]),
            (["a"], [[[["gs", 0, 1], ["exit"]]], [[["rmv", 0]]]]),
            (["a"], [[[["gs", 0, None, 1]]], [[["gs", 0, 2], ["exit"]]]]),
            ([p0, p1], [[[["gs", 0, 1], ["exit"]]], [[["gs", 1, 2], ["exit"]]]]),
            (["a"], [[[["gs", 0, 1], ["gs", 0, 2], ["exit"], ["exit"]]], [[["rmv", 0]]], [[["gs", 0, 3], ["raise"]]]]),
        ]
        for keys, progs in shapes:
            for a in range(0, 26):
                for b in range(0, 26, 1 if len(progs) == 2 else 3):
                    out.append({"kind": "sched", "keys": keys, "parts": 1, "seed": 0, "sched": {"mode": "pb", "switch": [a, b]}, "progs": progs})
        lines = ["a,b", "c"]
        for n in range(0, 48):
            out.append({"kind": "disk", "lines": lines, "lines2": ["second"], "cut": ["truncate", n]})
        for p in range(0, 3):
            out.append({"kind": "disk", "lines": lines, "lines2": ["second"], "cut": ["getter", p]})
        return out

    # ------------------------------------------------------------------ evaluation
    def evaluate(self, case, driver):
        kind = case.get("kind", "sched")
        if kind == "disk":
            return self.eval_disk(case, driver)
        if kind == "mp":
            return self.eval_mp(case, driver)
        if kind == "depth":
            return self.eval_depth(case, driver)
        if kind == "openml":
            return self.eval_openml(case, driver)
        if kind == "index":
            return self.eval_index(case, driver)
        if kind == "glue":
            return self.eval_glue(case, driver)
        if kind == "proto":
            return self.eval_proto(case, driver)
        if kind == "keyeq":
            return self.eval_keyeq(case, driver)
        return self.eval_sched(case, driver)

    def eval_sched(self, case, driver):
        fails, tags = [], []
        res = R.run_sched(case)
        idx = res["idx"]
        progs = case["progs"]
        wn = all(well_nested(idx, p) for p in progs)
        hr = all(hier(idx, p) for p in progs)
        ordk = static_rank(idx, progs)       # acyclic static lock order (weaker than Hier): deadlock_free_ranked applies
        repaired = bool(res.get("repaired"))
        # phase 5: get_set-only programs whose keys do not collide are deadlock free whatever their nesting order
        # (no_wait_cycle_getset_only / deadlock_free_getset_only, proved over the ghost-clock refinement)
        used = sorted({i[1] for p in progs for seg in p for i in seg if i[0] in ("gs", "rmv")})
        gs_only = all(i[0] != "rmv" for p in progs for seg in p for i in seg)
        coll_free = all(idx[a] != idx[b] for a in used for b in used if a != b)
        gs_free = gs_only and coll_free
        if repaired:
            # with fixes/C19-nested-write-wait-raises.diff deadlock freedom is proved for all programs (deadlock_free_repaired)
            tags.append("code:repaired-nested-write-wait")
            in_q, hr_eff = True, True
        else:
            in_q, hr_eff = wn, hr or (wn and ordk is not None) or gs_free
        if gs_free:
            tags.append("getset-only:collision-free")
            if not hr and ordk is None:
                tags.append("getset-only:cyclic-lock-order")
        tags.append("threads:%d" % len(progs))
        tags.append("keys:%d" % len(case["keys"]))
        tags.append("collide" if len(set(idx)) < len(idx) else "nocollide")
        tags.append("sched:" + (case.get("sched") or {}).get("mode", "rand"))
        tags.append("inner:" + case.get("inner", "memory"))
        tags.append("quantifier:" + ("hier" if wn and hr else "ranked-lock-order" if wn and ordk is not None else "wellnested-only" if wn else "outside"))
        tags.append("status:" + res["status"])
        kinds = {}
        for t, e in res["events"]:
            kinds[e[0]] = kinds.get(e[0], 0) + 1
        for k in ("spin", "sw", "cpopFail", "crmv", "crmvFail", "raiseBody", "cget"):
            if kinds.get(k):
                tags.append("ev:" + k)
        inflight = {}
        for t, e in res["events"]:
            if e[0] == "ccreate":
                inflight[e[1]] = t
            elif e[0] in ("cpop", "cpopFail"):
                inflight.pop(e[1], None)
            elif e[0] == "contains" and e[2] is True and e[1] in inflight and inflight[e[1]] != t:
                tags.append("unlocked-in-saw-partial-file")
                break
        if any(o == "rmv-while-reading:CobaException" for os_ in res["outcomes"] for o in os_):
            tags.append("rmv-while-reading")
        if any(o == "nested-write-refused:CobaException" for os_ in res["outcomes"] for o in os_):
            tags.append("nested-write-refused")
        if any(o.startswith("BodyBaseErr") for os_ in res["outcomes"] for o in os_):
            tags.append("body-base-exception")
        if any(o == "BodyBaseErr:KeyboardInterrupt" for os_ in res["outcomes"] for o in os_):
            tags.append("body-keyboard-interrupt")
        if res["base_raised"]:
            tags.append("getter-base-exception")
        if res.get("rmv_failed"):
            tags.append("inner-rmv-raised")
        # did a BaseException from a getter really leave the write lock behind (no relW by that thread right after cpopFail)?
        base_leak = False
        if res["base_raised"]:
            evs = res["events"]
            for n_, (t, e) in enumerate(evs):
                if e[0] == "cpopFail":
                    nxt = next((e2 for t2, e2 in evs[n_ + 1:] if t2 == t), None)
                    if nxt != ["relW", e[1]]:
                        base_leak = True
        leak_sfx = ":after-getter-base-exception" if base_leak else ""

        # (B) the property, directly on what the real code did -- only for programs inside the quantifier
        if in_q:
            for sig, what in res["viol"]:
                if leak_sfx and sig == "unexpected-exception:CobaException":
                    sig = "lock-leak" + leak_sfx   # the leaked _locks entry makes the same thread's next call refuse
                fails.append(F("B", what + " | case keys %s" % case["keys"], sig))
            if res["status"] == "hang":
                nested = any(d > 0 for d in res["depth_live"])
                if leak_sfx:
                    fails.append(F("B", "callers %s wait forever after a getter raised a BaseException inside get_set (write lock never released)" % res["live"],
                                   "lock-leak" + leak_sfx))
                elif not hr_eff and nested:
                    fails.append(F("B", "callers %s wait forever: each is inside a with-block and waits for a write lock on an index another one is reading "
                                   "(cross-caller nested lock order)" % res["live"], "hang-nested-lock-order"))
                else:
                    fails.append(F("B", "callers %s wait forever (every live caller's lock guard is false and nothing can change it); array at keys %s"
                                   % (res["live"], res["arr_keys"]), "hang"))
            elif res["status"] in ("step-limit", "stuck-thread", "wall"):
                fails.append(F("B", "run did not terminate: %s after %d steps" % (res["status"], res["steps"]), "no-termination:" + res["status"]))
            else:
                if res["arr_nonzero"]:
                    fails.append(F("B", "all callers have left but the shared array is not all zero: %s (index of keys %s)" % (res["arr_nonzero"][:4], idx),
                                   "lock-leak" + leak_sfx if leak_sfx else "array-nonzero-after-exit"))
                bad = [x for x in res["locks"] if x[2] != 0]
                if bad:
                    fails.append(F("B", "all callers have left but _locks entries are not zero: %s" % bad[:4],
                                   "lock-leak" + leak_sfx if leak_sfx else "locks-nonzero-after-exit"))
            for k, n_ok in res["getter_ok"].items():
                if n_ok > 1 + res["removed"].get(k, 0):
                    fails.append(F("B", "getter for key %r completed %d times with only %d removals" % (case["keys"][int(k)], n_ok, res["removed"].get(k, 0)),
                                   "single-flight-count"))
        else:
            tags.append("outside-quantifier")
        if res["status"] == "hang":
            tags.append("hang-edges:%d" % len(res["wait_edges"]))
        # outside the quantifier (B) does not apply; the model mirrors the code with fixes/C19-getter-baseexception-lock-leak.diff,
        # so a run in which a BaseException leaked the lock cannot be compared with it
        if base_leak and not wn:
            tags.append("outside-quantifier-base-leak")

        model = None
        if driver is not None and not [f for f in fails if f["sig"] != "hang-nested-lock-order"] and not base_leak:
            sched = [t for t, e in res["events"]]
            sees = [bool(e[0] == "contains" and e[2] is True) for t, e in res["events"]]
            ans = driver.ask({"op": "replay", "idx": idx, "repaired": repaired, "sees": sees, "ord": ordk if ordk is not None else [0] * len(idx),
                              "progs": [[[lean_instr(i) for i in seg] for seg in p] for p in progs], "sched": sched})
            model = {"events": len(ans["events"]), "stuck": ans["stuck"], "arr": ans["arr"], "terminal": ans["terminal"]}
            mev = ans["events"]
            iev = [e for t, e in res["events"]]
            bad = None
            for i in range(max(len(mev), len(iev))):
                a = mev[i] if i < len(mev) else None
                b = iev[i] if i < len(iev) else None
                if a != b:
                    bad = (i, a, b)
                    break
            if bad:
                i, a, b = bad
                fails.append(F("A", "step %d (caller %s): implementation did %s, model does %s; trace so far %s"
                               % (i, sched[i] if i < len(sched) else "-", b, a, json.dumps(res["events"][max(0, i - 6):i + 1])),
                               "A:trace:%s-vs-%s" % (b[0] if b else "none", a[0] if a else "none")))
            else:
                if ans["arr"] != res["arr_keys"]:
                    fails.append(F("A", "final array at the keys: implementation %s, model %s" % (res["arr_keys"], ans["arr"]), "A:final-array"))
                if ans["cache"] != res["cache"]:
                    fails.append(F("A", "final cache: implementation %s, model %s" % (res["cache"], ans["cache"]), "A:final-cache"))
                ibook = [[0] * len(idx) for _ in progs]
                for t, k, v in res["locks"]:
                    if t is not None and 0 <= k < len(idx):
                        ibook[t][k] = v
                if ibook != ans["book"]:
                    fails.append(F("A", "_locks: implementation %s, model %s" % (ibook, ans["book"]), "A:final-locks"))
                done = [i not in res["live"] for i in range(len(progs))]
                if res["status"] == "ok" and ans["terminal"] != done:
                    fails.append(F("A", "termination: implementation %s, model terminal %s" % (done, ans["terminal"]), "A:terminal"))
                if res["status"] == "hang":
                    nxt = [ans["next"][i] for i in res["live"]]
                    if any(x is not None and x[0] != "spin" for x in nxt):
                        fails.append(F("A", "implementation hangs but the model has an enabled step %s" % nxt, "A:hang"))
                    medges = sorted(e for e in ans["waitEdges"] if e[0] in res["live"])
                    if medges != res["wait_edges"]:
                        fails.append(F("A", "wait-for edges of the waiting callers: implementation %s, model %s" % (res["wait_edges"], medges), "A:wait-edges"))
                if res["unlocked_writes"]:
                    fails.append(F("A", "%d writes to the shared array outside the lock" % res["unlocked_writes"], "A:unlocked-write"))
                if case.get("inner") == "disk" and not fails:
                    self.check_disk_chunks(case, res, driver, idx, sees, fails, tags)
            # (C) the theorems' conclusions on the model's own final state
            if all(ans["terminal"]) and (any(x != 0 for x in ans["arr"]) or any(v != 0 for b in ans["book"] for v in b)):
                fails.append(F("C", "model: all callers terminal but locks remain %s %s" % (ans["arr"], ans["book"]), "C:locks-released"))
            if ans.get("spuriousIn"):
                fails.append(F("A", "the unlocked `in` of rmv answered True at step(s) %s although the model has the key neither cached nor being written"
                               % ans["spuriousIn"][:4], "A:unlocked-in-sees-uncached"))
            seen_partial = any(e[0] == "contains" and e[2] is True for t, e in res["events"]) and case.get("inner") == "disk"
            if ans["stuck"] is None and not seen_partial and (ans["runN_arr"] != ans["arr"] or ans["runN_terminal"] != all(ans["terminal"])):
                fails.append(F("C", "model: runN and run disagree %s %s" % (ans["runN_arr"], ans["arr"]), "C:runN"))
            if ans["deadlocked"] and not any(e[0] == e[1] for e in ans["waitEdges"]):
                # deadlock_has_cycle: follow successors from any node until a repetition
                succ = {}
                for a_, b_ in ans["waitEdges"]:
                    succ.setdefault(a_, b_)
                node, seen = next(iter(succ), None), set()
                while node is not None and node not in seen:
                    seen.add(node)
                    node = succ.get(node)
                if node is None:
                    fails.append(F("C", "model: deadlocked state without a wait-for cycle %s" % ans["waitEdges"], "C:cycle"))
            # phase 5: ghost clock.  (A) the miss / populate times read off the real trace equal the instrumented model's;
            # (C) the clock invariant holds in the model's final state, and a collision-free get_set-only system is never deadlocked
            gh = ans.get("ghost")
            if gh is not None and not repaired and not bad and ans["stuck"] is None and (gs_only or case.get("inner") != "disk"):
                itm, itp = [0] * len(progs), [0] * len(idx)
                for n_, (t, e) in enumerate(res["events"]):
                    if e[0] == "contains" and e[2] is False and 0 <= t < len(itm):
                        itm[t] = n_
                    if e[0] == "cpop" and isinstance(e[1], int) and 0 <= e[1] < len(itp):
                        itp[e[1]] = n_
                if gh["clock"] != len(res["events"]) or gh["tm"] != itm or gh["tp"] != itp:
                    fails.append(F("A", "ghost clock: times of the callers' latest miss / of the keys' latest populate in the real trace %s %s (%d steps), "
                                   "instrumented model %s %s (%d)" % (itm, itp, len(res["events"]), gh["tm"], gh["tp"], gh["clock"]), "A:ghost-stamps"))
                if gs_only:
                    tags.append("ghost:checked")
                    if any(m is not None for m in gh["missKey"]):
                        tags.append("ghost:state-with-caller-between-miss-and-write-lock")
                    if not gh["stampsOK"]:
                        fails.append(F("C", "model: ghost-clock invariant violated in the final state of a get_set-only run: tm %s tp %s clock %d missKey %s"
                                       % (gh["tm"], gh["tp"], gh["clock"], gh["missKey"]), "C:ghost-invariant"))
                    if not gh["allStampsOK"]:
                        fails.append(F("C", "model: ghost-clock invariant violated in an intermediate state of a get_set-only run", "C:ghost-invariant"))
                    if gh["waitStates"]:
                        tags.append("ghost:states-with-wait-edges")
                    if gs_free and (gh["cycleStates"] or gh["deadlockedStates"]):
                        fails.append(F("C", "model: get_set-only collision-free programs but %d visited states have a wait-for cycle, %d are deadlocked"
                                       % (gh["cycleStates"], gh["deadlockedStates"]), "C:getset-only-cycle"))
                    if gs_free and gh["waitStates"]:
                        tags.append("getset-only:acyclic-wait-edges-seen")
                    if ans["deadlocked"] and not gh["cycleStates"]:
                        fails.append(F("C", "model: deadlocked final state but the cycle scan found no wait-for cycle", "C:cycle"))
                    if gh["arr"] != ans["arr"] or gh["terminal"] != all(ans["terminal"]):
                        fails.append(F("C", "model: instrumented run and plain run disagree %s %s" % (gh["arr"], ans["arr"]), "C:ghost-refines"))
            if "getSetOnly" in ans:
                if bool(all(ans["getSetOnly"])) != gs_only or bool(ans["collisionFree"]) != coll_free or sorted(set(ans["progKeys"])) != used:
                    fails.append(F("C", "GetSetOnly/CollisionFree computed differently by harness (%s %s %s) and model (%s %s %s)"
                                   % (gs_only, coll_free, used, ans["getSetOnly"], ans["collisionFree"], ans["progKeys"]), "C:predicates"))
                if gs_free and not repaired and (ans["deadlocked"] or any(e[0] == e[1] for e in ans["waitEdges"])):
                    fails.append(F("C", "model: get_set-only collision-free programs but deadlocked / self wait edge %s" % ans["waitEdges"], "C:getset-only-deadlock"))
                if gs_free and not repaired and ans["waitEdges"]:
                    # no_wait_cycle_getset_only: the wait-for graph of the final state is acyclic
                    succ = {}
                    for a_, b_ in ans["waitEdges"]:
                        succ.setdefault(a_, []).append(b_)
                    def cyc(n0, path):
                        return any(m_ in path or cyc(m_, path | {m_}) for m_ in succ.get(n0, []))
                    if any(cyc(a_, {a_}) for a_ in succ):
                        fails.append(F("C", "model: get_set-only collision-free programs but the wait-for graph has a cycle %s" % ans["waitEdges"], "C:getset-only-cycle"))
                    tags.append("getset-only:wait-edges-in-final-state")
            if ordk is not None and not all(ans["hierRanked"]):
                fails.append(F("C", "the rank computed from the static lock-order graph does not satisfy Hier ord in the model: %s" % ordk, "C:ranked"))
            if all(ans["hier"]) and ordk is None:
                fails.append(F("C", "model says Hier but the static lock-order graph has a cycle", "C:ranked"))
            if ordk is not None and all(ans["wellNested"]) and (ans["deadlocked"] or any(e[0] == e[1] for e in ans["waitEdges"])):
                fails.append(F("C", "model: acyclic static lock order but deadlocked / self wait edge %s" % ans["waitEdges"], "C:ranked-deadlock"))
            if (repaired or (all(ans["wellNested"]) and all(ans["hier"]))) and ans["deadlocked"]:
                fails.append(F("C", "model: deadlocked although the theorem's hypotheses hold", "C:deadlock-free"))
            if all(ans["wellNested"]) and all(ans["hier"]) and not all(ans["terminal"]) and ans["stuck"] is None:
                if not any(x is not None and x[0] != "spin" for x in ans["next"]):
                    fails.append(F("C", "model: Hier program, not all terminal, but no non-spin step enabled", "C:deadlock-free"))
            if [bool(x) for x in ans["wellNested"]] != [well_nested(idx, p) for p in progs] or [bool(x) for x in ans["hier"]] != [hier(idx, p) for p in progs]:
                fails.append(F("C", "WellNested/Hier computed differently by harness and model", "C:predicates"))
        nontrivial = False
        if kinds.get("acqW"):
            per_index = {}
            for t, e in res["events"]:
                if e[0] in ("acqR", "acqW") and isinstance(e[1], int) and 0 <= e[1] < len(idx):
                    per_index.setdefault(idx[e[1]], set()).add(t)
            nontrivial = any(len(v) >= 2 for v in per_index.values())
        impl = {k: res[k] for k in ("status", "steps", "arr_keys", "locks", "cache", "outcomes", "received", "live")}
        impl["n_events"] = len(res["events"])
        return {"fails": fails, "nontrivial": nontrivial, "tags": tags, "impl": impl, "model": model}

    def check_disk_chunks(self, case, res, driver, idx, sees, fails, tags):
        """(A) at file level: the DiskCacher write as the real code performed it under the scheduler -- open, one chunk per line,
        close, return, with the other threads' steps in between -- replayed through the Lean file-level system `dstep`"""
        parts = int(case.get("parts", 2))
        fevs = res.get("file_events", [])
        comb, what = [], []
        fi = 0
        for n_, (t, e) in enumerate(res["events"]):
            while fi < len(fevs) and fevs[fi][0] <= n_:
                comb.append(fevs[fi][1:])
                fi += 1
            comb.append([t, ["base", e, sees[n_]]])
        comb.extend(f[1:] for f in fevs[fi:])
        sched, expect = [], []
        n_chunk = n_close = n_open = between = 0
        writers = {}
        for t, e in comb:
            if e[0] == "base":
                sched.append([t, ["base"], bool(e[2])])
                expect.append(["base", e[1]])
                if writers and any(w != t for w in writers.values()):
                    between += 1
            elif e[0] == "chunk":
                sched.append([t, ["chunk", e[2]], False])
                expect.append(["chunk", e[1], e[2]])
                n_chunk += 1
                if not e[3]:
                    fails.append(F("A", "DiskCacher wrote line %d of key %r but no file exists at that moment" % (e[2], case["keys"][e[1]]), "A:disk-chunk-no-file"))
            elif e[0] == "close":
                sched.append([t, ["close"], False])
                expect.append(["close", e[1]])
                n_close += 1
                writers.pop(e[1], None)
            elif e[0] == "open":
                n_open += 1
                writers[e[1]] = t
                if e[2] == 0:
                    tags.append("disk-file:zero-length-after-open")
        creates = sum(1 for t, e in res["events"] if e[0] == "ccreate")
        tags.append("disk-chunks:%s" % ("0" if n_chunk == 0 else "1-2" if n_chunk <= 2 else "3+"))
        if between:
            tags.append("disk-chunks:other-threads-ran-inside-the-write")
        pops = sum(1 for t, e in res["events"] if e[0] == "cpop")
        if res["status"] == "ok" and (n_close != n_open or n_chunk < parts * pops or n_open > creates):
            fails.append(F("A", "file-level steps of DiskCacher writes: %d populates (%d completed) but %d opens, %d chunk writes (%d lines per entry), %d closes seen "
                           "-- the write is not performed as open / line by line / close" % (creates, pops, n_open, n_chunk, parts, n_close), "A:disk-chunk-steps"))
            return
        ans = driver.ask({"op": "dreplay", "idx": idx, "parts": parts, "sched": sched,
                          "progs": [[[lean_instr(i) for i in seg] for seg in p] for p in case["progs"]]})
        got = [[m[0], m[1]] if m[0] == "base" else m for m in ans["events"]]
        if ans["stuck"] is not None or got != expect:
            i = ans["stuck"] if ans["stuck"] is not None else next(i for i in range(len(expect)) if i >= len(got) or got[i] != expect[i])
            fails.append(F("A", "file-level step %d (thread %s): implementation did %s, which is not what the model does there (%s; model's enabled [base, close, chunks] per caller %s); steps before: %s"
                           % (i, sched[i][0] if i < len(sched) else "-", expect[i] if i < len(expect) else None, got[i] if i < len(got) else "no step",
                              ans.get("nextActs"), json.dumps(expect[max(0, i - 5):i])), "A:disk-chunk-trace:%s" % (expect[i][0] if i < len(expect) else "none")))
            return
        full = ["complete", list(range(parts))]
        for m in ans["events"]:
            if m[0] == "base" and m[1][0] == "cget" and m[2] != full:
                fails.append(F("C", "model: a cget found %s on disk" % m[2], "C:chunked-no-partial-read"))
        if not ans["dinv"]:
            fails.append(F("C", "model: files and cache disagree at the end: %s %s" % (ans["files"], ans["cache"]), "C:chunked-files-consistent"))
        # phase 5: writer progress / nobody stuck / variant, checked in EVERY state the real run visited (writer_progress,
        # chunked_no_caller_stuck, chunked_progress_bounded); what the implementation's writers still had to write at the end
        if "stuckStates" in ans:
            if ans["stuckStates"]:
                fails.append(F("C", "model: %d visited states of the file-level system have an unfinished caller without any enabled action" % ans["stuckStates"],
                               "C:chunked-no-caller-stuck"))
            if ans["badVariantSteps"]:
                fails.append(F("C", "model: %d steps of the file-level run did not decrease the variant (St.measure / writeLeft)" % ans["badVariantSteps"],
                               "C:chunked-progress-bounded"))
            if ans["writerStates"]:
                tags.append("disk-chunks:writer-progress-checked-mid-entry")
            if res["status"] == "ok" and any(ans["writeLeft"]):
                fails.append(F("A", "all callers have finished but the model still has something left to write: %s" % ans["writeLeft"], "A:disk-write-left"))
        if res["status"] == "ok":
            mfiles = [None if f[0] == "absent" else f[0] for f in ans["files"]]
            ifiles = [None if c is None else "closed" for c in res["cache"]]
            if mfiles != ifiles:
                fails.append(F("A", "files at the end: implementation %s, model %s" % (ifiles, ans["files"]), "A:disk-final-files"))

    def eval_disk(self, case, driver):
        fails, tags = [], []
        o = R.run_disk(case)
        cut = case["cut"]
        L1 = [ln.rstrip("\r\n") for ln in case["lines"]]
        L2 = [ln.rstrip("\r\n") for ln in case["lines2"]]
        tags.append("disk:" + cut[0])
        if cut[0] == "getter":
            tags.append("disk-getter-raises:" + (cut[2] if len(cut) > 2 else "exception"))
        conc = bool(case.get("conc"))
        if conc:
            tags.append("disk-through-concurrent")
        s2 = o.get("stage2")
        what = "DiskCacher, entry %r, cut %s: second get_set gave %s" % (L1, cut, s2)
        nontrivial = False
        if cut[0] in ("getter", "getter-call"):
            nontrivial = cut[0] == "getter" and 0 < cut[1]
            if o["stage1"][0] != "raised":
                fails.append(F("B", "getter raised part-way but get_set returned %s" % (o["stage1"],), "disk-getter-failure-swallowed"))
            if s2[0] == "value" and s2[1] != L2:
                fails.append(F("B", what + " -- the getter raised %s after %s of %d lines; the partial entry left by that failed write was served as the "
                               "complete value without calling the getter" % (cut[2] if len(cut) > 2 else "an exception", cut[1] if cut[0] == "getter" else 0, len(L1)),
                               "disk-partial-entry-served"))
        elif cut[0] == "truncate":
            full = o.get("full_size", 0)
            nb = o.get("cut_at", 0)
            nontrivial = 0 < nb < full
            tags.append("truncate:" + ("zero" if nb == 0 else "full" if nb >= full else "header" if nb < 10 else "trailer" if nb >= full - 8 else "body"))
            if s2[0] == "value":
                okv = (s2[1] == L2 and nb == 0) or (s2[1] == L1 and nb >= full)
                if not okv:
                    fails.append(F("B", what + " (file cut at byte %d of %d) -- a torn entry was served as if complete" % (nb, full), "disk-torn-entry-served"))
        elif cut[0] == "zero":
            if s2[0] == "value" and s2[1] != L2:
                fails.append(F("B", what, "disk-zero-length-served"))
        else:
            if s2 != ["value", L1]:
                fails.append(F("B", what + " although the entry is complete", "disk-complete-entry-lost"))
        zero_now = bool(o["present_after_stage1"]) and o["size_after_stage1"] == 0
        if conc and zero_now and s2[0] == "raised":
            fails.append(F("B", "ConcurrentCacher(DiskCacher).get_set on a zero-length file (left by a crash) raised %s instead of re-populating; "
                           "the caller does not receive the value" % s2[1], "disk-zero-length-raises-through-concurrent"))
        if conc and (o.get("array_nonzero") or o.get("locks_nonzero")):
            fails.append(F("B", "locks remain after the disk calls: %s %s" % (o.get("array_nonzero"), o.get("locks_nonzero")), "array-nonzero-after-exit"))
        model = None
        if driver is not None and not [f for f in fails if f["sig"] != "disk-zero-length-raises-through-concurrent"]:
            if cut[0] in ("getter", "getter-call"):
                w = ["failBefore"] if cut[0] == "getter-call" else ["cut", [1]]
                a1 = driver.ask({"op": "disk", "fs": None, "w": w, "conc": conc})
                if (a1["fs"] is not None) != bool(o["present_after_stage1"]) or ("raised" in a1["out"]) != (o["stage1"][0] == "raised"):
                    fails.append(F("A", "after the failed write: file present=%s outcome=%s; model fs=%s out=%s"
                                   % (o["present_after_stage1"], o["stage1"], a1["fs"], a1["out"]), "A:disk-write-failure"))
            fs = None if not o["present_after_stage1"] else ([] if o["size_after_stage1"] == 0 else [1])
            a2 = driver.ask({"op": "disk", "fs": fs, "w": ["complete", [2]], "conc": conc})
            model = a2
            m_repop = a2["out"].get("value") == [2]
            if ("raised" in a2["out"]) != (o["stage2_call"][0] != "value") or (a2["fs"] is not None) != bool(o["present_after_stage2"]):
                fails.append(F("A", "second get_set: call outcome=%s file present=%s; model %s" % (o["stage2_call"], o["present_after_stage2"], a2),
                               "A:disk-second-get_set"))
            elif "raised" not in a2["out"] and m_repop != bool(o["getter2_called"]):
                fails.append(F("A", "second get_set: getter called=%s call outcome=%s; model %s" % (o["getter2_called"], o["stage2_call"], a2["out"]),
                               "A:disk-second-get_set"))
        return {"fails": fails, "nontrivial": nontrivial, "tags": tags, "impl": o, "model": model}

    def eval_mp(self, case, driver):
        fails, tags = [], ["mp-real-array"]
        o = R.run_mp(case)
        if case.get("wiring"):
            tags.append("mp-wiring:" + str(o.get("wiring")).split(":")[0])
            if str(o.get("wiring")).startswith("wiring run failed"):
                fails.append(F("A", "CobaMultiprocessor.filter could not build its shared ConcurrentCacher (%s)" % o["wiring"], "A:mp-wiring-failed"))
        if o["alive"]:
            fails.append(F("B", "threads %s still waiting after 15 s on a real multiprocessing array+lock" % o["alive"], "mp-hang"))
        if o["nonzero"]:
            fails.append(F("B", "real array not all zero after all callers left: %s" % o["nonzero"][:4], "mp-array-nonzero"))
        if o["locks_nonzero"]:
            fails.append(F("B", "_locks entries not zero after all callers left: %s" % o["locks_nonzero"][:4], "mp-locks-nonzero"))
        if o["bad"]:
            fails.append(F("B", "callers received incomplete values / unexpected exceptions: %s" % o["bad"][:4], "mp-bad-value"))
        for k, n_ok in o["getter_ok"].items():
            if n_ok > 1 + o["rmv_calls"].get(k, 0):
                fails.append(F("B", "getter for key #%s completed %d times with %d rmv calls" % (k, n_ok, o["rmv_calls"].get(k, 0)), "mp-single-flight"))
        return {"fails": fails, "nontrivial": False, "tags": tags, "impl": o, "model": None}

    def eval_glue(self, case, driver):
        fails = []
        if case["what"] == "wrap":
            o = R.run_glue_wrap(case)
            outer = bool(case.get("outer"))
            tags = ["glue:wrap:" + ("ConcurrentCacher(%s)" % case["cacher"] if outer else case["cacher"])]
            where = "CobaMultiprocessor with CobaContext.cacher = %s: the workers get a %s" % (
                "an already installed ConcurrentCacher(%s)" % case["cacher"] if outer else case["cacher"], o.get("worker_type"))
            if o.get("capture_error"):
                fails.append(F("A", "CobaMultiprocessor.filter could not be run with the recorder pool (%s)" % o["capture_error"], "A:mp-wiring-failed"))
            else:
                if o["alive"]:
                    fails.append(F("B", "%s; two workers asking for the same key: %d still waiting" % (where, o["alive"]), "glue-workers-wait-forever"))
                elif outer and o["max_inside"] > 1:
                    fails.append(F("B", "%s that does not share the lock table of the installed one: while another user of the installed cacher held its write "
                                   "lock on a key and was running the getter, a worker's get_set on that key was not blocked and ran its getter too (entry written "
                                   "by two writers at once)" % where, "glue-outer-writer-not-excluded"))
                elif o["caching"] and o["max_inside"] > 1:
                    fails.append(F("B", "%s; two workers that missed the same key ran the getter AT THE SAME TIME (two writers populating one entry; "
                                   "the shared cacher is not protected by the ConcurrentCacher locks)" % where, "glue-two-getters-at-once"))
                elif o["caching"] and o["runs"] > 1:
                    fails.append(F("B", "%s; the getter ran %d times for one key" % (where, o["runs"]), "glue-getter-ran-twice"))
                if o.get("array_nonzero"):
                    fails.append(F("B", "%s; locks remain %s" % (where, o["array_nonzero"]), "array-nonzero-after-exit"))
                if not fails and outer and not o.get("shares_table"):
                    fails.append(F("A", "%s whose lock table is not the installed one's" % where, "A:glue-private-lock-table"))
                if not fails and not outer and not o["wrapped"]:
                    fails.append(F("A", "%s, not a ConcurrentCacher around the context cacher" % where, "A:glue-not-wrapped"))
            return {"fails": fails, "nontrivial": True, "tags": tags, "impl": o, "model": {"wrapped": True}}
        o = R.run_glue_source(case)
        tags = ["glue:source-copy:" + case["copy"], "glue:first-read:%s" % bool(case.get("first_read", True))]
        where = "an OpenmlSource %s, %s to a worker whose CobaContext.cacher is another (Concurrent)Cacher, read there" % (
            "read once in the main process" if case.get("first_read", True) else "created in the main process", {"pickle": "pickled", "deepcopy": "deep-copied"}[case["copy"]])
        wc = o.get("worker_calls", {})
        if o.get("outcome") is not None and wc.get("get_set", 0) == 0:
            fails.append(F("B", "%s: the worker's cacher saw NO access (in=%d get_set=%d rmv=%d, outcome %s): the copy kept using the cacher of the process "
                           "it came from, bypassing the worker's read/write locks" % (where, wc.get("in", 0), wc.get("get_set", 0), wc.get("rmv", 0), o.get("outcome")),
                           "source-copy-bypasses-worker-cacher"))
        elif case.get("bad") == "badfeat" and wc.get("rmv", 0) == 0:
            fails.append(F("B", "%s (corrupt entry): _clear_cache did not go through the worker's cacher" % where, "source-copy-bypasses-worker-cacher"))
        if any(o.get("main_calls_during_worker_read", {}).values()):
            fails.append(F("B", "%s: the main process' cacher object was accessed %s" % (where, o["main_calls_during_worker_read"]), "source-copy-bypasses-worker-cacher"))
        if o.get("array_nonzero") or o.get("locks_nonzero"):
            fails.append(F("B", "%s: locks remain %s %s" % (where, o.get("array_nonzero"), o.get("locks_nonzero")), "array-nonzero-after-exit"))
        if not case.get("bad") and o.get("outcome") != "ok":
            fails.append(F("B", "%s: %s" % (where, o.get("outcome")), "openml-read-failed"))
        return {"fails": fails, "nontrivial": bool(case.get("first_read", True)), "tags": tags, "impl": o, "model": None}

    def eval_proto(self, case, driver):
        """phase 5: the calls ConcurrentCacher.get_set / rmv really make along one path (recorded on the real class, single caller, an
        inner cacher whose membership answers are scripted) = the model's `modelGetSetPath` / `modelRmvPath` (= the extracted ones by
        generated_call_order); plus the guard / update semantics the lock-block obligation uses"""
        from contextlib import nullcontext
        import coba.context.cachers as M
        fails, tags = [], ["proto:" + case["what"]]
        calls, depth = [], [0]

        class Boom(Exception):
            pass

        class Inner:
            def __init__(self, answers):
                self.answers = list(answers)

            def __contains__(self, key):
                calls.append(6)
                return self.answers.pop(0) if self.answers else False

            def get_set(self, key, getter):
                calls.append(7 if getter is None else 8)
                if getter is not None and case.get("fails"):
                    raise Boom()
                return nullcontext(1)

            def rmv(self, key):
                calls.append(13)
                if case.get("fails"):
                    raise Boom()

        def rec(code, name, top_only=False):
            orig = getattr(M.ConcurrentCacher, name)

            def f(self, *a, **k):
                if not top_only or depth[0] == 0:
                    calls.append(code)
                depth[0] += 1
                try:
                    return orig(self, *a, **k)
                finally:
                    depth[0] -= 1
            return f
        Rec = type("Rec", (M.ConcurrentCacher,), {
            "_acquire_read_lock": rec(1, "_acquire_read_lock"), "_release_read_lock": rec(2, "_release_read_lock"),
            "_acquire_write_lock": rec(3, "_acquire_write_lock"), "_release_write_lock": rec(4, "_release_write_lock"),
            "_switch_write_to_read_lock": rec(5, "_switch_write_to_read_lock"),
            "_has_read_lock": rec(9, "_has_read_lock", True), "_has_write_lock": rec(10, "_has_write_lock", True),
            "_release_read_on_exit": rec(11, "_release_read_on_exit")})
        if case["what"] == "get_set":
            cc = Rec(Inner([case["in1"], case["in2"]]))
            try:
                cm = cc.get_set("k", lambda: 1)
                calls.append(12)
                got = list(calls)
                with cm:
                    pass
            except Boom:
                got = list(calls)
            pos = (4 if case["in1"] else 0) + (2 if case["in2"] else 0) + (1 if case.get("fails") else 0)
            key = "getSet"
        else:
            cc = Rec(Inner([case["in1"]]))
            try:
                cc.rmv("k")
            except Boom:
                pass
            got = list(calls)
            pos = (2 if case["in1"] else 0) + (1 if case.get("fails") else 0)
            key = "rmv"
        if any(cc._array[cc._index("k")] != 0 for _ in (0,)):
            fails.append(F("B", "after a single %s (%s) the slot of the key reads %s" % (case["what"], case, cc._array[cc._index("k")]), "array-nonzero-after-exit"))
        model = None
        if driver is not None:
            ans = driver.ask({"op": "proto", "guard": case.get("guard", [1, 0]), "upd": case.get("upd", [1, 1])})
            model = ans[key][pos]
            if model != got:
                fails.append(F("A", "calls made by ConcurrentCacher.%s with membership answers (%s, %s), inner call raising=%s: implementation %s, model %s "
                               "(codes: 1 acqR 2 relR 3 acqW 4 relW 5 switch 6 in 7 get_set(None) 8 get_set(getter) 9 has_read 10 has_write 11 release_read_on_exit 12 return 13 rmv)"
                               % (case["what"], case["in1"], case.get("in2"), bool(case.get("fails")), got, model), "A:call-order:" + case["what"]))
            g, u = case.get("guard", [1, 0]), case.get("upd", [1, 1])
            xs = [-2, -1, 0, 1, 2]
            import operator
            gop = [operator.eq, operator.ge, operator.gt, operator.le, operator.lt, operator.ne][min(g[0], 5)]
            if ans["guard"] != [bool(gop(x, g[1])) for x in xs] or ans["upd"] != [u[1] if u[0] == 0 else x + u[1] if u[0] == 1 else x - u[1] for x in xs]:
                fails.append(F("C", "guardHolds/applyUpd of the model differ from Python's operators for %s %s: %s %s" % (g, u, ans["guard"], ans["upd"]), "C:guard-semantics"))
        return {"fails": fails, "nontrivial": True, "tags": tags, "impl": got, "model": model}

    def eval_keyeq(self, case, driver):
        """phase 6: two keys of any hashable type on ConcurrentCacher(MemoryCacher()): history get_set(k1) || get_set(k2) inside k1's getter,
        rmv(k2), get_set(k1). (B) on the entry (what the inner cacher treats as one key); (A) against `idxOf`/`slotsRespectEq` and the
        transition system run with idx := idxOf."""
        fails = []
        o = R.run_keyeq(case)
        same, tsame = o["same_entry"], o["same_text"]
        exp = o["expected_slots"]
        f4 = same and not tsame and exp[0] != exp[1]      # one entry, two lock slots (C19-F4)
        tags = ["keyeq", "keyeq:%s-entry/%s-text" % ("same" if same else "other", "same" if tsame else "other")]
        if o["blocked"]:
            tags.append("keyeq:second-caller-blocked")
        desc = "ConcurrentCacher(MemoryCacher()) keys %r / %r" % (R.dec_key(case["k1"]), R.dec_key(case["k2"]))
        started = [e[1] for e in o["log"] if e[0] == "getter-start"]
        val = lambda x: x[0] if isinstance(x, list) and len(x) == 2 and x[1] == "complete" else ("?", x)
        got = [val(o["vals"][t]) for t in ("t0", "t1", "again")]
        want_started = [1, 3] if same else [1, 2]
        want_got = [1, 1, 3] if same else [1, 2, 1]
        if o["hung"]:
            fails.append(F("B", "%s: a caller never came back from get_set (log %s)" % (desc, o["log"]), "keyeq-hang"))
        elif o["errs"]:
            fails.append(F("B", "%s: unexpected exception %s" % (desc, o["errs"]), "keyeq-unexpected-exception:%s" % o["errs"][0][1]))
        else:
            sym = None
            if same and o["max_inside"] > 1:
                sym = "the getters of both callers ran AT THE SAME TIME for one entry (the second caller was not blocked: slots %s)" % o["slots"]
            elif same and started != want_started:
                sym = "getters started %s, expected %s: the getter ran again although the entry was cached" % (started, want_started)
            elif got != want_got:
                sym = "callers received %s (first, second, first again after rmv of the second key), expected %s" % (got, want_got)
            elif not same and sorted(started) != [1, 2]:
                sym = "getters started %s for two different entries, expected one run each" % started
            if sym:
                fails.append(F("B", "%s: %s" % (desc, sym), "equal-keys-different-slots" if f4 and o["slots"][0] != o["slots"][1] else "keyeq-single-flight"))
            if o["arr_nonzero"] or o["locks_nonzero"]:
                fails.append(F("B", "%s: after all callers left, lock table %s, _locks %s" % (desc, o["arr_nonzero"], o["locks_nonzero"]), "keyeq-locks-after-exit"))
        model = None
        if driver is not None:
            reps = [[0, 0], [0 if same else 1, 0 if tsame else 1]]
            htab = [[0, exp[0]]] + ([] if tsame else [[1, exp[1]]])
            i1, i2 = reps[0][0], reps[1][0]
            progs = [[[["gs", i1, 1], ["exit"]], [["gs", i1, 3], ["exit"]]], [[["gs", i2, 2], ["exit"]], [["rmv", i2]]]]
            ask = lambda sched: driver.ask({"op": "keyeq", "reps": reps, "htab": htab, "progs": progs, "sched": sched})
            r = ask([0] * 30)
            model = {"respects": r["respects"], "slots": r["slots"], "idx": r["idx"]}
            if r["respects"] != (not f4):
                fails.append(F("A", "%s: slotsRespectEq %s, harness %s" % (desc, r["respects"], not f4), "A:keyeq-respects"))
            if o["slots"] != r["slots"]:
                fails.append(F("A", "%s: key -> slot implementation %s, model (16-bit blake2b of str(key)) %s" % (desc, o["slots"], r["slots"]), "A:keyeq-slot"))
            if r["respects"]:
                if r["idx"] != r["slots"]:
                    fails.append(F("C", "idxOf %s differs from slotOf %s although slotsRespectEq holds" % (r["idx"], r["slots"]), "C:keyeq-idxOf"))
                ev0 = [e for i, e in r["events"] if i == 0]
                p = next(n for n, e in enumerate(ev0) if e[0] == "ccreate") + 1
                r2 = ask([0] * p + [1] * 40 + [0] * 60)
                ev0 = [e for i, e in r2["events"] if i == 0]
                ent = next(n for n, e in enumerate(ev0) if e[0] == "enter")
                q = next(n for n, e in enumerate(ev0) if n > ent and e[0] == "relR") + 1 - p
                r3 = ask([0] * p + [1] * 40 + [0] * q + [1] * 60 + [0] * 60 + [1] * 5)
                evs = r3["events"]
                first_pop = next(n for n, (i, e) in enumerate(evs) if i == 0 and e[0] == "cpop")
                m_blocked = any(i == 1 and e[0] == "spin" for i, e in evs[:first_pop])
                m_started = [e[2] for i, e in evs if e[0] == "cpop"]
                m_started_order = sorted(m_started[:2]) + m_started[2:]
                e0 = [e[2] for i, e in evs if i == 0 and e[0] == "enter"]
                e1 = [e[2] for i, e in evs if i == 1 and e[0] == "enter"]
                m_got = [e0[0] if e0 else None, e1[0] if e1 else None, e0[1] if len(e0) > 1 else None]
                model.update({"blocked": m_blocked, "getters": m_started, "got": m_got, "terminal": r3["terminal"], "arr": r3["arr"]})
                if not (r3["terminal"] and all(x == 0 for x in r3["arr"])):
                    fails.append(F("C", "model run of the typed-key history does not end terminal with a zero lock table", "C:keyeq-terminal"))
                if not o["hung"] and not o["errs"]:
                    if m_blocked != o["blocked"]:
                        fails.append(F("A", "%s: second caller blocked while the first runs its getter: implementation %s, model %s (slots %s)"
                                       % (desc, o["blocked"], m_blocked, o["slots"]), "A:keyeq-blocked"))
                    if m_started_order != sorted(started[:2]) + started[2:] or m_got != got:
                        fails.append(F("A", "%s: getters run / values received: implementation %s / %s, model %s / %s" % (desc, started, got, m_started, m_got),
                                       "A:keyeq-history"))
        return {"fails": fails, "nontrivial": True, "tags": tags, "impl": {k: v for k, v in o.items() if k != "log"}, "model": model}

    def eval_index(self, case, driver):
        fails, tags = [], ["index-across-interpreters"]
        o = R.run_index(case)
        for oth in o["others"]:
            if oth["slots"] is None:
                fails.append(F("H", "helper interpreter failed: %s" % oth["err"], "harness-error"))
                continue
            diff = [(case["keys"][i], o["here"][i], oth["slots"][i]) for i in range(len(case["keys"])) if o["here"][i] != oth["slots"][i]]
            if diff:
                k, a, b = diff[0]
                fails.append(F("B", "ConcurrentCacher maps key %r to lock slot %d in this interpreter but to slot %d in an interpreter started with "
                               "PYTHONHASHSEED=%s (%d of %d keys differ): spawned workers sharing the lock array would lock different slots for the same entry, "
                               "so readers and writers of one key no longer exclude each other" % (k, a, b, oth["hashseed"], len(diff), len(case["keys"])),
                               "slot-differs-across-interpreters"))
                break
        if any(not (0 <= x < 2 ** 16) for x in o["here"]):
            fails.append(F("B", "a key is mapped outside the 2^16-entry lock table: %s" % o["here"], "slot-out-of-range"))
        if not fails and o["here"] != o["expected"]:
            fails.append(F("A", "key -> slot: implementation %s, model (16-bit blake2b of str(key)) %s" % (o["here"], o["expected"]), "A:index"))
        return {"fails": fails, "nontrivial": True, "tags": tags, "impl": o, "model": {"expected": o["expected"]}}

    def eval_openml_sched(self, case, driver):
        """the download semaphore under the controlled scheduler; (A) against the Lean interleaving system `sstep`"""
        o = R.run_openml_sched(case)
        fails = []
        progs = case["progs"]
        tags = ["openml-semaphore", "openml:scheduled", "openml-permits:%d" % o["permits0"], "sem-threads:%d" % len(progs)]
        for p in progs:
            for rd in p:
                tags.append("sem-read:%s/%s" % (rd["order"], rd.get("end", "full")))
        where = "%d scheduled OpenmlSource readers %s on a %d-permit semaphore" % (
            len(progs), json.dumps([[rd["order"] + ("/" + rd["end"] if rd.get("end") else "") for rd in p] for p in progs]), o["permits0"])
        kinds = {}
        for t, e in o["events"]:
            kinds[e[0]] = kinds.get(e[0], 0) + 1
        if kinds.get("wait"):
            tags.append("sem-ev:wait")
        if o["status"] == "hang":
            fails.append(F("B", "%s: readers %s wait forever in acquire() -- %d of %d permits are free and nobody holding one is running"
                           % (where, o["live"], o["free"], o["permits0"]), "openml-reader-waits-forever"))
        elif o["status"] != "ok":
            fails.append(F("B", "%s: run did not terminate: %s after %d steps" % (where, o["status"], o["steps"]), "no-termination:" + o["status"]))
        else:
            if o["free"] < o["permits0"]:
                fails.append(F("B", "%s: all readers have finished but only %d of %d permits are free (events %s)"
                               % (where, o["free"], o["permits0"], json.dumps(o["events"][-8:])), "openml-semaphore-permit-leaked"))
            if o["array_nonzero"]:
                fails.append(F("B", "%s: cacher locks remain %s" % (where, o["array_nonzero"]), "array-nonzero-after-exit"))
            exp = [["rows:3" if rd.get("end", "full") == "full" else "abandoned" if rd["end"] == "abandon" else
                    "KeyboardInterrupt" if rd["end"] == "interrupt" and rd["order"] == "uncached" else
                    "raised:CobaException" if rd["end"] == "deactivated" else "rows:3" for rd in p] for p in progs]
            if o["results"] != exp and not fails:
                fails.append(F("B", "%s: reads ended %s, expected %s" % (where, o["results"], exp), "openml-read-failed"))
        if o["over"] or o["free"] > o["permits0"]:
            fails.append(F("B", "%s: a permit was released that had not been acquired: %d free of %d -- later more than %d readers download at once"
                           % (where, o["free"], o["permits0"], o["permits0"]), "openml-semaphore-over-released"))
        model = None
        if driver is not None and not fails:
            def steps(rd):
                if rd["order"] == "before":
                    return ["cachedRead", "noRelease"]
                if rd["order"] == "during":
                    return ["request", "acquire", "releaseEarly", "noRelease"]
                return ["request", "acquire", "enterDownload", "done" if rd.get("end", "full") == "full" else "raised", "release"]
            pend = [[x for rd in p for x in steps(rd)] for p in progs]
            vis = ("acquire", "releaseEarly", "release")
            sched, expect = [], []
            for t, e in o["events"]:
                while pend[t] and pend[t][0] not in vis:
                    sched.append(t)
                    expect.append(pend[t].pop(0))
                sched.append(t)
                if e[0] == "wait":
                    expect.append("wait")
                elif pend[t]:
                    expect.append(pend[t].pop(0))
                else:
                    expect.append(None)
            for t in range(len(progs)):
                while pend[t] and pend[t][0] not in vis:
                    sched.append(t)
                    expect.append(pend[t].pop(0))
            ans = driver.ask({"op": "semsys", "permits": o["permits0"], "sched": sched,
                              "progs": [[[rd["order"] == "before", rd["order"] in ("before", "during"), rd.get("end", "full") != "full"] for rd in p] for p in progs]})
            model = {"events": len(ans["events"]), "stuck": ans["stuck"], "free": ans["free"], "terminal": ans["terminal"]}
            mvis = [[m[0] if m[0] != "releaseEarly" else "release", m[1]] for m in ans["events"] if m[0] in ("acquire", "wait", "releaseEarly", "release")]
            ivis = [[e[0], e[1]] for t, e in o["events"]]
            if ans["stuck"] is not None or mvis != ivis:
                i = next((i for i in range(max(len(mvis), len(ivis))) if (mvis[i] if i < len(mvis) else None) != (ivis[i] if i < len(ivis) else None)), None)
                fails.append(F("A", "%s: semaphore trace [event, free permits]: implementation %s, model %s (first difference at %s, model stuck %s)"
                               % (where, json.dumps(o["events"][:14]), json.dumps(mvis[:14]), i, ans["stuck"]), "A:openml-semaphore-trace"))
            elif [m[0] for m in ans["events"]] != expect:
                fails.append(F("A", "%s: model steps %s, expected from the read kinds %s" % (where, [m[0] for m in ans["events"]][:20], expect[:20]), "A:openml-semaphore-steps"))
            else:
                if o["status"] == "ok" and (ans["free"] != o["free"] or not ans["terminal"]):
                    fails.append(F("A", "%s: at the end implementation has %d free permits, model %d (terminal %s)" % (where, o["free"], ans["free"], ans["terminal"]),
                                   "A:openml-semaphore"))
                mh = max([m[2] for m in ans["events"]] + [0])
                md = min(mh, o["permits0"])     # semaphore_never_exceeds_permits: downloads ≤ holders ≤ permits
                if o["max_holders"] != mh or o["max_downloads"] > md or o["no_permit_download"] or o["foreign_release"]:
                    fails.append(F("A", "%s: most simultaneous permit holders %d (model %d), simultaneous downloads %d (model bound %d), downloads without a permit %d, "
                                   "releases by a non-holder %d" % (where, o["max_holders"], mh, o["max_downloads"], md, o["no_permit_download"], o["foreign_release"]),
                                   "A:openml-semaphore-holders"))
                # (C) semaphore_never_exceeds_permits / semaphore_all_released on the model's own run
                if any(m[1] + m[2] != o["permits0"] or m[3] > m[2] for m in ans["events"]) or (ans["terminal"] and ans["free"] != o["permits0"]):
                    fails.append(F("C", "model: permit accounting violated along %s" % ans["events"][:12], "C:semaphore-bound"))
        return {"fails": fails, "nontrivial": bool(kinds.get("wait")) or o["max_holders"] >= 2, "tags": tags, "impl": {k: v for k, v in o.items() if k != "events"}, "model": model}

    def eval_openml(self, case, driver):
        if case.get("sched_sem"):
            return self.eval_openml_sched(case, driver)
        if case.get("threads"):
            o = R.run_openml_threads(case)
            fails, tags = [], ["openml-semaphore", "openml:threads-waiting", "openml-permits:%d" % o["permits0"]]
            where = "%d OpenmlSource readers on a %d-permit semaphore" % (case["n"], o["permits0"])
            if o["alive"] or o["timeouts"]:
                fails.append(F("B", "%s: %d readers still waiting after 40 s (%d acquire time-outs)" % (where, o["alive"], o["timeouts"]), "openml-reader-waits-forever"))
            elif o["free_permits"] != o["permits0"] or o["acquires"] != o["releases"]:
                fails.append(F("B", "%s: afterwards %d of %d permits are free (acquire %d, release %d)"
                               % (where, o["free_permits"], o["permits0"], o["acquires"], o["releases"]), "openml-semaphore-permit-leaked"))
            if o["array_nonzero"]:
                fails.append(F("B", "%s: cacher locks remain %s" % (where, o["array_nonzero"]), "array-nonzero-after-exit"))
            if any(r != 3 for r in o["results"]) and not fails:
                fails.append(F("B", "%s: reads returned %s" % (where, o["results"]), "openml-read-failed"))
            model = None
            if driver is not None and not fails:
                model = driver.ask({"op": "semrun", "permits": o["permits0"], "reads": [[True, False, False]] * case["n"]})
                if model["permits"] != o["free_permits"] or o["max_holders"] > o["permits0"]:
                    fails.append(F("A", "%s: free permits %s / max simultaneous holders %d; model %s" % (where, o["free_permits"], o["max_holders"], model), "A:openml-semaphore"))
            return {"fails": fails, "nontrivial": o["max_holders"] >= min(o["permits0"], 2), "tags": tags, "impl": o, "model": model}
        fails, tags = [], ["openml-semaphore"]
        o = R.run_openml(case)
        has_sem = bool(case.get("semaphore", True))
        for n, (rd, res) in enumerate(zip(case["reads"], o["reads"])):
            tags.append("openml:%s/%s/%s%s" % (rd["order"], rd.get("mode", "full"), rd.get("bad") or "good", "/task" if rd.get("task") else ""))
            where = "OpenmlSource.read #%d (source %s, %s read%s)" % (
                n, {"before": "cached beforehand", "during": "cached by a peer while this reader waited in acquire()", "uncached": "not cached",
                    "network": "not cached, downloaded through _http_request"}[rd["order"]],
                rd.get("mode", "full"), ", " + rd["bad"] if rd.get("bad") else "")
            if res["outcome"] == "would-wait":
                fails.append(F("B", "%s: no permit of the openml semaphore is left (%d of %d), the reader waits forever" % (where, res["permits_after"], o["permits0"]),
                               "openml-reader-waits-forever"))
                break
            if res["permits_after"] != o["permits0"]:
                fails.append(F("B", "%s: afterwards %d of %d semaphore permits are free (acquire %d, release %d)"
                               % (where, res["permits_after"], o["permits0"], res["acquires"], res["releases"]), "openml-semaphore-permit-leaked"))
            if res.get("array_nonzero") or res.get("locks_nonzero"):
                fails.append(F("B", "%s: cacher locks remain: %s %s" % (where, res.get("array_nonzero"), res.get("locks_nonzero")), "array-nonzero-after-exit"))
            if not rd.get("bad") and res["outcome"] != "ok":
                fails.append(F("B", "%s: %s" % (where, res["outcome"]), "openml-read-failed"))
        model = None
        if driver is not None and not fails:
            model = []
            for rd, res in zip(case["reads"], o["reads"]):
                m = driver.ask({"op": "sem", "hasSem": has_sem, "cached1": rd["order"] == "before", "cached2": rd["order"] in ("before", "during")})
                model.append(m)
                if [m["acquires"], m["releases"]] != [res["acquires"], res["releases"]]:
                    fails.append(F("A", "semaphore use of a %s read: implementation acquire/release %s, model %s"
                                   % (rd["order"], [res["acquires"], res["releases"]], m), "A:openml-semaphore"))
                    break
                if rd["order"] == "network" and res["outcome"] == "ok" and res["stagger"] != (res["requests"] if has_sem else 0):
                    fails.append(F("A", "staggering in _http_request: %d requests, %d sleeps, semaphore installed: %s" % (res["requests"], res["stagger"], has_sem),
                                   "A:openml-stagger"))
                    break
            if not fails:
                mr = driver.ask({"op": "semrun", "permits": o["permits0"],
                                 "reads": [[has_sem, rd["order"] == "before", rd["order"] in ("before", "during")] for rd in case["reads"]]})
                if mr["permits"] != o["reads"][-1]["permits_after"]:
                    fails.append(F("A", "free permits after the sequence: implementation %s, model %s" % (o["reads"][-1]["permits_after"], mr), "A:openml-semaphore"))
        nontrivial = any(rd["order"] in ("during", "network") for rd in case["reads"])
        return {"fails": fails, "nontrivial": nontrivial, "tags": tags, "impl": o, "model": model}

    def eval_depth(self, case, driver):
        fails = []
        o = R.run_depth(case)
        n = case["n"]
        tags = ["depth:" + case["variant"], "depth-wiring:" + str(o["wiring"]).split(":")[0], "depth-typecode:" + str(o["typecode"])]
        where = "%d simultaneous read locks on one slot (%s, lock table %s from %s)" % (
            n, "one caller nesting re-entrant reads" if case["variant"] == "nest" else "threads meeting inside their with-blocks",
            o["typecode"], "coba/multiprocessing.py" if o["wiring"] == "captured" else "the harness")
        if o["refused_at"] is not None:
            fails.append(F("B", "%s: read lock #%d was refused (the caller is told to wait although only readers hold the slot)" % (where, o["refused_at"]),
                           "readers-refused"))
        elif o["still_waiting"]:
            fails.append(F("B", "%s: %d callers wait forever (%d were admitted)" % (where, o["still_waiting"], o["admitted"]), "readers-refused"))
        elif o["error"]:
            fails.append(F("B", "%s: a caller got %s" % (where, o["error"]), "readers-exception"))
        else:
            if o["admitted"] != n or o["bad_values"]:
                fails.append(F("B", "%s: %d admitted, %d incomplete values" % (where, o["admitted"], o["bad_values"]), "readers-bad-value"))
            if o["deepest"] != n:
                fails.append(F("B", "%s: the slot reads %s with %d readers inside" % (where, o["deepest"], n), "slot-miscounts-readers"))
            if o.get("slot_after") != 0 or o.get("locks_nonzero"):
                fails.append(F("B", "%s: after all left the slot reads %s, _locks nonzero %s" % (where, o.get("slot_after"), o.get("locks_nonzero")),
                               "array-nonzero-after-exit"))
        model = None
        if driver is not None and not fails and case["variant"] == "nest":
            prog = [[["gs", 0, 1]] * n]
            deep = driver.ask({"op": "replay", "idx": [7], "progs": [prog], "sched": [0] * (5 * n + 6)})
            done = driver.ask({"op": "replay", "idx": [7], "progs": [prog], "sched": [0] * (7 * n + 6)})
            model = {"deepest": deep["arr"], "after": done["arr"], "terminal": done["terminal"]}
            if deep["arr"] != [o["deepest"]] or done["arr"] != [o.get("slot_after")] or done["terminal"] != [True]:
                fails.append(F("A", "%s: implementation slot %s / %s, model %s / %s" % (where, o["deepest"], o.get("slot_after"), deep["arr"], done["arr"]),
                               "A:reader-count"))
        return {"fails": fails, "nontrivial": n >= 128, "tags": tags, "impl": o, "model": model}

    # ------------------------------------------------------------------ shrinking / reproduction
    def shrink(self, case):
        if case.get("kind", "sched") != "sched":
            if case.get("kind") == "disk" and len(case["lines"]) > 1:
                yield dict(case, lines=case["lines"][:-1])
            if case.get("kind") == "openml" and len(case.get("reads", [])) > 1:
                for k in range(len(case["reads"])):
                    yield dict(case, reads=case["reads"][:k] + case["reads"][k + 1:])
            if case.get("kind") == "depth" and case["n"] > 1:
                for m in (case["n"] // 2, case["n"] - 1):
                    yield dict(case, n=m)
            return
        progs = case["progs"]
        for t in range(len(progs)):
            if len(progs) > 1:
                yield dict(case, progs=progs[:t] + progs[t + 1:])
        for t, p in enumerate(progs):
            for si in range(len(p)):
                if len(p) > 1:
                    yield dict(case, progs=progs[:t] + [p[:si] + p[si + 1:]] + progs[t + 1:])
                seg = p[si]
                for ii in range(len(seg)):
                    yield dict(case, progs=progs[:t] + [p[:si] + [seg[:ii] + seg[ii + 1:]] + p[si + 1:]] + progs[t + 1:])
        if case.get("parts", 2) > 1:
            yield dict(case, parts=1)
        sc = case.get("sched") or {}
        if sc.get("mode") == "pb" and sc.get("switch"):
            yield dict(case, sched={"mode": "pb", "switch": sc["switch"][:-1]})

    def snippet(self, case):
        if case is None:
            return ""
        if case.get("kind") == "openml" and case.get("threads"):
            case = dict(case, kind="openml_threads")
        if case.get("kind") == "glue":
            case = dict(case, kind="glue_" + case["what"].replace("-", "_"))
        fn = {"glue_wrap": "run_glue_wrap", "glue_source_copy": "run_glue_source", "openml_threads": "run_openml_threads", "sched": "run_sched", "disk": "run_disk", "mp": "run_mp", "depth": "run_depth", "openml": "run_openml", "index": "run_index", "keyeq": "run_keyeq"}[case.get("kind", "sched")]
        return ("# runs the case on the real coba cachers (threads under the baton scheduler of /verif/harness/props/c19_sched.py)\n"
                "import sys, json; sys.path[:0]=[%r, '/verif/harness']\nfrom props.c19_run import %s\n"
                "case = json.loads(%r)\nr = %s(case)\nprint(json.dumps({k: v for k, v in r.items() if k != 'events'}, indent=1, default=str))\n"
                % (os.environ.get("COBA_REPO", "/repo"), fn, json.dumps(case), fn))


PROPERTY = C19()
