"""C07 The result log faithfully records what evaluators produced.

Drives the REAL pipeline end to end (Experiment.run with instrumented components, ListSink route,
DiskSink route plain/.gz, fresh and restored, Result.from_file) and compares
  (B) the four tables with what the components produced, up to the documented normalisation, and the
      three routes with each other;
  (A) the tables with the Lean model (CobaVerif.Model.C07) evaluated by the driver;
  (C) the Lean model of the repaired code with the Python oracle of the normalisation.
"""
import json
import math
import os
import shutil
import tempfile
from fractions import Fraction

from core.engine import Property, F

ID_COLS = ("environment_id", "learner_id", "evaluator_id", "index")
RESERVED_ROW_KEYS = set(ID_COLS)


# ------------------------------------------------------------------ tagged values
def dec(v):
    from props.c07_parts import dec as _dec
    return _dec(v)


def is_seq(v):
    return isinstance(v, list) and v[0] in ("l", "t")


def pystr_key(k):
    """Python's str(k) of a tagged key"""
    return str(dec(k))


def json_key(k):
    """the key json.dumps writes for a tagged key (str/int/float/bool/None)"""
    return next(iter(json.loads(json.dumps({dec(k): 0}))))


def canon_val(x):
    """canonical JSON form of a Python value read back from a Result (numbers by value)"""
    if x is None:
        return None
    if type(x).__name__ == "MissingType":
        return None
    if isinstance(x, bool):
        return x
    if isinstance(x, int):
        return ["q", x, 1]
    if isinstance(x, float):
        if math.isnan(x):
            return ["nan"]
        if math.isinf(x):
            return ["inf", x < 0]
        fr = Fraction(repr(x))
        return ["q", fr.numerator, fr.denominator]
    if isinstance(x, str):
        return ["s", x]
    if isinstance(x, tuple):
        return ["t", [canon_val(y) for y in x]]
    if isinstance(x, list):
        return ["l", [canon_val(y) for y in x]]
    if isinstance(x, dict):
        return ["d", sorted([[k if isinstance(k, str) else "<non-str %r>" % (k,), canon_val(v)] for k, v in x.items()], key=lambda p: p[0])]
    return ["other", repr(x)]


def canon_row(d):
    out = []
    for k, v in d.items():
        c = canon_val(v)
        if c is not None:
            out.append([k if isinstance(k, str) else "<non-str %r>" % (k,), c])
    return sorted(out, key=lambda p: p[0])


def canon_result(res):
    return {
        "exp": canon_val(dict(res.experiment)),
        "envs": [canon_row(r) for r in res.environments.to_dicts()],
        "lrns": [canon_row(r) for r in res.learners.to_dicts()],
        "vals": [canon_row(r) for r in res.evaluators.to_dicts()],
        "ints": [canon_row(r) for r in res.interactions.to_dicts()],
    }


# ------------------------------------------------------------------ running the real code
class _Ctx:
    """install a capturing logger, restore everything afterwards"""

    def __enter__(self):
        from coba.context import CobaContext, BasicLogger
        from coba.pipes import ListSink
        self.msgs = []
        self.old_logger = CobaContext.logger
        self.old_store = dict(CobaContext.store)
        CobaContext.logger = BasicLogger(ListSink(self.msgs))
        return self

    def __exit__(self, *a):
        from coba.context import CobaContext
        CobaContext.logger = self.old_logger
        CobaContext.store.clear()
        CobaContext.store.update(self.old_store)


def build_objects(case):
    from props import c07_parts as P
    envs = [P.Env(i, dec(e["params"])) if e.get("params") is not None else P.EnvNoParams(i) for i, e in enumerate(case["envs"])]
    lrns = [P.Lrn(i, dec(e["params"])) if e.get("params") is not None else P.LrnNoParams(i) for i, e in enumerate(case["lrns"])]
    vals = []
    for i, e in enumerate(case["vals"]):
        table = {}
        for (te, tl, tv), rows in case["rows"]:
            if tv == i:
                table[(te, tl)] = [dec(r) for r in rows]
        if e.get("params") is not None:
            vals.append(P.Evl(i, dec(e["params"]), table, e.get("lazy", True)))
        else:
            vals.append(P.EvlNoParams(i, table, e.get("lazy", True)))
    return envs, lrns, vals


def run_route(case, path):
    """one route on fresh objects. path None -> ListSink route. Returns (Result|None, exc-name|None, log msgs, calls)"""
    from coba.experiments import Experiment
    envs, lrns, vals = build_objects(case)
    triples = [(envs[e], lrns[l], vals[v]) for e, l, v in case["triples"]]
    fail = set(map(tuple, case.get("fail", [])))
    skip1 = set(map(tuple, case.get("skip1", [])))
    two = path is not None and case.get("phases", 1) == 2

    def set_skip(s):
        for i, v in enumerate(vals):
            v.skip = {(e, l) for (e, l, vv) in s if vv == i}

    with _Ctx() as ctx:
        try:
            if two:
                set_skip(fail | skip1)
                Experiment(triples, case.get("desc")).run(path, processes=1, seed=case.get("seed", 1))
            set_skip(fail)
            res = Experiment(triples, case.get("desc")).run(path, processes=1, seed=case.get("seed", 1))
            return res, None, ctx.msgs, [v.calls for v in vals]
        except Exception as ex:  # the final read of the log raised
            return None, type(ex).__name__, ctx.msgs, [v.calls for v in vals]


def run_impl(case):
    """all three routes; returns dict route -> canonical result or {"raised": name}"""
    from coba.results import Result
    out, logs = {}, {}
    r1, x1, m1, _ = run_route(case, None)
    out["nofile"] = canon_result(r1) if r1 is not None else {"raised": x1}
    logs["nofile"] = m1
    d = tempfile.mkdtemp(prefix="c07_")
    try:
        path = os.path.join(d, "result.log" + (".gz" if case.get("gz") else ""))
        r2, x2, m2, _ = run_route(case, path)
        out["file"] = canon_result(r2) if r2 is not None else {"raised": x2}
        logs["file"] = m2
        try:
            with _Ctx():
                r3 = Result.from_file(path)
            out["from_file"] = canon_result(r3)
        except Exception as ex:
            out["from_file"] = {"raised": type(ex).__name__}
    finally:
        shutil.rmtree(d, ignore_errors=True)
    return out, logs


class C07(Property):
    id = "C07"
    prop_modules = ["CobaVerif.Props.C07"]
    quick_n, thorough_n, search_n = 600, 12000, 1500
    case_timeout = 60
    workers = 8


PROPERTY = C07()
