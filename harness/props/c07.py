"""C07 The result log faithfully records what evaluators produced.

Drives the REAL pipeline end to end (Experiment.run with instrumented components, ListSink route,
DiskSink route plain/.gz, fresh and restored, Result.from_file) and compares
  (B) the four tables with what the components produced, up to the documented normalisation, and the
      three routes with each other;
  (A) the tables with the Lean model (CobaVerif.Model.C07) evaluated by the driver;
  (C) the Lean model of the repaired code with the Python oracle of the normalisation.
"""
import json
import math
import os
import shutil
import tempfile
from fractions import Fraction

from core.engine import Property, F

ID_COLS = ("environment_id", "learner_id", "evaluator_id", "index")
RESERVED_ROW_KEYS = set(ID_COLS)


# ------------------------------------------------------------------ tagged values
def dec(v):
    from props.c07_parts import dec as _dec
    return _dec(v)


def is_seq(v):
    return isinstance(v, list) and v[0] in ("l", "t")


def pystr_key(k):
    """Python's str(k) of a tagged key"""
    return str(dec(k))


def json_key(k):
    """the key json.dumps writes for a tagged key (str/int/float/bool/None)"""
    return next(iter(json.loads(json.dumps({dec(k): 0}))))


def canon_val(x):
    """canonical JSON form of a Python value read back from a Result (numbers by value)"""
    if x is None:
        return None
    if type(x).__name__ == "MissingType":
        return None
    if isinstance(x, bool):
        return x
    if isinstance(x, int):
        return ["q", x, 1]
    if isinstance(x, float):
        if math.isnan(x):
            return ["nan"]
        if math.isinf(x):
            return ["inf", x < 0]
        fr = Fraction(repr(x))
        return ["q", fr.numerator, fr.denominator]
    if isinstance(x, str):
        return ["s", x]
    if isinstance(x, tuple):
        return ["t", [canon_val(y) for y in x]]
    if isinstance(x, list):
        return ["l", [canon_val(y) for y in x]]
    if isinstance(x, dict):
        return ["d", sorted([[k if isinstance(k, str) else "<non-str %r>" % (k,), canon_val(v)] for k, v in x.items()], key=lambda p: p[0])]
    return ["other", repr(x)]


def canon_row(d):
    out = []
    for k, v in d.items():
        c = canon_val(v)
        if c is not None:
            out.append([k if isinstance(k, str) else "<non-str %r>" % (k,), c])
    return sorted(out, key=lambda p: p[0])


def canon_padded(res):
    """the four tables as `Table` exposes them: column order and cells with `Missing` kept apart from None"""
    out = []
    for t in (res.environments, res.learners, res.evaluators, res.interactions):
        cols = list(t.columns)
        rows = []
        for d in t.to_dicts():
            rows.append([["M"] if type(d[c]).__name__ == "MissingType" else canon_val(d[c]) for c in cols])
        out.append({"columns": cols, "rows": rows})
    return out


def cache_view(res):
    """what `Result.__init__` derives from the tables: the three caches (id -> row of to_dicts()) and every learner's `full_name`;
    `strs` = Python's str() of every cell of the learner row (Missing included), used to render the model's ingredients"""
    out = {"problems": [], "lrn": []}
    for name, tbl, idcol, cache in (("env", res.environments, "environment_id", res._env_cache), ("lrn", res.learners, "learner_id", res._lrn_cache),
                                    ("val", res.evaluators, "evaluator_id", res._val_cache)):
        rows = list(tbl.to_dicts())
        ids = [r[idcol] for r in rows]
        if list(cache.keys()) != ids:
            out["problems"].append(("keys:" + name, "_%s_cache has keys %s, the table has ids %s" % (name, list(cache.keys()), ids)))
            continue
        for r in rows:
            c = {k: v for k, v in cache[r[idcol]].items() if not (name == "lrn" and k == "full_name")}
            if canon_row(c) != canon_row(r) or list(c.keys()) != list(r.keys()):
                out["problems"].append(("row:" + name, "_%s_cache[%r] is %s, the table row is %s" % (name, r[idcol], json.dumps(canon_row(c))[:150], json.dumps(canon_row(r))[:150])))
            if name == "lrn":
                out["lrn"].append({"id": canon_val(r[idcol]), "full_name": cache[r[idcol]].get("full_name"), "strs": {k: str(v) for k, v in r.items()},
                                   "missing": [k for k, v in r.items() if type(v).__name__ == "MissingType"]})
    return out


def render_full_name(entry, m):
    """the text `Result.__init__` builds from the ingredients the Lean model selected (`fullNameOf`), with Python's str() of the real cells"""
    st = entry["strs"]
    lrn_id = st["learner_id"]
    family = lrn_id if m["family"] == "no-column" else st["family"]
    if m["vw"]:
        return "%s. %s(%s, seed=%s)" % (lrn_id, family, st["args"], st["seed"])
    params = ["%s=%s" % (k, st[k]) for k in (unlean_str(k) for k in m["keys"])]
    return "%s. %s%s" % (lrn_id, family, "(%s)" % ", ".join(params) if params else "")


def index_checks(res):
    """queries that rely on the tables being sorted/indexed as declared: every parameter table ascending by id, `where(id=k)` returns exactly
    the row with that id, the interactions of a triple are found through the index, filter_env / where_fin leave consistent tables.
    -> list of (sig-suffix, text)"""
    probs = []
    canon_rows = lambda rows: [canon_row(r) for r in rows]
    for name, tbl, idcol in (("envs", res.environments, "environment_id"), ("lrns", res.learners, "learner_id"), ("vals", res.evaluators, "evaluator_id")):
        rows = list(tbl.to_dicts())
        ids = [r[idcol] for r in rows]
        if ids != sorted(ids):
            probs.append((name + ":unsorted", "%s table (declared indexed by %s) has ids in the order %s" % (name, idcol, ids)))
        for k in ids:
            got = canon_rows(tbl.where(**{idcol: k}).to_dicts())
            want = canon_rows([r for r in rows if r[idcol] == k])
            if got != want or len(got) != 1:
                probs.append((name + ":where-id", "%s.where(%s=%r) returns %s, the table holds %s for that id (ids in table order: %s)" % (name, idcol, k, json.dumps(got)[:200], json.dumps(want)[:200], ids)))
    it = res.interactions
    rows = list(it.to_dicts())
    seen = []
    for r in rows:
        key = (r["environment_id"], r["learner_id"], r["evaluator_id"])
        if key not in seen:
            seen.append(key)
    for (e, l, v) in seen:
        got = canon_rows(it.where(environment_id=e).where(learner_id=l).where(evaluator_id=v).to_dicts())
        want = canon_rows([r for r in rows if (r["environment_id"], r["learner_id"], r["evaluator_id"]) == (e, l, v)])
        if got != want:
            probs.append(("ints:where-ids", "interactions.where(environment_id=%r).where(learner_id=%r).where(evaluator_id=%r) returns %d rows, the table holds %d" % (e, l, v, len(got), len(want))))
    env_ids = [r["environment_id"] for r in res.environments.to_dicts()]
    for k in env_ids:
        sub = res.filter_env(environment_id=k)
        sids = [r["environment_id"] for r in sub.environments.to_dicts()]
        n_int = len([1 for r in sub.interactions.to_dicts()])
        bad_int = [r["environment_id"] for r in sub.interactions.to_dicts() if r["environment_id"] != k]
        if sids != [k] or bad_int or n_int != len([1 for r in rows if r["environment_id"] == k]):
            probs.append(("filter_env", "filter_env(environment_id=%r): environments %s, %d interactions (%d expected), foreign interaction rows %s" % (
                k, sids, n_int, len([1 for r in rows if r["environment_id"] == k]), bad_int[:5])))
    if rows:
        fin = res.where_fin(None, "learner_id", "environment_id")
        fe = [r["environment_id"] for r in fin.environments.to_dicts()]
        fi = sorted({r["environment_id"] for r in fin.interactions.to_dicts()})
        if len(fe) != len(set(fe)) or sorted(fe) != fi:
            probs.append(("where_fin", "where_fin(None,'learner_id','environment_id'): environments table has ids %s, its interactions use %s" % (fe, fi)))
    return probs


def canon_result(res):
    return {
        "exp": canon_val(dict(res.experiment)),
        "envs": [canon_row(r) for r in res.environments.to_dicts()],
        "lrns": [canon_row(r) for r in res.learners.to_dicts()],
        "vals": [canon_row(r) for r in res.evaluators.to_dicts()],
        "ints": [canon_row(r) for r in res.interactions.to_dicts()],
    }


# ------------------------------------------------------------------ running the real code
class _Ctx:
    """install a capturing logger, restore everything afterwards"""

    def __enter__(self):
        from coba.context import CobaContext, BasicLogger
        from coba.pipes import ListSink
        self.msgs = []
        self.old_logger = CobaContext.logger
        self.old_store = dict(CobaContext.store)
        CobaContext.logger = BasicLogger(ListSink(self.msgs))
        return self

    def __exit__(self, *a):
        from coba.context import CobaContext
        CobaContext.logger = self.old_logger
        CobaContext.store.clear()
        CobaContext.store.update(self.old_store)


def build_objects(case):
    from props import c07_parts as P
    envs = [P.Env(i, dec(e["params"])) if e.get("params") is not None else (P.base_class("env", e["base"])(i) if e.get("base") else P.EnvNoParams(i)) for i, e in enumerate(case["envs"])]
    lrns = [P.Lrn(i, dec(e["params"])) if e.get("params") is not None else (P.base_class("lrn", e["base"])(i) if e.get("base") else P.LrnNoParams(i)) for i, e in enumerate(case["lrns"])]
    vals = []
    for i, e in enumerate(case["vals"]):
        table = {}
        for (te, tl, tv), rows in case["rows"]:
            if tv == i:
                table[(te, tl)] = [dec(r) for r in rows]
        if e.get("params") is None and e.get("base"):
            vals.append(P.base_class("val", e["base"])(i, table, e.get("lazy", True)))
        elif e.get("params") is not None:
            vals.append(P.Evl(i, dec(e["params"]), table, e.get("lazy", True)))
        else:
            vals.append(P.EvlNoParams(i, table, e.get("lazy", True)))
    return envs, lrns, vals


def run_route(case, path):
    """one route on fresh objects. path None -> ListSink route. Returns (Result|None, exc-name|None, log msgs, calls)"""
    from coba.experiments import Experiment
    envs, lrns, vals = build_objects(case)
    triples = [(envs[e], lrns[l], vals[v]) for e, l, v in case["triples"]]
    fail = set(map(tuple, case.get("fail", [])))
    skip1 = set(map(tuple, case.get("skip1", [])))
    two = path is not None and case.get("phases", 1) == 2

    def set_skip(s):
        for i, v in enumerate(vals):
            v.skip = {(e, l) for (e, l, vv) in s if vv == i}

    ab = abort_of(case)

    def set_poison(on):
        pk = param_key_comp(case)
        for kind, objs in (("env", envs), ("lrn", lrns), ("val", vals)):
            for i, o in enumerate(objs):
                if hasattr(o, "poison_params"):
                    o.poison_params = bool(on and pk == (kind, i))
        for i, v in enumerate(vals):
            v.poison = {(ab["tri"][0], ab["tri"][1]): (ab["kind"], ab.get("row", 0))} if (on and ab and not pk and ab["tri"][2] == i) else {}

    with _Ctx() as ctx:
        try:
            if ab:
                # the run stops in the middle (unwritable cell / Ctrl-C while evaluating triple `tri`): what was completed before stays recorded.
                # repair=False: every route is that stopped run.  repair=True: the file route is the stopped run followed by a complete one on the same file.
                set_skip(fail)
                calls0 = None
                if not ab.get("repair") or path is not None:
                    set_poison(True)
                    res = Experiment(eval_tuples=triples, description=case.get("desc")).run(path, processes=1, seed=case.get("seed", 1))
                    calls0 = [list(v.calls) for v in vals]
                if ab.get("repair"):
                    set_poison(False)
                    res = Experiment(eval_tuples=triples, description=case.get("desc")).run(path, processes=1, seed=case.get("seed", 1))
                return res, None, ctx.msgs, (calls0 if calls0 is not None else [v.calls for v in vals])
            if two:
                set_skip(fail | skip1)
                Experiment(eval_tuples=triples, description=case.get("desc")).run(path, processes=1, seed=case.get("seed", 1))
            set_skip(fail)
            res = Experiment(eval_tuples=triples, description=case.get("desc")).run(path, processes=1, seed=case.get("seed", 1))
            if path is not None and case.get("punch"):
                # the existing file holds a non-prefix subset of a complete log: delete the chosen E/L/V/I records, run again
                punch_file(case, path)
                res = Experiment(eval_tuples=triples, description=case.get("desc")).run(path, processes=1, seed=case.get("seed", 1))
            if path is not None and dup_ops(case):
                dup_file(case, path)
                res = Experiment(eval_tuples=triples, description=case.get("desc")).run(path, processes=1, seed=case.get("seed", 1))
            if path is not None and case.get("torn"):
                # round h: killed while writing the last record (possibly longer than 64 KiB); the same experiment is run again on that file
                case["_torn_seen"] = tear_file(case, path)
                res = Experiment(eval_tuples=triples, description=case.get("desc")).run(path, processes=1, seed=case.get("seed", 1))
            if path is not None and case.get("shuffle") is not None:
                # the records reached the log in another order (several worker processes): same records, permuted; then a restored run on it
                shuffle_file(case, path)
                res = Experiment(eval_tuples=triples, description=case.get("desc")).run(path, processes=1, seed=case.get("seed", 1))
            if path is not None and case.get("regroup"):
                # phase 6: the records of DIFFERENT ids reached the log in another order, the records of each single id (there may be several:
                # duplicated / re-recorded ids) keep their order; then a restored run on it (theorem same_key_order_invariant)
                case["_regroup_moved"] = regroup_file(case, path)
                res = Experiment(eval_tuples=triples, description=case.get("desc")).run(path, processes=1, seed=case.get("seed", 1))
            return res, None, ctx.msgs, [v.calls for v in vals]
        except BaseException as ex:  # the final read of the log raised (or an interrupt escaped run())
            if not isinstance(ex, (Exception, KeyboardInterrupt)):
                raise
            return None, type(ex).__name__, ctx.msgs, [v.calls for v in vals]


def abort_of(case):
    """the usable `abort` entry of a case: {"tri": [e,l,v] (one of the triples, not a failing one), "kind": set|object|interrupt, "row": r, "repair": bool}"""
    ab = case.get("abort")
    if not ab:
        return None
    tris = [list(t) for t in case["triples"]]
    if list(ab["tri"]) not in tris or list(ab["tri"]) in [list(t) for t in case.get("fail", [])]:
        return None
    return ab


def param_key_comp(case):
    """abort kinds `param-key:env|lrn|val`: the component of the abort triple whose params dictionary gets a tuple key (json cannot write it: the run
    stops at that component's record).  Only for components with own params; -> (kind, index) or None"""
    ab = abort_of(case)
    if not ab or not str(ab.get("kind", "")).startswith("param-key:"):
        return None
    kind = ab["kind"].split(":")[1]
    i = ab["tri"][{"env": 0, "lrn": 1, "val": 2}[kind]]
    comp = case[{"env": "envs", "lrn": "lrns", "val": "vals"}[kind]][i]
    return (kind, i) if comp.get("params") is not None else None


def called_triples(calls):
    """calls: per evaluator index the (env.tag, lrn.tag) pairs it was asked to evaluate -> list of triples"""
    return [(e, l, v) for v, cs in enumerate(calls or []) for (e, l) in cs]


FNAME_SHAPES = {
    "plain": ("", "result.log"), "gz": ("", "result.log.gz"), "gz-inside": ("", "result.gz.bak"), "gz-dir": ("runs.gz.d", "result.log"),
    "space-unicode": ("d \u00e9", "r \u00fc n.log"), "space-unicode-gz": ("", "r \u00e9 s.log.gz"), "upper-gz": ("", "result.GZ"), "dot": ("", ".gz.log"),
}


def fname_shape(case):
    return case.get("fname") or ("gz" if case.get("gz") else "plain")


def is_gzip_name(path):
    """both DiskSink and DiskSource treat a path as gzip when it contains '.gz'"""
    return ".gz" in path


def punched_records(case):
    """the records of a complete log that `punch` deletes: set of ('E',id) / ('L',id) / ('V',id) / ('I',(e,l,v)) in log ids"""
    eid, lid, vid = assign_ids(case)
    out = set()
    for sel in case.get("punch") or []:
        kind, x = sel
        if kind == "E" and x in eid:
            out.add(("E", eid[x]))
        elif kind == "L" and x in lid:
            out.add(("L", lid[x]))
        elif kind == "V" and x in vid:
            out.add(("V", vid[x]))
        elif kind == "I" and x[0] in eid and x[1] in lid and x[2] in vid:
            out.add(("I", (eid[x[0]], lid[x[1]], vid[x[2]])))
    return out


def punch_file(case, path):
    """rewrite the result file without the punched records (version and experiment lines always stay)"""
    import gzip
    opener = gzip.open if is_gzip_name(path) else open
    with opener(path, "rb") as f:
        lines = f.read().split(b"\n")
    gone = punched_records(case)
    keep = []
    for ln in lines:
        if not ln.strip():
            continue
        rec = json.loads(ln.decode("utf-8"))
        key = None
        if rec and rec[0] in ("E", "L", "V"):
            key = (rec[0], rec[1])
        elif rec and rec[0] == "I":
            key = ("I", tuple(rec[1]))
        if key in gone:
            continue
        keep.append(ln)
    with opener(path, "wb") as f:
        f.write(b"".join(k + b"\n" for k in keep))


_PAIR = {"2": "3", "3": "2", "4": "5", "5": "4", "6": "7", "7": "6", "8": "9", "9": "8"}
_SWAP = str.maketrans("abxy", "bayx")


def decoy_val(v):
    """a different value that prints with the same number of characters wherever that is easy"""
    if v is None or isinstance(v, bool):
        return v
    t = v[0]
    if t == "i":
        d = str(v[1])
        return ["i", int(d[:-1] + _PAIR[d[-1]])] if d[-1] in _PAIR else v
    if t == "f":
        d = v[1]
        return ["f", d[:-1] + _PAIR[d[-1]]] if d[-1] in _PAIR and "e" not in d and "n" not in d else v
    if t == "s":
        return ["s", v[1].translate(_SWAP)]
    if t in ("l", "t"):
        return [t, [decoy_val(x) for x in v[1]]]
    if t == "d":
        return ["d", [[k, decoy_val(x)] for k, x in v[1]]]
    if t == "r":
        return ["r", v[1], [decoy_val(x) for x in v[2]]]
    return v


def decoy_case(case):
    """another experiment of the same shape (same components/triples, other values) to be run on the same path beforehand"""
    c = json.loads(json.dumps(case))
    for kind in ("envs", "lrns", "vals"):
        for comp in c[kind]:
            if comp.get("params") is not None:
                comp["params"] = decoy_val(comp["params"])
    c["rows"] = [[t, [decoy_val(r) for r in rows]] for t, rows in c["rows"]]
    c["decoy"] = False
    c["shuffle"] = None
    c["regroup"] = False
    c["dup"] = []
    c["punch"] = []
    c["phases"] = 1
    c["abort"] = None
    return c


def tear_file(case, path):
    """round h: the run was killed while (or just after) writing its LAST record: cut `torn["cut"]` bytes off the end of the file (1 = only the final newline is
    missing: a complete but unterminated record).  -> (length of the last record incl. newline, bytes of it left on disk)"""
    if is_gzip_name(path):
        # coba writes one gzip member per record: a killed run leaves a torn last MEMBER, so the raw bytes are cut
        with open(path, "rb") as f:
            raw = f.read()
        cut = max(1, min(int(case["torn"]["cut"]), len(raw) // 4))
        with open(path, "wb") as f:
            f.write(raw[:len(raw) - cut])
        return 0, 0
    with open(path, "rb") as f:
        data = f.read()
    start = data.rfind(b"\n", 0, len(data) - 1) + 1
    cut = min(int(case["torn"]["cut"]), len(data) - start - 1)
    with open(path, "wb") as f:
        f.write(data[:len(data) - cut])
    return len(data) - start, len(data) - start - cut


def rec_key(rec):
    """the dictionary entry of `TransactionResult` a decoded log line goes to (Lean `recKey`)"""
    if not rec:
        return ("blank",)
    if rec[0] == "I":
        ids = list(rec[1])
        return ("I", tuple(ids + [0] if len(ids) == 2 else ids))
    if rec[0] in ("E", "L", "V"):
        return (rec[0], rec[1])
    return (rec[0],)


def regroup_lines(keys, lines):
    """Lean `regroupBy (recs.map recKey) recs`: the records of every key of the log are pulled to the front (stable), one key after the
    other in log order - a rearrangement that keeps the relative order of the records of each single key"""
    pairs = list(zip(keys, lines))
    for k in keys:
        pairs = [p for p in pairs if p[0] == k] + [p for p in pairs if p[0] != k]
    return [ln for _, ln in pairs]


def regroup_file(case, path):
    """phase 6: rewrite the result file with the records after the version line grouped by key (same rearrangement as Lean `regroupLog`)"""
    import gzip
    opener = gzip.open if is_gzip_name(path) else open
    with opener(path, "rb") as f:
        lines = [ln for ln in f.read().split(b"\n") if ln.strip()]
    if not lines:
        return 0
    head, rest = lines[:1], lines[1:]
    keys = [rec_key(json.loads(ln.decode("utf-8"))) for ln in rest]
    new = regroup_lines(keys, rest)
    with opener(path, "wb") as f:
        f.write(b"".join(k + b"\n" for k in head + new))
    return sum(1 for a, b in zip(new, rest) if a != b)


def shuffle_file(case, path):
    """rewrite the result file with its E/L/V/I records permuted (version and experiment lines stay in front).
    shuffle = -1: every kind in descending id order; otherwise the permutation of Rng(shuffle)"""
    import gzip
    from core.prng import Rng
    opener = gzip.open if is_gzip_name(path) else open
    with opener(path, "rb") as f:
        lines = [ln for ln in f.read().split(b"\n") if ln.strip()]
    head, recs = [], []
    for ln in lines:
        rec = json.loads(ln.decode("utf-8"))
        (recs if rec and rec[0] in ("E", "L", "V", "I") else head).append(ln)
    if case["shuffle"] == -1:
        recs = recs[::-1]
    else:
        recs = Rng(case["shuffle"], "C07-shuffle").shuffle(recs)
    with opener(path, "wb") as f:
        f.write(b"".join(k + b"\n" for k in head + recs))


def run_impl(case):
    """all three routes; returns dict route -> canonical result or {"raised": name}"""
    from coba.results import Result
    out, logs = {}, {}
    r1, x1, m1, c1 = run_route(effective_case(case) if dup_ops(case) else case, None)
    out["nofile"] = canon_result(r1) if r1 is not None else {"raised": x1}
    logs["nofile"] = m1
    logs["calls"] = {"nofile": called_triples(c1)}
    logs["index"] = {}

    def idx(route, r):
        if r is None:
            return
        try:
            with _Ctx():
                logs["index"][route] = index_checks(r)
        except Exception as ex:
            logs["index"][route] = [("raised", "an indexed query on the Result of route %s raised %s: %s" % (route, type(ex).__name__, str(ex)[:200]))]
    idx("nofile", r1)
    logs["padded_all"] = {"nofile": canon_padded(r1) if r1 is not None else None}
    d = tempfile.mkdtemp(prefix="c07_")
    try:
        sub, base = FNAME_SHAPES[fname_shape(case)]
        if sub:
            os.makedirs(os.path.join(d, sub), exist_ok=True)
        path = os.path.join(d, sub, base)
        if case.get("decoy"):
            # the same path held the log of a different experiment before (loaded, then removed): nothing of it may show up later
            try:
                run_route(decoy_case(case), path)
                with _Ctx():
                    Result.from_file(path)
            except Exception:
                pass
            if os.path.exists(path):
                os.remove(path)
        r2, x2, m2, c2 = run_route(case, path)
        logs["calls"]["file"] = called_triples(c2)
        out["file"] = canon_result(r2) if r2 is not None else {"raised": x2}
        logs["file"] = m2
        logs["padded"] = canon_padded(r2) if r2 is not None else None
        logs["padded_all"]["file"] = logs["padded"]
        logs["cache"] = {}
        for route, rr in (("nofile", r1), ("file", r2)):
            if rr is not None:
                try:
                    logs["cache"][route] = cache_view(rr)
                except Exception as ex:
                    logs["cache"][route] = {"problems": [("raised", "reading the caches of route %s raised %s: %s" % (route, type(ex).__name__, str(ex)[:150]))], "lrn": []}
        idx("file", r2)
        try:
            with _Ctx():
                r3 = Result.from_file(path)
            out["from_file"] = canon_result(r3)
            logs["padded_all"]["from_file"] = canon_padded(r3)
            try:
                logs["cache"]["from_file"] = cache_view(r3)
            except Exception as ex:
                logs["cache"]["from_file"] = {"problems": [("raised", "reading the caches of route from_file raised %s: %s" % (type(ex).__name__, str(ex)[:150]))], "lrn": []}
            idx("from_file", r3)
        except Exception as ex:
            out["from_file"] = {"raised": type(ex).__name__}
    finally:
        shutil.rmtree(d, ignore_errors=True)
    return out, logs



# ------------------------------------------------------------------ what the components produce
CLASSNAMES = {"env": ("Env", "EnvNoParams"), "lrn": ("Lrn", "LrnNoParams"), "val": ("Evl", "EvlNoParams")}
TYPEKEY = {"env": "env_type", "lrn": "family", "val": "eval_type"}


def S(s):
    return ["s", s]


def safe_params(kind, comp):
    """the params coba records for a component (SafeEnvironment/SafeLearner/SafeEvaluator.params), tagged pairs"""
    p = comp.get("params")
    cls = CLASSNAMES[kind][0 if p is not None else 1]
    if p is None and comp.get("base"):
        cls = {"env": "BaseEnv", "lrn": "BaseLrn", "val": "BaseEvl"}[kind] + comp["base"]     # inherits coba's base class, defines no params
    pairs = [list(kv) for kv in (p[1] if p is not None else [])]
    tk = TYPEKEY[kind]
    has = [kv for kv in pairs if kv[0] == S(tk)]
    if kind == "val":
        if has:
            has[0][1] = S(cls)
        else:
            pairs.append([S(tk), S(cls)])
    elif not has:
        pairs.append([S(tk), S(cls)])
    return pairs


def assign_ids(case):
    """ids by first occurrence in the triples (MakeTasks)"""
    eid, lid, vid = {}, {}, {}
    for e, l, v in case["triples"]:
        eid.setdefault(e, len(eid))
        lid.setdefault(l, len(lid))
        vid.setdefault(v, len(vid))
    return eid, lid, vid


def rows_of(case, tri):
    for t, rows in case["rows"]:
        if list(t) == list(tri):
            return rows
    return []


def row_keys(row):
    return [kv[0] for kv in row[1]]


def union_keys(rows):
    out = []
    for r in rows:
        for k in row_keys(r):
            if k not in out:
                out.append(k)
    return out


def has_collision(rows):
    ks = union_keys(rows)
    strs = [pystr_key(k) for k in ks]
    return len(set(strs)) != len(strs)


def table_is_empty(rows):
    """the triple leaves no row in the interactions table (so a restored run evaluates it again)"""
    return len(union_keys(rows)) == 0


def abort_view(case, impl, logs):
    """for a run that was stopped in the middle (abort, no repair): which evaluations were completed (asked of the evaluator before the run
    stopped, neither failing nor the one that stopped the run) and which component records the log holds.  None for every other case.
    Which records precede the stop is MakeTasks/ChunkTasks' order (C02's subject) and is read off the run, not prescribed."""
    ab = abort_of(case)
    if not ab or ab.get("repair"):
        return None
    fail = set(map(tuple, case.get("fail", [])))
    called = set(map(tuple, (logs.get("calls") or {}).get("file") or []))
    stopper = None if str(ab.get("kind", "")).startswith("param-key:") else tuple(ab["tri"])     # a params record stops the run between evaluations
    done = [tuple(t) for t in case["triples"] if tuple(t) in called and tuple(t) not in fail and tuple(t) != stopper]
    ids = {}
    res = impl.get("file") or {}
    for tbl, idcol in (("envs", "environment_id"), ("lrns", "learner_id"), ("vals", "evaluator_id")):
        ids[tbl] = set()
        for r in res.get(tbl) or []:
            for k, v in r:
                if k == idcol and isinstance(v, list) and v and v[0] == "q":
                    ids[tbl].add(v[1])
    return {"done": done, "ids": ids}


def transactions(case, view=None):
    """(phase1 or None, last-run transactions) as the list ProcessTasks emits (order immaterial for the tables)"""
    eid, lid, vid = assign_ids(case)
    fail = set(map(tuple, case.get("fail", [])))
    if view is not None:
        txs = [{"t": "T1", "id": i, "p": ["d", safe_params("env", case["envs"][e])]} for e, i in eid.items() if i in view["ids"]["envs"]] \
            + [{"t": "T2", "id": i, "p": ["d", safe_params("lrn", case["lrns"][l])]} for l, i in lid.items() if i in view["ids"]["lrns"]] \
            + [{"t": "T3", "id": i, "p": ["d", safe_params("val", case["vals"][v])]} for v, i in vid.items() if i in view["ids"]["vals"]] \
            + [{"t": "T4", "ids": [eid[e], lid[l], vid[v]], "rows": [r for r in rows_of(case, (e, l, v))]} for (e, l, v) in view["done"]]
        return None, txs
    skip1 = set(map(tuple, case.get("skip1", [])))
    comps = []
    for e, i in eid.items():
        comps.append({"t": "T1", "id": i, "p": ["d", safe_params("env", case["envs"][e])]})
    for l, i in lid.items():
        comps.append({"t": "T2", "id": i, "p": ["d", safe_params("lrn", case["lrns"][l])]})
    for v, i in vid.items():
        comps.append({"t": "T3", "id": i, "p": ["d", safe_params("val", case["vals"][v])]})

    def t4(tri):
        e, l, v = tri
        return {"t": "T4", "ids": [eid[e], lid[l], vid[v]], "rows": [r for r in rows_of(case, tri)]}

    tris = [tuple(t) for t in case["triples"]]
    if case.get("punch") and case.get("phases", 1) == 1:
        gone = punched_records(case)

        def key(tx):
            if tx["t"] == "T4":
                return ("I", tuple(tx["ids"]))
            return ({"T1": "E", "T2": "L", "T3": "V"}[tx["t"]], tx["id"])
        full = comps + [t4(t) for t in tris if t not in fail]
        p1 = [tx for tx in full if key(tx) not in gone]
        # the second run records what is missing and evaluates every triple without a row in the table
        p2 = [tx for tx in comps if key(tx) in gone] + [t4(t) for t in tris if t not in fail and (key(t4(t)) in gone or table_is_empty(rows_of(case, t)))]
        return p1, p2
    if case.get("phases", 1) == 2:
        p1 = comps + [t4(t) for t in tris if t not in fail and t not in skip1]
        done_nonempty = [t for t in tris if t not in fail and t not in skip1 and not table_is_empty(rows_of(case, t))]
        p2 = [t4(t) for t in tris if t not in fail and t not in done_nonempty]
        return p1, p2
    return None, comps + [t4(t) for t in tris if t not in fail]


def reward_form(o):
    """what the pinned code records for a reward object (coba.json: {registered name: __getstate__()}), as a tagged value.
    L1 -> {"L1": argmax}; BR -> {"BR": repr((argmax,))} or repr((argmax,value)); HR -> {"HR": repr(argmax)};
    DR -> {"DR": repr(((actions,rewards),0))}"""
    from props.c07_parts import dec as _dec
    name, args = o[1], [_dec(a) for a in o[2]]
    if name == "L1":
        st = o[2][0]
    elif name == "BR":
        st = ["s", repr((args[0],) if len(args) == 1 or args[1] == 1 else (args[0], args[1]))]
    elif name == "HR":
        st = ["s", repr(args[0])]
    elif name == "DR":
        st = ["s", repr(((args[0], args[1]), 0))]
    else:
        raise ValueError(o)
    return ["d", [[["s", name], st]]]


def lean_str(s):
    """order-preserving injective recoding of strings for the JSON line protocol to the Lean driver, which cannot carry
    surrogates: code points from U+D800 on are shifted up by 0x800 (generated strings stay below U+10F800)"""
    if not any(ord(c) >= 0xD800 for c in s):
        return s
    return "".join(chr(ord(c) + 0x800) if ord(c) >= 0xD800 else c for c in s)


def unlean_str(s):
    if not any(ord(c) >= 0xE000 for c in s):
        return s
    return "".join(chr(ord(c) - 0x800) if ord(c) >= 0xE000 else c for c in s)


def with_dups(case, p1, txs):
    """the records `dup_file` appends, as transactions: the log then holds two records for those ids"""
    ops = dup_ops(case)
    if not ops:
        return p1, txs
    eid, lid, vid = assign_ids(case)
    extra = []
    cur_rows = {tuple(t): r for t, r in case["rows"]}
    for k, a, b in ops:
        if k == "I":
            extra.append({"t": "T4", "ids": [eid[b[0]], lid[b[1]], vid[b[2]]], "rows": cur_rows.get(tuple(a), [])})
            cur_rows[tuple(b)] = cur_rows.get(tuple(a), [])
        elif k == "E":
            extra.append({"t": "T1", "id": eid[b], "p": ["d", safe_params("env", case["envs"][a])]})
        else:
            extra.append({"t": "T2", "id": lid[b], "p": ["d", safe_params("lrn", case["lrns"][a])]})
    return p1, txs + extra


def lean_key(k):
    if k is None or isinstance(k, bool):
        return k
    if k[0] == "s":
        return ["s", lean_str(k[1])]
    if k[0] == "i":
        return ["i", int(k[1])]
    return ["o", lean_str(pystr_key(k))]


def lean_val(v):
    if v is None or isinstance(v, bool):
        return v
    t = v[0]
    if t == "i":
        return ["i", int(v[1])]
    if t == "f":
        x = float(v[1])
        if math.isnan(x):
            return ["nan"]
        if math.isinf(x):
            return ["inf", x < 0]
        n, d = x.as_integer_ratio()
        return ["q", n, d]
    if t == "s":
        return ["s", lean_str(v[1])]
    if t in ("l", "t"):
        return [t, [lean_val(x) for x in v[1]]]
    if t == "d":
        return ["d", [[lean_key(k), lean_val(x)] for k, x in v[1]]]
    if t == "r":
        form = reward_form(v)                # the model itself produces the registered json form {name: state} (Val.reward)
        return ["r", form[1][0][0][1], lean_val(form[1][0][1])]
    raise ValueError(v)


def lean_tx(tx):
    out = dict(tx)
    if "p" in out:
        out["p"] = lean_val(out["p"])
    if "rows" in out:
        out["rows"] = [lean_val(r) for r in out["rows"]]
    return out


def sort_model_val(c):
    """model values come with dict entries in insertion order; sort them like canon_val does"""
    if isinstance(c, list) and c:
        if c[0] in ("l", "t"):
            return [c[0], [sort_model_val(x) for x in c[1]]]
        if c[0] == "d":
            return ["d", sorted([[unlean_str(k), sort_model_val(v)] for k, v in c[1]], key=lambda p: p[0])]
        if c[0] == "s":
            return ["s", unlean_str(c[1])]
        if c[0] == "q" and c[2] != 1:
            # a non-integral model number stands for the double nearest to it; canon_val names doubles by their shortest decimal repr
            fr = Fraction(repr(c[1] / c[2]))
            return ["q", fr.numerator, fr.denominator]
    return c


def canon_model_row(row):
    return sorted([[unlean_str(k), sort_model_val(v)] for k, v in row if v is not None], key=lambda p: p[0])


def canon_model_result(r):
    if "raised" in r:
        return r
    return {"exp": ["d", sorted([[unlean_str(k), sort_model_val(v)] for k, v in r["exp"]], key=lambda p: p[0])], "envs": [canon_model_row(x) for x in r["envs"]],
            "lrns": [canon_model_row(x) for x in r["lrns"]], "vals": [canon_model_row(x) for x in r["vals"]],
            "ints": [canon_model_row(x) for x in r["ints"]]}


def has_tie(v):
    """some finite float leaf lies within 1e-7 (in units of the 5th decimal) of a rounding tie"""
    if v is None or isinstance(v, bool):
        return False
    t = v[0]
    if t == "f":
        x = float(v[1])
        if not math.isfinite(x) or x.is_integer():
            return False
        y = Fraction(x) * 100000
        fr = y - (y.numerator // y.denominator)
        return abs(fr - Fraction(1, 2)) <= Fraction(1, 10 ** 7)
    if t in ("l", "t"):
        return any(has_tie(x) for x in v[1])
    if t == "d":
        return any(has_tie(x) for _, x in v[1])
    if t == "r":
        return has_tie(reward_form(v))
    return False


def eq_mod_ties(a, b):
    """equality of canonical values where numbers may differ by one unit of the 5th decimal"""
    if isinstance(a, list) and isinstance(b, list):
        if len(a) == 3 and len(b) == 3 and a[0] == "q" and b[0] == "q":
            return abs(Fraction(a[1], a[2]) - Fraction(b[1], b[2])) <= Fraction(100001, 10 ** 10)
        return len(a) == len(b) and all(eq_mod_ties(x, y) for x, y in zip(a, b))
    if isinstance(a, dict) and isinstance(b, dict):
        return a.keys() == b.keys() and all(eq_mod_ties(a[k], b[k]) for k in a)
    return a == b


def lenient_cell(col, c):
    return ["l", c[1]] if col == "rewards" and isinstance(c, list) and c and c[0] == "t" else c


def lenient_rewards(res):
    """the exempt 'rewards' column: list or tuple are the same observable"""
    if "raised" in res:
        return res
    out = dict(res)
    out["ints"] = [[[k, (["l", v[1]] if k == "rewards" and isinstance(v, list) and v and v[0] == "t" else v)] for k, v in r] for r in res["ints"]]
    return out


# ------------------------------------------------------------------ the documented normalisation (oracle for B)
TIE_SLACK = Fraction(1, 2 ** 50)


def float_ok(x, g):
    if not (isinstance(g, list) and g and g[0] == "q"):
        return "float"
    G = Fraction(g[1], g[2])
    X = Fraction(x)
    if x.is_integer():
        return None if G == X else "float-integral"
    if (G * 100000).denominator != 1:
        return "float-not-5-decimals"
    if abs(G - X) <= Fraction(1, 200000) + abs(X) * TIE_SLACK:
        return None
    return "float-rounding"


def val_ok(o, g, top, tupled=True):
    """o: tagged original, g: canonical value read back. None when g is o up to the documented normalisation."""
    if o is None:
        return None if g is None else "none"
    if isinstance(o, bool):
        return None if g is o else "bool"
    t = o[0]
    if t == "r":
        # the registered json form {name: __getstate__()} exactly; the state goes through json as it is (not rounded)
        form = reward_form(o)
        want = canon_val({form[1][0][0][1]: dec(form[1][0][1])})
        return None if g == want else "reward-form"
    if t == "i":
        return None if g == ["q", int(o[1]), 1] else "int"
    if t == "f":
        x = float(o[1])
        if math.isnan(x):
            return None if g == ["nan"] else "nan"
        if math.isinf(x):
            return None if g == ["inf", x < 0] else "inf"
        return float_ok(x, g)
    if t == "s":
        return None if g == ["s", o[1]] else "str"
    if t in ("l", "t"):
        if not (isinstance(g, list) and g and g[0] in ("l", "t")):
            return "seq"
        if top:
            if tupled is True and g[0] != "t":
                return "seq-not-tuple"
        elif g[0] != "l":
            return "nested-seq-not-list"
        if len(g[1]) != len(o[1]):
            return "seq-len"
        for a, b in zip(o[1], g[1]):
            r = val_ok(a, b, False)
            if r:
                return r
        return None
    if t == "d":
        if not (isinstance(g, list) and g and g[0] == "d"):
            return "dict"
        want = {}
        for k, v in o[1]:
            want[json_key(k)] = v
        got = {k: v for k, v in g[1]}
        if set(want) != set(got):
            return "dict-keys"
        for k in want:
            r = val_ok(want[k], got[k], False)
            if r:
                return r
        return None
    return "type"


def kind_of(o):
    if o is None:
        return "none"
    if isinstance(o, bool):
        return "bool"
    return {"i": "int", "f": "float", "s": "str", "l": "list", "t": "tuple", "d": "dict", "r": "reward"}[o[0]]


def row_get(row, name):
    """values a row holds under field names whose str() is `name` (several only when names collide)"""
    return [v for k, v in row[1] if pystr_key(k) == name]



# ------------------------------------------------------------------ (B) the property, directly
def p16_shape(rows, name):
    """how the pinned commit's first-row test goes wrong on column `name` of a transaction:
    None (it does not), 'TypeError', 'list-kept', 'scalar-tupled'"""
    if name == "rewards":
        return None
    cells = []
    for r in rows:
        vs = row_get(r, name)
        cells.append(vs[-1] if vs else None)
    if not cells:
        return None
    first_seq = is_seq(cells[0])
    kinds = [kind_of(c) for c in cells]
    if first_seq:
        if any(k in ("none", "bool", "int", "float") for k in kinds):
            return "TypeError"
        if any(k in ("str", "dict", "reward") for k in kinds):
            return "scalar-tupled"
        return None
    if any(is_seq(c) for c in cells):
        return "list-kept"
    return None


def check_property(case, impl, view=None):
    """-> list of F('B', …).  view (abort_view): the run was stopped in the middle; the completed evaluations are view['done']"""
    fails = []
    eid, lid, vid = assign_ids(case)
    fail = set(map(tuple, case.get("fail", [])))
    tris = [tuple(t) for t in case["triples"]]
    done = [t for t in tris if t not in fail]
    if view is not None:
        done = list(view["done"])
    raised = {k: v["raised"] for k, v in impl.items() if "raised" in v}
    if raised:
        shapes = set()
        for t in done:
            rows = rows_of(case, t)
            for name in {pystr_key(k) for k in union_keys(rows)}:
                sh = p16_shape(rows, name)
                if sh:
                    shapes.add(sh)
        if len(raised) == 3 and set(raised.values()) == {"TypeError"} and "TypeError" in shapes:
            return [F("B", "Experiment.run / Result.from_file raise TypeError: a list-valued field of the first row of a transaction is None/absent/a number in a later row "
                      "(packed_list2tuple decides by the first row and calls tuple() on every cell)", "first-row-tuple:TypeError")]
        if set(raised.values()) == {"TypeError"} and any(has_collision(rows_of(case, t)) for t in done):
            return [F("B", "Experiment.run / Result.from_file raise TypeError after field names that collide under str() were packed into one column", "str-key-collision")]
        if set(raised.values()) == {"KeyError"} and len(raised) == 3:
            for c in case["lrns"]:
                pr = dict((json.dumps(k), v) for k, v in (c["params"][1] if c.get("params") else []))
                if pr.get(json.dumps(S("family"))) == S("vw") and not (json.dumps(S("args")) in pr and json.dumps(S("seed")) in pr):
                    return [F("B", "Experiment.run / Result.from_file raise KeyError: Result.__init__ builds full_name from params['args'] and params['seed'] whenever a learner's params say family='vw'",
                              "run-raised:KeyError:family-vw-without-args")]
        return [F("B", "reading the result log raised %s" % raised, "run-raised:" + "/".join(sorted(set(raised.values()))))]
    # three routes identical
    for a, b in (("nofile", "file"), ("file", "from_file")):
        for tbl in ("exp", "envs", "lrns", "vals", "ints"):
            if impl[a][tbl] != impl[b][tbl]:
                fails.append(F("B", "routes differ: %s of the Result via %s is %s, via %s it is %s (file name shape %s, phases=%s)" % (
                    tbl, a, json.dumps(impl[a][tbl])[:300], b, json.dumps(impl[b][tbl])[:300], fname_shape(case), case.get("phases", 1)),
                    "routes-differ:%s/%s:%s" % (a, b, tbl)))
    if fails:
        return fails
    res = impl["file"]
    # experiment meta
    exp = dict((k, v) for k, v in res["exp"][1]) if res["exp"] and res["exp"][0] == "d" else {}
    want_desc = ["s", case["desc"]] if case.get("desc") is not None else None
    if exp.get("description") != want_desc or exp.get("n_learners") != ["q", len(lid), 1] or exp.get("n_environments") != ["q", len(eid), 1] \
            or exp.get("seed") != ["q", case.get("seed", 1), 1]:
        fails.append(F("B", "Result.experiment is %s" % json.dumps(res["exp"])[:300], "experiment-meta"))
    # params tables
    for kind, tbl, idcol, ids, comps in (("env", "envs", "environment_id", eid, case["envs"]), ("lrn", "lrns", "learner_id", lid, case["lrns"]),
                                         ("val", "vals", "evaluator_id", vid, case["vals"])):
        rows = res[tbl]
        got_ids = [dict(map(tuple, [(k, json.dumps(v)) for k, v in r])).get(idcol) for r in rows]
        want_ids = [json.dumps(["q", i, 1]) for i in sorted(ids.values())]
        if view is not None:
            # a stopped run: every component of a completed evaluation is recorded; further components may be (recorded before the stop)
            pos = {"env": 0, "lrn": 1, "val": 2}[kind]
            need = {json.dumps(["q", ids[t[pos]], 1]) for t in done}
            if len(set(got_ids)) == len(got_ids) and need <= set(got_ids) <= set(want_ids):
                want_ids = [w for w in want_ids if w in set(got_ids)]
        if got_ids != want_ids:
            fails.append(F("B", "%s table has ids %s, expected %s" % (tbl, got_ids, want_ids), "params:%s:ids" % tbl))
            continue
        inv = {i: c for c, i in ids.items()}
        for r in rows:
            d = {k: v for k, v in r}
            i = d.pop(idcol)[1]
            want = {}
            for k, v in safe_params(kind, comps[inv[i]]):
                want[json_key(k)] = v
            for k in sorted(set(want) | set(d)):
                if k not in want:
                    fails.append(F("B", "%s row %d has a field %r=%s that is not in the component's params" % (tbl, i, k, json.dumps(d[k])[:100]), "params:%s:extra-field" % tbl))
                    continue
                why = val_ok(want[k], d.get(k), True)
                if why:
                    fails.append(F("B", "%s row %d: param %r was %s, table holds %s (%s)" % (tbl, i, k, json.dumps(want[k])[:150], json.dumps(d.get(k))[:150], why),
                                   "params:%s:%s" % (tbl, why)))
    # interactions
    by = {}
    order = []
    for r in res["ints"]:
        d = {k: v for k, v in r}
        try:
            key = (d["environment_id"][1], d["learner_id"][1], d["evaluator_id"][1])
        except Exception:
            fails.append(F("B", "interaction row without ids: %s" % json.dumps(r)[:200], "ints:no-ids"))
            continue
        if key not in by:
            order.append(key)
        by.setdefault(key, []).append(d)
    want_keys = {(eid[e], lid[l], vid[v]): (e, l, v) for (e, l, v) in done}
    for key in order:
        if key not in want_keys:
            fails.append(F("B", "interactions table has rows for triple %s which was not completed" % (key,), "ints:rows-of-uncompleted-triple"))
    for key, tri in sorted(want_keys.items()):
        rows = rows_of(case, tri)
        got = by.get(key, [])
        names = []
        for k in union_keys(rows):
            n = pystr_key(k)
            if n not in names:
                names.append(n)
        coll = has_collision(rows)
        if rows and not names and not got:
            fails.append(F("B", "triple %s: the evaluator yielded %d rows without fields, the interactions table has no row for it" % (key, len(rows)), "all-empty-rows-dropped"))
            continue
        if len(got) != len(rows):
            fails.append(F("B", "triple %s: the evaluator yielded %d rows, the interactions table has %d%s" % (key, len(rows), len(got), " (field names collide under str())" if coll else ""),
                           "str-key-collision" if coll else "ints:row-count"))
            continue
        for i, (orow, grow) in enumerate(zip(rows, got)):
            if grow.get("index") != ["q", i + 1, 1]:
                fails.append(F("B", "triple %s: row %d has index %s" % (key, i + 1, json.dumps(grow.get("index"))), "ints:index"))
            for n in names:
                if n in RESERVED_ROW_KEYS:
                    continue
                cands = row_get(orow, n) or [None]
                g = grow.get(n)
                whys = [val_ok(o, g, True, "either" if n == "rewards" else True) for o in cands]
                if None in whys:
                    continue
                why = whys[-1]
                o = cands[-1]
                sig = "ints:cell:" + why
                sh = p16_shape(rows, n)
                if sh == "list-kept" and why == "seq-not-tuple":
                    sig = "first-row-tuple:list-kept"
                elif sh == "scalar-tupled" and why in ("str", "dict"):
                    sig = "first-row-tuple:scalar-tupled"
                elif len([k for k in union_keys(rows) if pystr_key(k) == n]) > 1:
                    sig = "str-key-collision"
                fails.append(F("B", "triple %s row %d field %r: evaluator yielded %s, table holds %s (%s)" % (key, i + 1, n, json.dumps(o)[:150], json.dumps(g)[:150], why), sig))
            for n, g in grow.items():
                if n not in names and n not in ID_COLS and g is not None:
                    fails.append(F("B", "triple %s row %d has a field %r=%s the evaluator never yielded" % (key, i + 1, n, json.dumps(g)[:100]), "ints:extra-field"))
    if any(has_collision(rows_of(case, t)) for t in done):
        # columns of unequal length corrupt the whole interactions table: every mismatch of such a case is attributed to the collision
        for f in fails:
            if f["sig"].startswith("ints:"):
                f["sig"] = "str-key-collision"
    return fails


# ------------------------------------------------------------------ generator
# awkward code points are built with chr() so that no tool re-encodes them: lone surrogates (what surrogateescape decoding of undecodable
# file names produces), NUL, line/paragraph separators, NEL, astral characters, BOM, U+FFFF.  Not generated: a high surrogate directly
# followed by a low one as two separate code units (CPython's json joins them into one astral character when reading back).
_SUR_LO, _SUR_HI = chr(0xDC80), chr(0xD800)
AWKWARD_STRS = [_SUR_LO + "abc", "caf" + chr(0xDCE9) + ".csv", _SUR_HI, chr(0xDFFF) + chr(0xD800), "x" + chr(0xD83D), chr(0) , "a" + chr(0) + "b",
                chr(0x2028) + chr(0x2029), chr(0x85) + chr(0x1C), chr(0x10000) + chr(0x1F600), chr(0xFEFF) + "bom", chr(0xFFFF), chr(0x0B) + chr(0x0C)]
STR_POOL = ["", "a", "x y", "é", "naïve\n", "line1\nline2", "\r\n", "tab\tq\"uote\\", "\u2028sep", "\U0001F600", "NaN", "1", "null", " lead", "ü" * 3, "\x7f\x01"] + AWKWARD_STRS
ROW_STR_KEYS = ["reward", "a", "b", "c d", "é\n", "rewards", "action", "probability", "Z", "k9", "k" + _SUR_LO, chr(0) + "z", "p" + chr(0x2028), chr(0x1F600) + "k",
                # names that contain / extend the special ones ('rewards' is the only column exempt from the tuple conversion; the id columns are overwritten)
                "past_rewards", "summary rewards", "eval_rewards", "learn_rewards", "rewards2", "Rewards", "reward_", "xreward", "my index", "index2", "environment_id2",
                "x_learner_id", "evaluator_ids", "_packed", "_n"]
PARAM_STR_KEYS = ["a", "b", "learning_rate", "seed", "é", "x y", "args", "n\n", "type", "f" + _SUR_LO, "n" + chr(0), chr(0x2029) + "p"]


def gen_float(rng):
    k = rng.below(14)
    if k == 0:
        return rng.choice(["nan", "inf", "-inf"])
    if k == 1:
        return repr(float(rng.randint(-5, 5)))                      # integral float (also -0.0/0.0)
    if k == 2:
        return repr((2 * rng.randint(-60000, 60000) + 1) * 5 / 1000000)   # decimal tie x.xxxxx5
    if k == 3:
        return repr(rng.randint(-30, 30) / 10 ** 7)                  # below the precision
    if k == 4:
        return repr(rng.randint(1, 9) + rng.choice([0.999995, 0.999994999, 0.9999951, 0.99999]))
    if k == 5:
        return repr(float(rng.choice([10 ** 20, -10 ** 17, 2 ** 53, 123456789012])))
    if k == 6:
        return repr(rng.randint(-10 ** 9, 10 ** 9) / 1000)
    if k == 7:
        return repr((2 * rng.randint(0, 40) + 1) / 2 ** rng.randint(1, 20))      # dyadic: exact ties possible
    if k == 8:
        return "-0.0"
    d = rng.randint(1, 7)
    return repr(rng.randint(-10 ** (d + 1), 10 ** (d + 1)) / 10 ** d)


def gen_reward(rng):
    """a coba reward object (evaluators such as SequentialCB(record=['rewards']) put them into rows)"""
    k = rng.below(6)
    fl = lambda: ["f", rng.choice(["0.25", "0.75", "0.5", "1.0", "-2.5", "0.125", "3.0", "0.123456789", "5e-06", "1.234565"])]
    acts = ["l", [["i", a] for a in rng.sample([0, 1, 2, 3, 5], rng.choice([2, 3]))]]
    if k == 0:
        # the state of an L1Reward is its argmax itself: 0 / 0.0 / -0.0 are legal rewards whose registered state is falsy
        return ["r", "L1", [rng.choice([fl(), fl(), ["i", 0], ["f", "0.0"], ["f", "-0.0"], ["i", rng.randint(-2, 3)]])]]
    if k == 1:
        return ["r", "BR", [rng.choice([["i", rng.randint(0, 3)], ["s", "a"], acts])]]
    if k == 2:
        return ["r", "BR", [["i", rng.randint(0, 3)], rng.choice([["f", "0.5"], ["i", 2], ["i", 1]])]]
    if k == 3:
        return ["r", "HR", [acts]]
    if k == 4:
        return ["r", "DR", [acts, ["l", [fl() for _ in acts[1]]]]]
    return ["r", "DR", [["l", [["s", "x"], ["s", "y"]]], ["l", [["i", 0], ["i", 1]]]]]


def long_float(rng):
    """a finite float with clearly more than 5 decimals"""
    return repr(rng.randint(-10 ** 6, 10 ** 6) / 1000 + rng.randint(1, 999999) / 10 ** 9 + 1e-7)


def long_container(rng, n, depth=1):
    """a list/tuple of n values that are ints almost everywhere with many-decimal floats (and nested containers) at arbitrary positions"""
    spots = set(rng.sample(list(range(n)), rng.choice([1, 1, 2, 3])))
    if rng.chance(0.6):
        step = max(1, n // 16)
        spots = {i for i in spots if i % step != 0} or {1}
    items = []
    for i in range(n):
        if i in spots:
            k = rng.below(4) if depth > 0 else 0
            if k == 0:
                items.append(["f", long_float(rng)])
            elif k == 1:
                items.append(["d", [[S("x"), ["f", long_float(rng)]], [S("y"), long_container(rng, rng.choice([3, 17, 40]), depth - 1)]]])
            elif k == 2:
                items.append(long_container(rng, rng.choice([2, 17, 18, 35]), depth - 1))
            else:
                items.append(["t", [["i", 1], ["f", long_float(rng)]]])
        else:
            items.append(["i", rng.randint(-9, 99)])
    return [rng.choice(["l", "t"]), items]


def gen_scalar(rng):
    k = rng.wchoice([(10, "none"), (6, "bool"), (16, "int"), (30, "float"), (20, "str"), (5, "reward")])
    if k == "none":
        return None
    if k == "reward":
        return gen_reward(rng)
    if k == "bool":
        return rng.chance(0.5)
    if k == "int":
        return ["i", rng.choice([0, 1, -1, rng.randint(-100, 100), rng.randint(-10 ** 6, 10 ** 6), 10 ** 18 + 1, -2 ** 63])]
    if k == "float":
        return ["f", gen_float(rng)]
    return ["s", rng.choice(STR_POOL)]


def gen_nested_key(rng, used):
    for _ in range(10):
        k = ["s", rng.choice(["a", "b", "k", "é", "x\ny", "zz", "s" + _SUR_LO, chr(0)])] if rng.chance(0.8) else ["i", rng.randint(2, 9)]
        if json_key(k) not in used:
            used.add(json_key(k))
            return k
    return None


def gen_val(rng, depth):
    if depth <= 0 or rng.chance(0.62):
        return gen_scalar(rng)
    k = rng.wchoice([(5, "l"), (4, "t"), (3, "d")])
    if k in ("l", "t"):
        return gen_seq(rng, depth, k)
    return gen_dict(rng, depth)


def gen_seq(rng, depth, kind=None):
    kind = kind or rng.choice(["l", "t"])
    n = rng.choice([0, 1, 1, 2, 2, 3])
    return [kind, [gen_val(rng, depth - 1) for _ in range(n)]]


def gen_dict(rng, depth):
    used = set()
    out = []
    for _ in range(rng.choice([0, 1, 2, 2, 3])):
        k = gen_nested_key(rng, used)
        if k is not None:
            out.append([k, gen_val(rng, depth - 1)])
    return ["d", out]


def gen_params(rng, kind):
    if rng.chance(0.15):
        return None
    used = set()
    out = []
    for _ in range(rng.choice([0, 1, 2, 3, 4])):
        k = ["s", rng.choice(PARAM_STR_KEYS)] if rng.chance(0.85) else rng.choice([["i", 2], ["i", 10], ["f", "0.5"]])
        if json_key(k) in used:
            continue
        used.add(json_key(k))
        out.append([k, gen_val(rng, 2)])
    if rng.chance(0.12) and kind in ("env", "lrn") and TYPEKEY[kind] not in used:
        out.append([S(TYPEKEY[kind]), S(rng.choice(["custom", "é", "Lrn"]))])
    elif rng.chance(0.15) and kind == "lrn" and "family" not in used:
        # phase 5: the `vw` form of full_name needs family == 'vw' and both args and seed
        out.append([S("family"), S(rng.choice(["vw", "vw", "VW"]))])
        for k in ("args", "seed"):
            if k not in used and rng.chance(0.7):
                used.add(k)
                out.append([S(k), S("--cb_explore 2") if k == "args" else ["i", rng.randint(0, 9)]])
    if rng.chance(0.05) and kind == "lrn" and "" not in used:
        out.append([S(""), ["i", 1]])       # a falsy field name is left out of full_name
    return ["d", out]


def gen_rows(rng, prone, tags):
    """rows of one triple. `prone`: allow the shapes on which the pinned commit's first-row test fails"""
    mode = rng.wchoice([(8, "zero"), (3, "allempty" if prone else "normal"), (4, "many"), (85, "normal")])
    if mode == "zero":
        return []
    if mode == "many":
        # long outputs: a new field shows up late, the last rows matter, and columns that are ints in most rows hold many-decimal
        # floats at arbitrary positions (a packed column is one long list for `minimize`); also long containers inside a cell
        n = rng.choice([17, 18, 31, 32, 33, 48, 50, 51, 64, 100, 101, 129, 200, 257])
        late = rng.randint(n // 2, n - 1)
        spots = set(rng.sample(list(range(n)), rng.choice([1, 1, 2, 3])))
        if rng.chance(0.5):
            step = max(1, n // 16)
            spots = {i for i in spots if i % step != 0} or {min(n - 1, step + 1) if step > 1 else 1}
        deep = rng.randint(0, n - 1)
        rows = []
        for i in range(n):
            row = [[S("reward"), ["f", gen_float(rng)] if rng.chance(0.5) else ["i", i]], [S("a"), ["t", [["i", i]]]],
                   [S("cnt"), ["f", long_float(rng)] if i in spots else ["i", i]]]
            if i == deep:
                row.append([S("deep"), long_container(rng, rng.choice([17, 20, 33, 64]))])
            if i >= late:
                row.append([S("late"), ["i", i]])
            rows.append(["d", row])
        return rows
    n = rng.choice([1, 1, 2, 2, 3, 4, 6])
    if mode == "allempty":
        return [["d", []] for _ in range(n)]
    pool = list(ROW_STR_KEYS)
    nonstr = [["i", 2], ["i", 7], True, None, ["f", "0.5"], ["t", [["i", 1], ["i", 2]]]]
    keys = [["s", s] for s in rng.sample(pool, rng.choice([1, 2, 2, 3, 4]))]
    if rng.chance(0.3):
        keys += rng.sample(nonstr, rng.choice([1, 1, 2]))
    if rng.chance(0.08):
        # phase 5: fields named like the columns TransactionResult writes itself (overwritten by the id columns; (B) does not speak about them)
        keys += [["s", s] for s in rng.sample(list(ID_COLS), rng.choice([1, 1, 2]))]
        if rng.chance(0.3):
            keys = [k for k in keys if isinstance(k, list) and k[0] == "s" and k[1] in ID_COLS]       # rows with reserved names only
    if prone and rng.chance(0.25):
        keys += [["i", 3], ["s", "3"]] if rng.chance(0.6) else [True, ["s", "True"]]
    cols = {}
    for k in keys:
        if prone:
            ck = rng.wchoice([(40, "scalar"), (25, "seq"), (15, "seq-ragged"), (20, "any")])
        else:
            ck = rng.wchoice([(62, "scalar"), (38, "seq")])
        cols[json.dumps(k)] = ck
    ragged = rng.chance(0.55)
    rows = []
    for i in range(n):
        row = []
        for k in keys:
            ck = cols[json.dumps(k)]
            absent = ragged and rng.chance(0.3)
            if ck == "scalar":
                if absent:
                    continue
                v = gen_scalar(rng) if rng.chance(0.85) else gen_dict(rng, 2)
            elif ck == "seq":
                v = gen_seq(rng, 2)          # present in every row: the first-row test is right
            elif ck == "seq-ragged":
                if absent:
                    continue
                v = gen_seq(rng, 2) if rng.chance(0.7) else None
            else:
                if absent:
                    continue
                v = gen_val(rng, 2)
            row.append([k, v])
        if rng.chance(0.2):
            row = rng.shuffle(row)
        rows.append(["d", row])
    if len(rows) >= 2 and rng.chance(0.15):
        # phase 6 (key handling): a field whose name is another member of {1, True, 1.0} resp. {0, False, 0.0} in every row
        cls = [["i", 0], False, ["f", "0.0"]] if any(k is True for k in keys) or rng.chance(0.4) else [["i", 1], True, ["f", "1.0"]]
        off = rng.below(3)
        nested = rng.chance(0.3)
        for i, r in enumerate(rows):
            k = cls[(i + off) % 3]
            r[1].append([["s", "eqk"], ["d", [[k, gen_scalar(rng)]]]] if nested else [k, gen_scalar(rng) if rng.chance(0.7) else gen_seq(rng, 2)])
    return rows


# ------------------------------------------------------------------ phase 3: `minimize` alone on boundary floats
def boundary_floats(seed, n):
    """n finite doubles around every boundary of round(v*10**5)/10**5: halfway cases at the 5th decimal (exact dyadic ties, decimal ties and
    their neighbours), the 1e16 / 2**52 / 2**53 neighbourhood, subnormals and tiny values, huge magnitudes (v*10**5 overflows), signed zeros"""
    import struct
    from core.prng import Rng
    rng = Rng(seed, "C07-floats")

    def nudge(x, k):
        for _ in range(abs(k)):
            x = math.nextafter(x, math.inf if k > 0 else -math.inf)
        return x
    out = []
    while len(out) < n:
        fam = rng.below(9)
        if fam == 0:      # decimal ties x.xxxxx5 and their float neighbours
            x = nudge((2 * rng.randint(-10 ** rng.randint(1, 9), 10 ** rng.randint(1, 9)) + 1) * 5 / 1000000, rng.randint(-2, 2))
        elif fam == 1:    # exact dyadic ties: (k+1/2)/10**5 is never dyadic, but m/2**j with v*1e5 exactly halfway after float rounding
            x = nudge((rng.randint(-10 ** 7, 10 ** 7) + 0.5) / 100000, rng.randint(-3, 3))
        elif fam == 2:    # 1e16 / 2**52 / 2**53 neighbourhood (spacing 1 or 2; v*1e5 beyond 2**53)
            x = nudge(rng.choice([1e16, 2.0 ** 52, 2.0 ** 53, 2.0 ** 51, 1e15, 4503599627370495.5, 2.0 ** 36, 90071992547.40991]), rng.randint(-40, 40)) * rng.choice([1, -1])
        elif fam == 3:    # subnormals and tiny
            x = rng.choice([5e-324, 2.2250738585072014e-308, 1e-310, 1e-300, 4.9e-6, 5e-6, 5.000000000000001e-06, 4.999999999999999e-06, 1.5e-5]) * rng.choice([1, -1, rng.randint(1, 9)])
        elif fam == 4:    # huge
            x = rng.choice([1e300, 1.7976931348623157e308, 1.8e303, 1e304, 2.0 ** 1000, 1e22, 123456789012345.67]) * rng.choice([1, -1])
        elif fam == 5:    # random bit patterns (finite)
            x = struct.unpack("<d", struct.pack("<Q", rng.u64()))[0]
            if not math.isfinite(x):
                continue
        elif fam == 6:    # results of a first rounding (idempotence): k/1e5
            x = rng.randint(-10 ** rng.randint(1, 15), 10 ** rng.randint(1, 15)) / 100000
        elif fam == 7:    # carries 0.999995, 9.999995 …
            x = nudge(10 ** rng.randint(0, 8) - rng.choice([5e-6, 4.9e-6, 5.1e-6, 1e-5]), rng.randint(-2, 2))
        else:
            x = rng.choice([0.0, -0.0, 0.5, 1.0, -1.0, 2.5, 1e-5, 0.1, 0.2 + 0.1])
        out.append(x)
    return out


def eval_floats(case, driver):
    """(A) coba.utilities.minimize(x) on each boundary float = the Lean `minimize round5` (the model's rational names the nearest double);
    (B) the law `minimize(minimize(x)) == minimize(x)` on the real code, also for the floats nested in a list/tuple/dict"""
    from coba.utilities import minimize
    xs = boundary_floats(case["floats"], case.get("count", 2000))
    fails, tags = [], ["float-stream"]
    real = [minimize(x) for x in xs]
    nested = minimize({"a": [xs[0], (xs[1], {"b": xs[2]})], "c": tuple(xs[3:6])})
    for x, r in zip(xs, real):
        r2 = minimize(r)
        if not (r2 == r and type(r2) is type(r)) and not (r2 == r):
            fails.append(F("B", "minimize is not idempotent on %r: minimize(x)=%r, minimize(minimize(x))=%r" % (x, r, r2), "minimize-not-idempotent"))
            break
    if minimize(nested) != nested:
        fails.append(F("B", "minimize is not idempotent on a nested value built from %r" % (xs[:6],), "minimize-not-idempotent:nested"))
    want_nested = {"a": [real[0], [real[1], {"b": real[2]}]], "c": list(real[3:6])}
    flat = lambda d: [d["a"][0], d["a"][1][0], d["a"][1][1]["b"]] + list(d["c"])
    same = isinstance(nested, dict) and isinstance(nested.get("a"), list) and isinstance(nested.get("c"), list) and len(nested["c"]) == 3 and all(
        a == b or (has_tie(["f", repr(x)]) and abs(Fraction(a) - Fraction(b)) <= Fraction(100001, 10 ** 10)) for a, b, x in zip(flat(nested), flat(want_nested), xs[:6]))
    if not same:
        fails.append(F("B", "minimize treats nested floats differently from top-level ones: %r vs %r" % (nested, want_nested), "minimize-nested-differs"))
    for x, r in zip(xs, real):
        # the documented normalisation, directly: integral floats become ints, others are rounded to 5 decimals
        if x.is_integer():
            if not (isinstance(r, int) and r == x):
                fails.append(F("B", "minimize(%r) = %r, expected the int" % (x, r), "minimize-integral"))
                break
        elif abs(Fraction(r) - Fraction(x)) > Fraction(1, 200000) + abs(Fraction(x)) * Fraction(1, 2 ** 50) + Fraction(math.ulp(float(r)) if isinstance(r, float) else 0):
            fails.append(F("B", "minimize(%r) = %r is not x rounded to 5 decimals" % (x, r), "minimize-rounding"))
            break
    model = None
    if driver is not None:
        ans = driver.ask({"op": "minimize", "vals": [lean_val(["f", repr(x)]) for x in xs]})
        bad = 0
        for x, r, m, m2 in zip(xs, real, ans["min"], ans["min2"]):
            mv = Fraction(m[1], m[2])
            ok = (float(mv) == float(r)) if m[2] != 1 else (mv == Fraction(r))
            if not ok and has_tie(["f", repr(x)]) and abs(mv - Fraction(r)) <= Fraction(100001, 10 ** 10):
                ok = True       # at a rounding tie either neighbour is a correct rounding (e.g. round(v,5) instead of round(v*P)/P)
                tags.append("float-stream:tie-tolerance-used")
            if not ok:
                bad += 1
                if bad <= 2:
                    fails.append(F("A", "minimize(%r): implementation %r, Lean round5 model %s" % (x, r, mv), "A:minimize-float"))
            if m != m2:
                fails.append(F("C", "model: minimize round5 is not idempotent on %r" % (x,), "C:minimize-idempotent"))
                break
        model = {"n": len(xs)}
    return {"fails": fails, "nontrivial": True, "tags": tags, "impl": {"n": len(xs), "sample": [repr(r) for r in real[:5]]}, "model": model}


def long_values(case):
    """the containers of a {"longs": …} case: pinned ones (`pin` = [[length, [float positions]] …]) or PRNG-made"""
    from core.prng import Rng
    rng = Rng(case["longs"], "C07-longs")
    out = []
    for n, spots in case.get("pin") or []:
        for kind in ("l", "t"):
            items = [["f", "%d.123456789" % (i + 1)] if i in spots else ["i", i] for i in range(n)]
            out.append([kind, items])
            out.append(["d", [[S("col"), [kind, items]], [S("other"), ["l", [["i", 0]] * n]]]])
            out.append(["l", [["i", 7], [kind, items], ["d", [[S("k"), [kind, items]]]]]])
    for _ in range(case.get("count", 0)):
        n = rng.choice([17, 18, 31, 32, 33, 34, 47, 48, 49, 64, 100, 101, 160, 200])
        v = long_container(rng, n, depth=2)
        out.append(v if rng.chance(0.5) else ["d", [[S("_packed"), ["d", [[S("c"), v], [S("i"), ["l", [["i", j] for j in range(n)]]]]]]]])
    return out


def eval_longs(case, driver):
    """direct `coba.utilities.minimize` on long lists / tuples / nested containers: (B) every float leaf is rounded and every sequence is a list,
    element by element, and the call is idempotent; (A) equals the Lean `minimize round5`"""
    from coba.utilities import minimize
    vals = long_values(case)
    fails, tags = [], ["long-container-stream"]
    reals = []
    for v in vals:
        obj = dec(v)
        r = minimize(obj)
        reals.append(r)
        why = val_ok(v, canon_val(r), False)
        if why:
            fails.append(F("B", "minimize of a %d-element container leaves it not normalised (%s): %s -> %s" % (len(v[1]), why, json.dumps(v)[:200], json.dumps(canon_val(r))[:200]), "minimize-long:" + why))
            break
        if canon_val(minimize(r)) != canon_val(r):
            fails.append(F("B", "minimize is not idempotent on a %d-element container" % len(v[1]), "minimize-not-idempotent:long"))
            break
    model = None
    if driver is not None:
        ans = driver.ask({"op": "minimize", "vals": [lean_val(v) for v in vals]})
        ties = any(has_tie(v) for v in vals)
        for v, r, m in zip(vals, reals, ans["min"]):
            a, b = canon_val(r), sort_model_val(m)
            if a != b and not (ties and eq_mod_ties(a, b)):
                fails.append(F("A", "minimize(%s): implementation %s, Lean model %s" % (json.dumps(v)[:150], json.dumps(a)[:200], json.dumps(b)[:200]), "A:minimize-long"))
                break
        model = {"n": len(vals)}
    return {"fails": fails, "nontrivial": True, "tags": tags, "impl": {"n": len(vals)}, "model": model}


# ------------------------------------------------------------------ phase 3: ids recorded more than once
def dup_ops(case):
    """usable duplicate operations: ['I', src, dst] copies the interaction record of triple src under the ids of triple dst (both completed);
    ['E'|'L', src, dst] copies the params record of component src under the id of dst"""
    fail = set(map(tuple, case.get("fail", [])))
    tris = [tuple(t) for t in case["triples"]]
    eid, lid, vid = assign_ids(case)
    out = []
    for op in case.get("dup") or []:
        k, a, b = op
        if k == "I" and tuple(a) in tris and tuple(b) in tris and tuple(a) not in fail and tuple(b) not in fail and tuple(a) != tuple(b):
            out.append(op)
        elif k == "E" and a in eid and b in eid and a != b:
            out.append(op)
        elif k == "L" and a in lid and b in lid and a != b:
            out.append(op)
    return out


def merge_params(kind, dst, src):
    """tagged params dict after `rows[id].update(...)` of dst's record, then src's"""
    pairs = [list(kv) for kv in safe_params(kind, dst)]
    for k, v in safe_params(kind, src):
        hit = [p for p in pairs if json_key(p[0]) == json_key(k)]
        if hit:
            hit[0][1] = v
        else:
            pairs.append([k, v])
    return ["d", pairs]


def effective_case(case):
    """the experiment whose uninterrupted run must give the same Result as the log with the duplicated records"""
    c = json.loads(json.dumps(case))
    for k, a, b in dup_ops(case):
        if k == "I":
            src = [r for t, r in c["rows"] if list(t) == list(a)]
            c["rows"] = [[t, (json.loads(json.dumps(src[0])) if src and list(t) == list(b) else r)] for t, r in c["rows"]]
        elif k == "E":
            c["envs"][b] = dict(c["envs"][b], params=merge_params("env", c["envs"][b], c["envs"][a]))
        elif k == "L":
            c["lrns"][b] = dict(c["lrns"][b], params=merge_params("lrn", c["lrns"][b], c["lrns"][a]))
    c["dup"] = []
    return c


def dup_file(case, path):
    """append copies of records under other ids (the log then holds two records for those ids)"""
    import gzip
    eid, lid, vid = assign_ids(case)
    opener = gzip.open if is_gzip_name(path) else open
    with opener(path, "rb") as f:
        lines = [ln for ln in f.read().split(b"\n") if ln.strip()]
    recs = [json.loads(ln.decode("utf-8")) for ln in lines]
    extra = []
    cur = list(recs)
    for k, a, b in dup_ops(case):
        if k == "I":
            ia, ib = [eid[a[0]], lid[a[1]], vid[a[2]]], [eid[b[0]], lid[b[1]], vid[b[2]]]
            src = [r for r in cur if r and r[0] == "I" and r[1] == ia]
            if src:
                extra.append(["I", ib, src[-1][2]]); cur.append(extra[-1])
        else:
            ids = eid if k == "E" else lid
            src = [r for r in cur if r and r[0] == k and r[1] == ids[a]]
            if src:
                extra.append([k, ids[b], src[0][2]]); cur.append(extra[-1])
    with opener(path, "ab") as f:
        for r in extra:
            f.write((json.dumps(r, separators=(",", ":")) + "\n").encode("utf-8"))


# ------------------------------------------------------------------ phase 4: translator step (constants / key lists / dispatch tags read off the source)
def _lean_str(s):
    out = ['"']
    for ch in s:
        if ch == '"' or ch == "\\":
            out.append("\\" + ch)
        elif ch == "\n":
            out.append("\\n")
        elif 32 <= ord(ch) < 127:
            out.append(ch)
        else:
            out.append("\\u{%x}" % ord(ch))
    out.append('"')
    return "".join(out)


def _lean_strs(xs):
    return "[" + ", ".join(_lean_str(x) for x in xs) + "]"


C07_DEFAULTS = {
    "encVersion": 4, "decVersion": 4, "resVersion": 4,
    "encTags": [["T0", "experiment"], ["T1", "E"], ["T2", "L"], ["T3", "V"], ["T4", "I"]],
    "resTags": ["experiment", "E", "L", "V", "I"],
    "packedKey": "_packed", "countKey": "_n", "encKeyIsStr": True, "encAbsentIsNone": True,
    "exemptCols": ["rewards"], "intCols": ["environment_id", "learner_id", "evaluator_id", "index"],
    "paramCols": ["environment_id", "learner_id", "evaluator_id"],
    "idAssigned": ["environment_id", "learner_id", "evaluator_id", "index"], "indexFrom": 1,
    "precision": 5, "seqToList": ["tuple"],
    "encShapes": [["T0", "experiment", ["item[1]"]], ["T1", "E", ["item[1]", "item[2]"]], ["T2", "L", ["item[1]", "item[2]"]],
                  ["T3", "V", ["item[1]", "item[2]"]], ["T4", "I", ["item[1]", "packed"]]],
    "resShapes": [["experiment", "exp_dict", ["trx[1]"]], ["E", "env_rows", ["trx[1]", "trx[2]"]], ["L", "lrn_rows", ["trx[1]", "trx[2]"]],
                  ["V", "val_rows", ["trx[1]", "trx[2]"]], ["I", "int_rows", ["trx[1]", "trx[2]"]]],
}


def c07_extract(repo):
    """constants / key lists / dispatch tags of the anchored mechanism, read from the CURRENT source with `ast`.
    -> (values, list of names that could not be extracted)"""
    got = {}
    import ast
    import warnings
    with warnings.catch_warnings():
        warnings.simplefilter("ignore")
        core = ast.parse(open(os.path.join(repo, "coba", "results", "core.py"), encoding="utf-8").read())
        util = ast.parse(open(os.path.join(repo, "coba", "utilities.py"), encoding="utf-8").read())
    classes = {n.name: n for n in core.body if isinstance(n, ast.ClassDef)}

    def method(cls, name):
        for n in classes[cls].body:
            if isinstance(n, ast.FunctionDef) and n.name == name:
                return n
        raise KeyError(name)

    def const(n):
        if isinstance(n, ast.Constant):
            return n.value
        raise ValueError(ast.dump(n))

    def attempt(name, f):
        try:
            v = f()
            if v is None:
                raise ValueError("not found")
            got[name] = v
        except Exception:
            pass

    enc = lambda: method("TransactionEncode", "filter")
    res = lambda: method("TransactionResult", "filter")
    dec = lambda: method("TransactionDecode", "filter")

    def enc_version():
        for n in ast.walk(enc()):
            if isinstance(n, ast.Call) and getattr(n.func, "id", None) == "encoder" and n.args and isinstance(n.args[0], ast.List):
                el = n.args[0].elts
                if len(el) == 2 and isinstance(el[0], ast.Constant) and el[0].value == "version":
                    return int(const(el[1]))

    def enc_tags():
        out = []
        for n in ast.walk(enc()):
            if isinstance(n, ast.If) and isinstance(n.test, ast.Compare) and len(n.test.ops) == 1 and isinstance(n.test.ops[0], ast.Eq) \
                    and isinstance(n.test.left, ast.Subscript) and getattr(n.test.left.value, "id", None) == "item":
                t = const(n.test.comparators[0])
                tag = None
                for m in n.body:
                    for c in ast.walk(m):
                        if isinstance(c, ast.Call) and getattr(c.func, "id", None) == "encoder" and c.args and isinstance(c.args[0], ast.List):
                            tag = const(c.args[0].elts[0])
                if tag is None:
                    return None
                out.append([t, tag])
        return sorted(out) or None

    def dict_keys_in(fn):
        """string keys of dict displays / subscript stores `packed[...]` in order of appearance"""
        keys = []
        for n in ast.walk(fn):
            if isinstance(n, ast.Dict):
                keys += [k.value for k in n.keys if isinstance(k, ast.Constant) and isinstance(k.value, str)]
        return keys

    def enc_packed_key():
        ks = [k for k in dict_keys_in(enc())]
        return ks[0] if ks else None

    def enc_count_key():
        for n in ast.walk(enc()):
            if isinstance(n, ast.Assign) and isinstance(n.targets[0], ast.Subscript) and getattr(n.targets[0].value, "id", None) == "packed":
                return const(n.targets[0].slice)

    def enc_key_is_str():
        # rows = [{str(k):v for k,v in r.items()} for r in item[2]]
        for n in ast.walk(enc()):
            if isinstance(n, ast.DictComp):
                return isinstance(n.key, ast.Call) and getattr(n.key.func, "id", None) == "str" and len(n.key.args) == 1 and getattr(n.key.args[0], "id", "") == getattr(n.generators[0].target.elts[0], "id", None) \
                    and getattr(n.value, "id", "") == getattr(n.generators[0].target.elts[1], "id", None)
        return None

    def enc_absent_none():
        # rows_T[key].append(row.get(key,None))
        for n in ast.walk(enc()):
            if isinstance(n, ast.Call) and isinstance(n.func, ast.Attribute) and n.func.attr == "get" and getattr(n.func.value, "id", None) == "row":
                return len(n.args) == 1 or (len(n.args) == 2 and isinstance(n.args[1], ast.Constant) and n.args[1].value is None)
        return None

    def dec_version():
        for n in ast.walk(dec()):
            if isinstance(n, ast.Compare) and isinstance(n.ops[0], ast.Eq) and isinstance(n.left, ast.Subscript) and getattr(n.left.value, "id", None) == "ver_row":
                return int(const(n.comparators[0]))

    def res_version():
        for n in ast.walk(res()):
            if isinstance(n, ast.Compare) and isinstance(n.ops[0], ast.NotEq) and getattr(n.left, "id", None) == "version":
                return int(const(n.comparators[0]))

    def res_tags():
        out = []
        for n in ast.walk(res()):
            if isinstance(n, ast.If) and isinstance(n.test, ast.Compare) and isinstance(n.test.ops[0], ast.Eq) and isinstance(n.test.left, ast.Subscript) \
                    and getattr(n.test.left.value, "id", None) == "trx" and isinstance(n.test.left.slice, ast.Constant) and n.test.left.slice.value == 0:
                out.append(const(n.test.comparators[0]))
        return out or None

    def sub_name(n, base):
        """`base[k]` with a literal k -> 'base[k]'"""
        if isinstance(n, ast.Subscript) and getattr(n.value, "id", None) == base and isinstance(n.slice, ast.Constant):
            return "%s[%r]" % (base, n.slice.value)
        return None

    def enc_shapes():
        # if item[0] == "Tk": … yield encoder([tag, e1, e2]) -> [Tk, tag, [e1, e2]]; an element is `item[k]` or the name of a local (`packed`)
        out = []
        for n in ast.walk(enc()):
            if isinstance(n, ast.If) and isinstance(n.test, ast.Compare) and len(n.test.ops) == 1 and isinstance(n.test.ops[0], ast.Eq) \
                    and isinstance(n.test.left, ast.Subscript) and getattr(n.test.left.value, "id", None) == "item":
                t = const(n.test.comparators[0])
                shape = None
                for m in n.body:
                    for c in ast.walk(m):
                        if isinstance(c, ast.Call) and getattr(c.func, "id", None) == "encoder" and c.args and isinstance(c.args[0], ast.List):
                            el = c.args[0].elts
                            shape = [t, const(el[0]), [sub_name(e, "item") or (e.id if isinstance(e, ast.Name) else ast.unparse(e)) for e in el[1:]]]
                if shape is None:
                    return None
                out.append(shape)
        return sorted(out) or None

    def res_shapes():
        # if trx[0] == tag: <store>  -> [tag, variable stored into, [trx[k] read by that statement]]; stores: `v = trx[1]`, `v[trx[1]].update(f(trx[2]))`,
        # `v[tuple(trx[1])] = trx[2]` (statements that only rewrite `trx` itself are skipped)
        out = []
        for n in ast.walk(res()):
            if isinstance(n, ast.If) and isinstance(n.test, ast.Compare) and isinstance(n.test.ops[0], ast.Eq) and isinstance(n.test.left, ast.Subscript) \
                    and getattr(n.test.left.value, "id", None) == "trx" and isinstance(n.test.left.slice, ast.Constant) and n.test.left.slice.value == 0:
                tag = const(n.test.comparators[0])
                shape = None
                for m in n.body:
                    target, keyx, valx = None, [], []
                    if isinstance(m, ast.Assign):
                        tg = m.targets[0]
                        if isinstance(tg, ast.Name):
                            target, valx = tg.id, [m.value]
                        elif isinstance(tg, ast.Subscript) and isinstance(tg.value, ast.Name):
                            target, keyx, valx = tg.value.id, [tg.slice], [m.value]
                    elif isinstance(m, ast.Expr) and isinstance(m.value, ast.Call) and isinstance(m.value.func, ast.Attribute) and m.value.func.attr == "update" \
                            and isinstance(m.value.func.value, ast.Subscript) and isinstance(m.value.func.value.value, ast.Name):
                        target, keyx, valx = m.value.func.value.value.id, [m.value.func.value.slice], list(m.value.args)
                    if target is None or target == "trx":
                        continue
                    subs = lambda xs: sorted({sub_name(c, "trx") for x in xs for c in ast.walk(x) if sub_name(c, "trx") and sub_name(c, "trx") != "trx[0]"})
                    used = subs(keyx) + subs(valx)       # first what the record is stored under, then what is stored
                    shape = [tag, target, used]
                if shape is None:
                    return None
                out.append(shape)
        return out or None

    def exempt_cols():
        for n in ast.walk(res()):
            if isinstance(n, ast.FunctionDef) and n.name == "packed_list2tuple":
                out = []
                for c in ast.walk(n):
                    if isinstance(c, ast.Compare) and getattr(c.left, "id", None) == "k":
                        if isinstance(c.ops[0], ast.NotEq):
                            out.append(const(c.comparators[0]))
                        elif isinstance(c.ops[0], ast.NotIn):
                            out += [const(e) for e in c.comparators[0].elts]
                        else:
                            return None
                return out

    def table_cols(var):
        for n in ast.walk(res()):
            if isinstance(n, ast.Assign) and getattr(n.targets[0], "id", None) == var and isinstance(n.value, ast.Call) and getattr(n.value.func, "id", None) == "Table":
                for kw in n.value.keywords:
                    if kw.arg == "columns":
                        v = kw.value
                        if isinstance(v, ast.BinOp):      # [...] + rwd_col
                            v = v.left
                        return [const(e) for e in v.elts]

    def id_assigned():
        out = []
        for n in ast.walk(res()):
            if isinstance(n, ast.Assign) and isinstance(n.targets[0], ast.Subscript) and getattr(n.targets[0].value, "id", None) == "packed":
                out.append(const(n.targets[0].slice))
        return out or None

    def index_from():
        for n in ast.walk(res()):
            if isinstance(n, ast.Assign) and isinstance(n.targets[0], ast.Subscript) and getattr(n.targets[0].value, "id", None) == "packed" \
                    and const(n.targets[0].slice) == "index":
                for c in ast.walk(n.value):
                    if isinstance(c, ast.Call) and getattr(c.func, "id", None) == "range" and len(c.args) == 2:
                        hi = c.args[1]
                        lo = int(const(c.args[0]))
                        if isinstance(hi, ast.BinOp) and isinstance(hi.op, ast.Add) and getattr(hi.left, "id", None) == "N" and const(hi.right) == lo:
                            return lo

    def res_packed_key():
        for n in ast.walk(res()):
            if isinstance(n, ast.Call) and getattr(n.func, "id", None) == "packed_list2tuple" and isinstance(n.args[0], ast.Subscript):
                return const(n.args[0].slice)

    def res_count_key():
        for n in ast.walk(res()):
            if isinstance(n, ast.Assign) and getattr(n.targets[0], "id", None) == "N" and isinstance(n.value, ast.IfExp) and isinstance(n.value.orelse, ast.Subscript):
                return const(n.value.orelse.slice)

    def precision():
        for n in util.body:
            if isinstance(n, ast.FunctionDef) and n.name == "minimize":
                names = [a.arg for a in n.args.args]
                d = n.args.defaults[len(n.args.defaults) - (len(names) - names.index("precision"))]
                p = int(const(d))
                # P = 10**precision
                for c in ast.walk(n):
                    if isinstance(c, ast.Assign) and getattr(c.targets[0], "id", None) == "P":
                        v = c.value
                        if not (isinstance(v, ast.BinOp) and isinstance(v.op, ast.Pow) and const(v.left) == 10 and getattr(v.right, "id", None) == "precision"):
                            return None
                        return p

    def minimize_call_precision():
        # the encoder calls minimize(x) without a precision
        for n in ast.walk(enc()):
            if isinstance(n, ast.Call) and getattr(n.func, "id", None) == "minimize":
                return len(n.args) == 1 and not n.keywords
        return None

    attempt("encVersion", enc_version)
    attempt("decVersion", dec_version)
    attempt("resVersion", res_version)
    attempt("encTags", enc_tags)
    attempt("resTags", res_tags)
    attempt("encShapes", enc_shapes)
    attempt("resShapes", res_shapes)
    attempt("packedKey", lambda: enc_packed_key() if enc_packed_key() == res_packed_key() else None)
    attempt("countKey", lambda: enc_count_key() if enc_count_key() == res_count_key() else None)
    attempt("encKeyIsStr", enc_key_is_str)
    attempt("encAbsentIsNone", enc_absent_none)
    attempt("exemptCols", exempt_cols)
    attempt("intCols", lambda: table_cols("int_table"))
    attempt("paramCols", lambda: table_cols("env_table") + table_cols("lrn_table") + table_cols("val_table"))
    attempt("idAssigned", id_assigned)
    attempt("indexFrom", index_from)
    attempt("precision", lambda: precision() if minimize_call_precision() else None)
    missing = [k for k in C07_DEFAULTS if k not in got and k != "seqToList"]
    vals = dict(C07_DEFAULTS)
    vals.update(got)
    return vals, missing


def c07_render(vals, missing):
    L = ["-- GENERATED by harness/props/c07.py (pre_build) from coba/results/core.py and coba/utilities.py on every run; do not edit.",
         "-- Each definition is read off the CURRENT source with Python's `ast`; `Props/C07.lean` proves they equal what the model uses.",
         "namespace Coba.Generated.C07",
         "/-- `TransactionEncode`: `encoder([\"version\",N])` -/", "def encVersion : Int := %d" % vals["encVersion"],
         "/-- `TransactionDecode`: `ver_row[1] == N` -/", "def decVersion : Int := %d" % vals["decVersion"],
         "/-- `TransactionResult`: `version != N` raises -/", "def resVersion : Int := %d" % vals["resVersion"],
         "/-- `TransactionEncode`: `item[0] == T` -> first element of the record written -/",
         "def encTags : List (String × String) := [" + ", ".join("(%s, %s)" % (_lean_str(a), _lean_str(b)) for a, b in vals["encTags"]) + "]",
         "/-- `TransactionResult`: the `trx[0] == tag` tests in source order -/", "def resTags : List String := " + _lean_strs(vals["resTags"]),
         "/-- key of the column dictionary in an interaction record (same literal in encoder and reader) -/", "def packedKey : String := " + _lean_str(vals["packedKey"]),
         "/-- key of the row count beside an empty column dictionary (same literal in encoder and reader) -/", "def countKey : String := " + _lean_str(vals["countKey"]),
         "/-- `{str(k):v for k,v in r.items()}`: field names are written as `str(key)` -/", "def encKeyIsStr : Bool := " + ("true" if vals["encKeyIsStr"] else "false"),
         "/-- `row.get(key,None)`: an absent field is written as None -/", "def encAbsentIsNone : Bool := " + ("true" if vals["encAbsentIsNone"] else "false"),
         "/-- `packed_list2tuple`: columns exempt from the list->tuple conversion -/", "def exemptCols : List String := " + _lean_strs(vals["exemptCols"]),
         "/-- `Table(columns=[…])` of the interactions table (before `rwd_col`) -/", "def intCols : List String := " + _lean_strs(vals["intCols"]),
         "/-- `Table(columns=[…])` of the environments, learners, evaluators tables -/", "def paramCols : List String := " + _lean_strs(vals["paramCols"]),
         "/-- `packed[name] = …` assignments in source order (the id columns overwrite same-named fields) -/", "def idAssigned : List String := " + _lean_strs(vals["idAssigned"]),
         "/-- `list(range(k,N+k))`: first index -/", "def indexFrom : Int := %d" % vals["indexFrom"],
         "/-- default `precision` of `minimize` (`P = 10**precision`), which the encoder uses -/", "def precision : Nat := %d" % vals["precision"],
         "/-- [phase 5] `TransactionEncode`: transaction tag -> (record tag, the elements handed to `encoder` after it) -/",
         "def encShapes : List (String × String × List String) := [" + ", ".join("(%s, %s, %s)" % (_lean_str(a), _lean_str(b), _lean_strs(c)) for a, b, c in vals["encShapes"]) + "]",
         "/-- [phase 5] `TransactionResult`: record tag -> (variable the record is stored into, the `trx[k]` it reads) -/",
         "def resShapes : List (String × String × List String) := [" + ", ".join("(%s, %s, %s)" % (_lean_str(a), _lean_str(b), _lean_strs(c)) for a, b, c in vals["resShapes"]) + "]",
         "/-- names that could NOT be read off the source (code reshaped): their definitions above are the model's own values -/",
         "def notExtracted : List String := " + _lean_strs(missing),
         "end Coba.Generated.C07", ""]
    return "\n".join(L)



# model variants: encoder pinned/repaired (str-key collision) x reader pinned/repaired (per-cell tuples) x log without/with `_n` ("S" = without)
COMBOS = ("ffS", "ftS", "tfS", "ttS", "ff", "ft", "tf", "tt")


class C07(Property):
    id = "C07"
    prop_modules = ["CobaVerif.Props.C07"]
    quick_n, thorough_n, search_n = 1200, 30000, 2500
    case_timeout = 60
    workers = 8
    rule = ("a case is an experiment (1-3 environments, 1-3 learners, 1-2 evaluators, a non-empty set of triples) whose instrumented evaluators yield generated rows "
            "(ragged field sets, str/int/bool/None/float/tuple field names, None, bools, ints, floats incl. decimal ties at the 5th decimal, NaN/inf, -0.0, unicode/newline strings, "
            "nested lists/tuples/dicts) and whose components carry generated params; it is run through Experiment.run without a file, with a plain or .gz file (fresh, or "
            "restored after a first run in which some evaluations failed, or restored from a complete log out of which PRNG-chosen E/L/V/I records were deleted - a non-prefix subset) "
            "or whose records were permuted, or grouped by record key so that every id's records keep their order (phase 6, also on logs with ids recorded twice), or to which copies of records were appended under other ids so that ids are recorded twice, or a run that is stopped in the middle by a cell the encoder cannot write / a KeyboardInterrupt after other evaluations completed - alone or followed by a complete run on the same file) under result-file names of several shapes (x.log, x.log.gz, x.gz.bak, a.gz.d/x.log, names with spaces/unicode, .GZ) and Result.from_file. Non-trivial: at least one completed triple with >= 2 rows and >= 2 distinct fields. "
            "Distinct = distinct canonical JSON of the case.")
    trusted_base = [
        "json text codec (json.dumps/json.loads), file write/read and gzip: modelled as the identity on values modulo tuple->list and key->string (jsonify); checked on every case by (A)",
        "float <-> shortest decimal repr (float.__repr__ / float()): the model's k/10^5 stands for the double nearest to it",
        "binary64 product v*10**5 modelled by `fl` (round to nearest even, normal range; proved exact on 53-bit significands), validated by (A) incl. decimal and dyadic ties",
        "assumed law about floats, stated exactly: for every finite double v the real `round(v*10**5)/10**5` equals the double nearest to `rhe(fl(v·10^5))/10^5` (fl = IEEE-754 binary64 "
        "multiplication result, rhe = Python round) and `float.__repr__`/`float()` round-trip; tested ALONE on 12 000 boundary floats per run (corpus cases {'floats': seed}: 5th-decimal ties and their "
        "neighbours, 2^51..2^53 / 1e16 neighbourhood, subnormals, huge magnitudes, random bit patterns, carries) together with idempotence of the real minimize",
        "reward objects: the registered name and `__getstate__()` of L1Reward/BinaryReward/HammingReward/DiscreteReward are supplied by the harness (reward_form); the model builds {name: state} itself",
        "Table: only `columns` and `to_dicts()` (Missing kept apart from None) are modelled (padTable); index structures (_indexes/_lohis) are C17's; Result.__init__ caches are not observable through the tables",
        "MakeTasks/ProcessTasks/SafeEnvironment/SafeLearner/SafeEvaluator (which transactions are emitted) are mirrored by the harness, not by the Lean model",
        "stopped runs (case['abort']): which evaluations were completed before the stop is read off the instrumented evaluator (task order is MakeTasks/ChunkTasks', C02's subject)",
        "translator step: Generated/C07Consts.lean is produced from the source by Python's ast (harness/props/c07.py c07_extract); an item it cannot recognise falls back to the model's value and is listed in notExtracted",
    ]
    assumptions = [
        "ONE row / params dictionary cannot hold two Python-equal keys (1, True, 1.0 are one key for dict); different rows of a transaction, different components and nested "
        "dictionaries of different cells do use different members of {1, True, 1.0} / {0, False, 0.0} (phase 6, tag key:python-equal-names): str() resp. json keep them apart",
        "nested dictionaries and params dictionaries have no two keys that json.dumps coerces to the same string, and no tuple keys (json.dumps raises TypeError on those)",
        "finite floats have magnitude within the normal binary64 range and |v*10^5| < 2^53 unless integral",
        "the 'rewards' column is exempt from the list->tuple conversion (explicit `k != 'rewards'` in packed_list2tuple): (B) accepts a list or a tuple there",
        "field names equal to environment_id/learner_id/evaluator_id/index are overwritten by the id columns and are outside the property's quantifier",
    ]
    partial_theorems = {
        "first_row_tuple_partial": "the code before aa4bb4c converted a column by looking at its first row only; equal to the per-cell conversion only when firstRowDecides (first_row_tuple_counterexample; fixed in /repo)",
        "packAsIs_partial": "the code before 4cf485f packed correctly only when str() is injective on the field names of the transaction (packAsIs_collision_counterexample; fixed in /repo)",
        "roundtrip_normalise_partial": "a log without `_n` (current /repo, before fixes/C07-rows-without-fields.diff): a transaction whose rows have no field at all leaves no row in the table (empty_rows_dropped_counterexample, C07-F5); `roundtrip_normalise` is the full-strength theorem for the repaired code",
        "first_row_tuple_partial / packAsIs_partial / roundtrip_normalise_partial": "describe code states that are history now (aa4bb4c, 4cf485f, 6c776fe committed); the full-strength theorems are roundtrip_normalise, run_spec, interactions_last_wins, params_union",
        "minimize_idempotent_partial": "superseded by minimize_idempotent_full (phase 2); kept as the bounded corollary",
    }

    # ---- translator step
    def pre_build(self):
        """regenerate lean/CobaVerif/Generated/C07Consts.lean from the CURRENT source; Props/C07.lean (`source_consts_match` …) proves the
        generated definitions equal the model's, so an edit of those constants breaks the build and is routed to the failing-input search"""
        from core import lean
        repo = os.environ.get("COBA_REPO", "/repo")
        try:
            vals, missing = c07_extract(repo)
        except Exception as ex:
            vals, missing = dict(C07_DEFAULTS), sorted(k for k in C07_DEFAULTS if k != "seqToList")
            missing.append("error:" + type(ex).__name__)
        body = c07_render(vals, [m for m in missing if not m.startswith("error:")])
        path = os.path.join(lean.LEAN_DIR, "CobaVerif", "Generated", "C07Consts.lean")
        old = open(path, encoding="utf-8").read() if os.path.exists(path) else None
        if old != body:
            os.makedirs(os.path.dirname(path), exist_ok=True)
            with open(path, "w", encoding="utf-8") as f:
                f.write(body)
        return ["C07 constants read off coba/results/core.py + coba/utilities.py: %d extracted, not extracted: %s" % (len(C07_DEFAULTS) - 1 - len([m for m in missing if not m.startswith("error:")]), missing or "none")]

    # ---- cases
    def generate(self, rng, tier, prone=None):
        if prone is None:
            prone = rng.chance(0.22)
        ne, nl, nv = rng.choice([1, 1, 2, 2, 3]), rng.choice([1, 2, 2, 3]), rng.choice([1, 1, 1, 2])
        envs = [{"params": gen_params(rng, "env")} for _ in range(ne)]
        lrns = [{"params": gen_params(rng, "lrn")} for _ in range(nl)]
        vals = [{"params": gen_params(rng, "val"), "lazy": rng.chance(0.6)} for _ in range(nv)]
        if rng.chance(0.35):
            # several components per kind that inherit coba's base classes without a params of their own, of different classes
            for comps in (envs, lrns, vals):
                letters = rng.shuffle(["A", "B", "C"])
                for i, comp in enumerate(comps):
                    if rng.chance(0.75):
                        comp["params"] = None
                        comp["base"] = letters[i % 3]
        else:
            for comp in envs + lrns + vals:
                if comp["params"] is None and rng.chance(0.5):
                    comp["base"] = rng.choice(["A", "B", "C"])
        allt = [[e, l, v] for e in range(ne) for l in range(nl) for v in range(nv)]
        k = rng.choice([1, 2, 2, 3, 4, len(allt)])
        triples = rng.sample(allt, min(k, len(allt)))
        if rng.chance(0.5):
            triples = sorted(triples)
        rows = [[t, gen_rows(rng, prone, None)] for t in triples]
        case = {"envs": envs, "lrns": lrns, "vals": vals, "triples": triples, "rows": rows,
                "desc": rng.choice([None, "plain", "é\nü \"q\"", ""]), "gz": False, "seed": rng.choice([1, 1, 7, 0]),
                "phases": 1, "skip1": [], "fail": []}
        case["fname"] = rng.wchoice([(34, "plain"), (26, "gz"), (10, "gz-inside"), (10, "gz-dir"), (6, "space-unicode"), (6, "space-unicode-gz"), (4, "upper-gz"), (4, "dot")])
        case["gz"] = is_gzip_name(os.path.join(*FNAME_SHAPES[case["fname"]]))
        if rng.chance(0.2):
            case["fail"] = rng.sample(triples, 1)
        case["decoy"] = rng.chance(0.3)
        mode = rng.wchoice([(17, "fresh"), (22, "two"), (23, "punch"), (14, "shuffle"), (14, "dup"), (12, "abort")])
        if mode == "abort":
            # the run stops in the middle: the evaluation of one triple yields a cell that cannot be written (set / plain object) or is interrupted;
            # mostly after other evaluations were completed.  30 %: a complete second run on the same file follows.
            cands = [t for t in triples if t not in case["fail"]]
            if cands:
                later = [t for t in cands if triples.index(t) >= 1]
                tri = rng.choice(later if later and rng.chance(0.85) else cands)
                case["abort"] = {"tri": tri, "kind": rng.wchoice([(5, "set"), (3, "object"), (2, "interrupt")]), "row": rng.randint(0, 3), "repair": rng.chance(0.3)}
                if rng.chance(0.5):
                    # phase 5: tuple keys — in a nested dictionary of a cell, or in the params of one of the triple's components
                    case["abort"]["kind"] = rng.wchoice([(3, "tuplekey"), (3, "param-key:env"), (2, "param-key:lrn"), (2, "param-key:val")])
                    if case["abort"]["kind"].startswith("param-key:") and param_key_comp(case) is None:
                        case["abort"]["kind"] = "tuplekey"
        if mode == "dup":
            # the log holds two records for some ids: a copy of another triple's / component's record is appended
            ops = []
            done = [t for t in triples if t not in case["fail"]]
            if len(done) >= 2:
                a, b = rng.sample(done, 2)
                ops.append(["I", a, b])
            es = sorted({t[0] for t in triples}); ls = sorted({t[1] for t in triples})
            if len(es) >= 2 and rng.chance(0.6):
                a, b = rng.sample(es, 2); ops.append(["E", a, b])
            if len(ls) >= 2 and rng.chance(0.6):
                a, b = rng.sample(ls, 2); ops.append(["L", a, b])
            case["dup"] = ops
        if mode in ("dup", "two", "punch", "fresh") and rng.chance(0.6 if mode == "dup" else 0.15):
            case["regroup"] = True       # phase 6: records grouped by key before the last restored run (every id's records keep their order)
        if mode == "shuffle":
            case["shuffle"] = rng.choice([-1, -1, rng.randint(0, 10 ** 6), rng.randint(0, 10 ** 6)])
        if mode == "two":
            case["phases"] = 2
            case["skip1"] = rng.subset(triples, 0.5)
        elif mode == "punch":
            # a restored run on a file holding a NON-PREFIX subset of the records of a complete log
            sels = [["E", e] for e in sorted({t[0] for t in triples})] + [["L", l] for l in sorted({t[1] for t in triples})] \
                + [["V", v] for v in sorted({t[2] for t in triples})] + [["I", t] for t in triples]
            k = rng.choice([1, 1, 2, 3, len(sels) // 2, len(sels)])
            case["punch"] = rng.sample(sels, max(1, min(k, len(sels))))
            if rng.chance(0.5):
                # bias towards a gap: drop the record of the lowest id of one table, keep the higher ones
                kind, pos = rng.choice([("E", 0), ("L", 1), ("V", 2)])
                ids_in_order = []
                for t in triples:
                    if t[pos] not in ids_in_order:
                        ids_in_order.append(t[pos])
                case["punch"] = [sel for sel in case["punch"] if sel[0] != kind] + [[kind, ids_in_order[0]]]
        return case

    def search(self, rng, tier):
        return self.generate(rng, tier, prone=rng.chance(0.5))

    def corpus(self):
        def D(*kv):
            return ["d", [list(p) for p in kv]]

        def base(rows, **kw):
            c = {"envs": [{"params": D((S("a"), ["i", 1]))}], "lrns": [{"params": None}], "vals": [{"params": D(), "lazy": True}],
                 "triples": [[0, 0, 0]], "rows": [[[0, 0, 0], rows]], "desc": None, "gz": False, "seed": 1, "phases": 1, "skip1": [], "fail": []}
            c.update(kw)
            return c
        L = lambda *xs: ["l", list(xs)]
        T = lambda *xs: ["t", list(xs)]
        I = lambda n: ["i", n]
        cs = [
            base([D((S("a"), L(I(1), I(2)))), D((S("a"), T(I(3))))]),
            base([D((S("a"), I(1))), D((S("b"), I(2)))], gz=True),
            base([D((S("x"), ["f", "0.000005"]), (S("y"), ["f", "1.234565"]), (S("z"), ["f", "0.999999"]), (S("w"), ["f", "nan"]), (S("v"), ["f", "-inf"]), (S("u"), ["f", "-0.0"]),
                    (S("t"), ["f", "1e+20"]), (S("s"), ["f", "2.5e-06"]), (S("r"), ["f", "0.5"]), (S("q"), ["f", "2.675"]))]),
            base([D((S("rewards"), L(I(1), I(2))), (S("reward"), ["f", "0.25"])), D((S("rewards"), T(I(3))), (S("reward"), I(1)))]),
            base([D((None, I(7)), (True, I(1)), (T(I(1), I(2)), I(5)), (["f", "0.5"], I(1)), (I(2), S("é\n")))]),
            base([D((S("a"), D((I(1), T(I(2), L(I(3)))), (S("k"), None))))]),
            base([D((S("a"), L())), D((S("a"), L(I(1))))]),
            base([], phases=2),
            base([D((S("a"), I(1)))], envs=[{"params": D((S("p"), T(I(1), ["f", "0.123456789"])), (I(2), L(L(I(1)))), (S("env_type"), S("custom")))}],
                 lrns=[{"params": D((S("family"), S("fam")), (S("x"), D((S("y"), T()))))}], vals=[{"params": D((S("eval_type"), S("mine")), (S("z"), ["f", "nan"])), "lazy": False}], desc="é\n", gz=True),
        ]
        # two phases: one triple skipped in the first run, one always failing
        c = base([D((S("a"), I(1)))])
        c.update({"envs": [{"params": None}, {"params": D((S("b"), T()))}], "lrns": [{"params": D()}, {"params": None}], "triples": [[0, 0, 0], [1, 0, 0], [0, 1, 0], [1, 1, 0]],
                  "rows": [[[0, 0, 0], [D((S("a"), I(1))), D((S("a"), I(2)), (S("b"), T(I(1))))]], [[1, 0, 0], [D((S("q"), ["f", "0.1"]))]], [[0, 1, 0], [D((S("z"), S("s")))]],
                           [[1, 1, 0], [D((S("never"), I(0)))]]],
                  "phases": 2, "skip1": [[1, 0, 0], [0, 1, 0]], "fail": [[1, 1, 0]], "gz": True})
        cs.append(c)
        # awkward code points in cells, field names, params, description (m1: lone surrogates need ensure_ascii)
        for i in range(0, len(AWKWARD_STRS), 2):
            a, b = AWKWARD_STRS[i], AWKWARD_STRS[(i + 1) % len(AWKWARD_STRS)]
            for shape in ("plain", "gz"):
                cs.append(base([D((S("k"), S(a)), (S("f" + b), I(1))), D((S("k"), L(S(b), D((S(a), S(b))))))],
                               envs=[{"params": D((S("source"), S(a)), (S(b), T(S(a))))}], lrns=[{"params": D((S("p" + a), S(b)))}],
                               vals=[{"params": D((S("q"), D((S(b), S(a))))), "lazy": True}], desc=a + " " + b, fname=shape, gz=(shape == "gz"), phases=1 + (i // 2) % 2))
        # reward objects as cells / nested / params (m4: they are recorded in their registered json form)
        R = lambda name, *args: ["r", name, list(args)]
        rws = [R("L1", ["f", "0.25"]), R("BR", I(1)), R("BR", L(I(1), I(2))), R("BR", I(2), ["f", "0.5"]), R("HR", L(I(1), I(2))),
               R("DR", L(I(1), I(2)), L(["f", "0.25"], ["f", "0.75"])), R("DR", L(S("x"), S("y")), L(I(0), I(1)))]
        cs.append(base([D((S("rewards"), rw), (S("x"), rw), (S("y"), L(rw, None))) for rw in rws], envs=[{"params": D((S("p"), rws[0]), (S("q"), T(rws[5])))}],
                       lrns=[{"params": D((S("r"), rws[1]))}], vals=[{"params": D((S("s"), rws[4])), "lazy": False}], fname="gz", gz=True, phases=2))
        # round g m3: registered objects whose state is falsy (L1Reward(0) / (0.0) / (-0.0): the state is the argmax itself) as cells, nested, in `rewards`, as params
        zs = [R("L1", I(0)), R("L1", ["f", "0.0"]), R("L1", ["f", "-0.0"]), R("L1", ["f", "0.5"]), R("BR", I(0)), R("HR", L()), R("BR", S(""))]
        for shape in ("plain", "gz"):
            cs.append(base([D((S("reward"), ["f", "-0.25"]), (S("rewards"), z), (S("x"), L(z, I(0))), (S("y"), D((S("k"), z)))) for z in zs],
                           envs=[{"params": D((S("target"), zs[0]), (S("q"), T(zs[1], zs[3])))}], lrns=[{"params": D((S("r"), zs[2]))}],
                           vals=[{"params": D((S("s"), zs[1])), "lazy": shape == "gz"}], fname=shape, gz=(shape == "gz"), phases=1 + (shape == "gz")))
        cs.append(base([D((S("rewards"), zs[0]))]))
        # round g m4: the run stops in the middle (a cell that cannot be written / Ctrl-C) after other evaluations were completed: what was completed is in the
        # Result of every route (without a file too); a later complete run on the same file finishes the experiment
        g4 = base([])
        g4.update({"envs": [{"params": D((S("env_i"), I(i)))} for i in range(4)], "lrns": [{"params": D((S("family"), S("L")), (S("i"), I(i)))} for i in range(2)],
                   "vals": [{"params": D((S("kind"), S("demo"))), "lazy": True}], "triples": [[e, l, 0] for e in range(4) for l in range(2)],
                   "rows": [[[e, l, 0], [D((S("reward"), ["f", repr(e / 4)]), (S("seen"), L(I(e), I(l)))), D((S("reward"), ["f", repr(l / 4)]), (S("seen"), L(I(e))))]] for e in range(4) for l in range(2)]})
        for shape in ("plain", "gz"):
            for kind, tri, repair in (("set", [3, 0, 0], False), ("set", [3, 1, 0], True), ("object", [1, 1, 0], False), ("interrupt", [2, 0, 0], False), ("interrupt", [3, 1, 0], True), ("set", [0, 0, 0], False)):
                cs.append(dict(json.loads(json.dumps(g4)), fname=shape, gz=(shape == "gz"), abort={"tri": tri, "kind": kind, "row": 1, "repair": repair}))
        cs.append(base([D((S("a"), I(1)))], abort={"tri": [0, 0, 0], "kind": "set", "row": 0, "repair": False}, vals=[{"params": D(), "lazy": False}]))
        # phase 5: tuple keys (nested in a cell / in a component's params) stop the run at that record; fields named like the id columns are overwritten
        for kind, tri, repair in (("tuplekey", [2, 1, 0], False), ("tuplekey", [1, 0, 0], True), ("param-key:env", [2, 0, 0], False), ("param-key:env", [3, 0, 0], True),
                                  ("param-key:lrn", [0, 1, 0], False), ("param-key:lrn", [0, 1, 0], True), ("param-key:val", [0, 0, 0], False), ("param-key:val", [0, 0, 0], True)):
            cs.append(dict(json.loads(json.dumps(g4)), fname="gz" if repair else "plain", gz=repair, abort={"tri": tri, "kind": kind, "row": 1, "repair": repair}))
        cs.append(base([D((S("index"), I(7)), (S("a"), T(I(1)))), D((S("environment_id"), L(I(5))), (S("a"), None)), D((S("evaluator_id"), S("x")), (S("learner_id"), ["f", "0.123456789"]))]))
        cs.append(base([D((S("index"), I(7))), D((S("index"), L(I(1), I(2))))], phases=2))
        cs.append(base([D((S("learner_id"), None)), D()], fname="gz", gz=True, shuffle=-1))
        # round h m2: a restored run on a PLAIN file whose last record is longer than 64 KiB and torn / unterminated (killed while writing the rows of the last
        # evaluation): the restored run and Result.from_file must give the uninterrupted Result.  Record sizes ~75 KiB and ~210 KiB; cut = bytes missing at the end
        def fat_rows(n):
            return [D((S("reward"), ["f", repr((j % 7) / 4)]), (S("note"), S(("row %d of the only learner; " % j) * 12)), (S("ctx"), L(I(j), I((j + 1) % 5)))) for j in range(n)]
        for n, cut in ((240, 1), (240, 1000), (240, 70000), (660, 1), (660, 100000), (660, 30000)):
            cs.append(base(fat_rows(n), torn={"cut": cut}, fname="plain", gz=False, vals=[{"params": D((S("kind"), S("long"))), "lazy": cut != 1}]))
        cs.append(base(fat_rows(240), torn={"cut": 1000}, fname="gz", gz=True))        # control: gzip files take the other path of _drop_torn_tail
        # phase 5: `Result.__init__`: full_name forms (vw with args+seed, vw without seed, a falsy field name, fields other learners lack)
        vw = base([D((S("reward"), ["f", "0.5"]))])
        vw.update({"lrns": [{"params": D((S("family"), S("vw")), (S("args"), S("--cb_explore 2")), (S("seed"), I(3)), (S("z"), T(I(1))))},
                            {"params": D((S("family"), S("vw")), (S("args"), S("--cb 2")))}, {"params": D((S(""), I(1)), (S("x"), ["f", "0.123456789"]), (S("b"), None))}],
                   "triples": [[0, l, 0] for l in range(3)], "rows": [[[0, l, 0], [D((S("reward"), ["f", "0.5"]))]] for l in range(3)]})
        cs.append(vw)
        cs.append(dict(json.loads(json.dumps(vw)), fname="gz", gz=True, shuffle=-1))
        # the same path held another experiment's log of the same byte length before (m3)
        for shape in ("plain", "gz"):
            cs.append(base([D((S("reward"), ["f", "0.25"])), D((S("reward"), ["f", "0.5"]))], lrns=[{"params": D((S("family"), S("eps")), (S("epsilon"), ["f", "0.2"]))}],
                           envs=[{"params": D((S("e"), I(0)))}], fname=shape, gz=(shape == "gz"), decoy=True))
            cs.append(base([D((S("reward"), ["f", "0.25"])), D((S("k"), S("abba")))], fname=shape, gz=(shape == "gz"), decoy=True, phases=2, skip1=[[0, 0, 0]]))
        # parameter records out of id order (C18 c-m3) and field names extending the special names (c-m3)
        g2 = base([])
        g2.update({"envs": [{"params": D((S("seed"), I(10)))}, {"params": D((S("seed"), I(20)))}, {"params": D((S("seed"), I(30)))}],
                   "lrns": [{"params": D((S("family"), S("A")))}, {"params": D((S("family"), S("B")))}], "vals": [{"params": None, "lazy": True}],
                   "triples": [[0, 0, 0], [0, 1, 0], [1, 0, 0], [2, 0, 0], [2, 1, 0]],
                   "rows": [[t, [D((S("reward"), I(y))) for y in ys]] for t, ys in ([[0, 0, 0], [1, 0, 1]], [[0, 1, 0], [0, 0, 1]], [[1, 0, 0], [1, 1, 1]], [[2, 0, 0], [0, 1, 1]], [[2, 1, 0], [1, 1, 0]])]})
        for shape in ("plain", "gz"):
            for sh in (-1, 3, 4):
                cs.append(dict(json.loads(json.dumps(g2)), fname=shape, gz=(shape == "gz"), shuffle=sh))
        cs.append(base([D((S(n), L(I(1), I(2)))) for n in ("past_rewards", "summary rewards", "eval_rewards", "rewards2", "Rewards", "rewards")]
                       + [D((S("past_rewards"), T(I(3))), (S("my index"), T()), (S("index2"), L(I(1))), (S("environment_id2"), T(I(0))), (S("_n"), L(I(5))), (S("_packed"), T()))], fname="gz", gz=True))
        # components that inherit the base classes' params (round e m2): several classes per kind, plain and restored, and a decoy experiment before
        for kw in ({}, {"phases": 2, "skip1": [[1, 1, 1]]}, {"decoy": True}, {"shuffle": -1}):
            c = base([])
            c.update({"envs": [{"params": None, "base": "A"}, {"params": None, "base": "B"}, {"params": None, "base": "C"}],
                      "lrns": [{"params": None, "base": "B"}, {"params": None, "base": "A"}, {"params": None, "base": "C"}],
                      "vals": [{"params": None, "base": "C", "lazy": True}, {"params": None, "base": "A", "lazy": False}],
                      "triples": [[0, 0, 0], [1, 1, 1], [2, 2, 0], [0, 2, 1]],
                      "rows": [[t, [D((S("reward"), I(i)))]] for i, t in enumerate([[0, 0, 0], [1, 1, 1], [2, 2, 0], [0, 2, 1]])]})
            c.update(kw)
            cs.append(c)
        # long packed columns / long containers (round f m1): an int almost everywhere, a many-decimal float at a position a sampling walker skips
        cs.append({"longs": 0, "count": 0, "pin": [[17, [1]], [17, [16]], [32, [1, 3]], [33, [1]], [33, [32]], [100, [38, 39]], [100, [1]], [200, [13]], [64, [63]]]})
        for sd in range(1, 4):
            cs.append({"longs": sd, "count": 40})
        for n, spots in ([17, [1]], [32, [1]], [33, [1]], [100, [38, 39]]):
            rows = [D((S("cnt"), (["f", "%d.123456789" % (i + 1)] if i in spots else I(i))), (S("nested"), L(*[(["f", "0.987654321"] if (i in spots and j == 5) else I(j)) for j in range(20)])))
                    for i in range(n)]
            cs.append(base(rows, fname="gz" if n % 2 else "plain", gz=bool(n % 2)))
        # phase 3: `minimize` alone on boundary floats (6 x 2000 per run) and logs with ids recorded twice
        for sd in range(6):
            cs.append({"floats": sd, "count": 2000})
        for shape in ("plain", "gz"):
            for ops in ([["I", [0, 0, 0], [2, 1, 0]]], [["E", 2, 0]], [["L", 1, 0]], [["I", [2, 0, 0], [0, 0, 0]], ["I", [0, 1, 0], [0, 0, 0]], ["E", 0, 1], ["E", 2, 1], ["L", 0, 1]]):
                cs.append(dict(json.loads(json.dumps(g2)), fname=shape, gz=(shape == "gz"), dup=ops))
                # phase 6: the same log with its records grouped by key (each id's two records keep their order), then a restored run
                cs.append(dict(json.loads(json.dumps(g2)), fname=shape, gz=(shape == "gz"), dup=ops, regroup=True))
        cs.append(dict(json.loads(json.dumps(g2)), fname="plain", gz=False, regroup=True))
        cs.append(dict(json.loads(json.dumps(g2)), fname="gz", gz=True, regroup=True, phases=2, skip1=[g2["triples"][0]]))
        # phase 6 (key handling): field names / nested keys / params keys that are EQUAL for Python but different objects (1 == True == 1.0,
        # 0 == False == 0.0) in different rows / components: str() resp. json keep them apart ('1' / 'True' / '1.0'; '1' / 'true' / '1.0')
        F1, F0 = ["f", "1.0"], ["f", "0.0"]
        for shape in ("plain", "gz"):
            for kw in ({}, {"phases": 2, "skip1": [[0, 0, 0]]}):
                cs.append(base([D((I(1), S("int")), (S("z"), I(1))), D((True, S("bool"))), D((F1, S("float")), (S("z"), I(3))), D((I(1), S("int again")))],
                               fname=shape, gz=(shape == "gz"), **kw))
                cs.append(base([D((False, L(I(1)))), D((I(0), T(I(2)))), D((F0, None), (S("0"), S("str-too")))], fname=shape, gz=(shape == "gz"), **kw))
                cs.append(base([D((S("d"), D((I(1), S("a"))))), D((S("d"), D((True, S("b"))))), D((S("d"), D((F1, S("c"))))), D((S("d"), L(D((False, I(0))), D((I(0), I(1))))))],
                               fname=shape, gz=(shape == "gz"), **kw))
            ek = base([D((I(1), I(1))), D((True, I(2)))], fname=shape, gz=(shape == "gz"))
            ek.update({"envs": [{"params": D((I(1), S("e-int")))}, {"params": D((True, S("e-bool")))}, {"params": D((F1, S("e-float")))}],
                       "lrns": [{"params": D((False, S("l-bool")), (S("x"), D((I(0), I(1)))))}, {"params": D((I(0), S("l-int")), (S("x"), D((False, I(1)))))}],
                       "vals": [{"params": D((F0, S("v-float"))), "lazy": True}, {"params": D((I(0), S("v-int"))), "lazy": False}],
                       "triples": [[0, 0, 0], [1, 1, 1], [2, 0, 1], [2, 1, 0]],
                       "rows": [[t, [D(([I(1), True, F1, I(0)][i], I(i))), D(([True, F1, I(1), False][i], I(i + 10)))]] for i, t in enumerate([[0, 0, 0], [1, 1, 1], [2, 0, 1], [2, 1, 0]])]})
            cs.append(ek)
            cs.append(dict(json.loads(json.dumps(ek)), shuffle=-1))
        # result-file names of every shape (DiskSink and DiskSource must agree on what is gzip)
        for shape in FNAME_SHAPES:
            for ph in (1, 2):
                cs.append(base([D((S("a"), I(1)), (S("t"), S("h\u00e9llo\nw")))], fname=shape, gz=is_gzip_name(os.path.join(*FNAME_SHAPES[shape])), phases=ph))
        # restored run on a log with gaps: the record of id 0 is missing while id 1 is there (and other non-prefix subsets)
        g = base([])
        g.update({"envs": [{"params": D((S("name"), S("envA")))}, {"params": D((S("name"), S("envB")))}],
                  "lrns": [{"params": D((S("name"), S("first")), (S("lr"), ["f", "0.5"]))}, {"params": D((S("name"), S("second")))}],
                  "vals": [{"params": D((S("v"), I(1))), "lazy": True}, {"params": None, "lazy": False}],
                  "triples": [[0, 0, 0], [0, 1, 0], [1, 0, 1], [1, 1, 1]],
                  "rows": [[[e, l, v], [D((S("reward"), I(1)), (S("k"), S("a"))), D((S("reward"), I(0)), (S("k"), S("b")))]] for e, l, v in [[0, 0, 0], [0, 1, 0], [1, 0, 1], [1, 1, 1]]]})
        for shape in ("plain", "gz"):
            for punch in ([["E", 0]], [["L", 0]], [["V", 0]], [["E", 0], ["L", 0], ["V", 0]], [["I", [0, 1, 0]]], [["E", 1], ["I", [0, 0, 0]], ["I", [1, 1, 1]]],
                          [["E", 0], ["E", 1], ["L", 0], ["L", 1], ["V", 0], ["V", 1], ["I", [0, 0, 0]], ["I", [0, 1, 0]], ["I", [1, 0, 1]], ["I", [1, 1, 1]]]):
                cs.append(dict(json.loads(json.dumps(g)), fname=shape, gz=(shape == "gz"), punch=punch))
        return cs

    # ---- evaluation
    def evaluate(self, case, driver):
        tags = []
        if "floats" in case:
            return eval_floats(case, driver)
        if "longs" in case:
            return eval_longs(case, driver)
        impl, logs = run_impl(case)
        shown = case
        if dup_ops(case):
            tags.append("dup:" + "+".join(sorted({op[0] for op in dup_ops(case)})))
            case = effective_case(case)      # (B): the log with duplicated records must equal the uninterrupted run of this experiment
        view = abort_view(case, impl, logs)
        ab = abort_of(case)
        if ab:
            tags.append("abort:" + ab["kind"] + (":then-repaired" if ab.get("repair") else ""))
            if view is not None:
                tags.append("abort:completed-before=%d" % min(3, len(view["done"])))
        fails = check_property(case, impl, view)
        for route, probs in sorted((logs.get("index") or {}).items()):
            for sfx, text in probs[:3]:
                fails.append(F("B", "route %s: %s" % (route, text), "index:" + sfx))
        # (B) phase 5: "the Result with a file, without a file and from_file are identical" also for what `Table` exposes beyond the rows:
        # column order and Missing-vs-None cells of all four tables (for restored / punched / permuted logs this is order independence)
        pa = logs.get("padded_all") or {}
        if all(pa.get(r) is not None for r in ("nofile", "file", "from_file")):
            for a, b in (("nofile", "file"), ("file", "from_file")):
                for name, ta, tb in zip(("envs", "lrns", "vals", "ints"), pa[a], pa[b]):
                    if ta["columns"] != tb["columns"]:
                        fails.append(F("B", "Table.columns of %s: route %s has %s, route %s has %s" % (name, a, json.dumps(ta["columns"]), b, json.dumps(tb["columns"])),
                                       "routes-differ:padded:columns:" + name))
                    elif [[c == ["M"] for c in r] for r in ta["rows"]] != [[c == ["M"] for c in r] for r in tb["rows"]]:
                        fails.append(F("B", "Missing cells of %s differ between route %s and route %s" % (name, a, b), "routes-differ:padded:missing:" + name))
            tags.append("B:padded-routes-compared")
        # (B) phase 5: the Results of the three routes are identical also in what `Result.__init__` derives from the tables (learner `full_name`s)
        cv = logs.get("cache") or {}
        if all(r in cv for r in ("nofile", "file", "from_file")):
            names = {r: [(json.dumps(e["id"]), e["full_name"]) for e in cv[r]["lrn"]] for r in cv}
            for a, b in (("nofile", "file"), ("file", "from_file")):
                if names[a] != names[b]:
                    fails.append(F("B", "learner full_names differ: route %s has %s, route %s has %s" % (a, names[a][:4], b, names[b][:4]), "routes-differ:full_name"))
            tags.append("B:full-names-compared")
        eid, lid, vid = assign_ids(case)
        fail = set(map(tuple, case.get("fail", [])))
        done = [tuple(t) for t in case["triples"] if tuple(t) not in fail]
        if view is not None:
            done = list(view["done"])
        # tags / non-triviality
        nontrivial = False
        tags.append("phases:%d" % case.get("phases", 1))
        for kind in ("envs", "lrns", "vals"):
            letters = {c.get("base") for c in case[kind] if c.get("params") is None and c.get("base")}
            if len(letters) >= 2:
                tags.append("inherited-params:" + kind + ":several-classes")
            elif letters:
                tags.append("inherited-params:" + kind)
        tags.append("fname:" + fname_shape(case))
        if case.get("decoy"):
            tags.append("decoy-run-on-same-path")
        if case.get("shuffle") is not None:
            tags.append("log-records-permuted" + (":reversed" if case["shuffle"] == -1 else ""))
        if shown.get("regroup"):
            moved = shown.pop("_regroup_moved", None) or case.pop("_regroup_moved", None) or 0
            tags.append("log-records-regrouped" + (":ids-recorded-twice" if dup_ops(shown) else "") + (":moved" if moved else ":nothing-to-move"))
        if case.get("torn"):
            rec_len, left = shown.pop("_torn_seen", None) or case.pop("_torn_seen", None) or (0, 0)
            tags.append("torn:gzip-member" if not rec_len else "torn:last-record=%s:left-on-disk=%s" % (">64KiB" if rec_len > 65536 else "<=64KiB", "all-but-newline" if left == rec_len - 1 else (">64KiB" if left > 65536 else "<=64KiB")))
        if case.get("punch"):
            gone = punched_records(case)
            for kk in sorted({g[0] for g in gone}):
                tags.append("punch:" + kk)
            for kk, pos in (("E", 0), ("L", 1), ("V", 2)):
                ids = sorted(x for k2, x in gone if k2 == kk)
                n = len({t[pos] for t in case["triples"]})
                if ids and len(ids) < n and ids != list(range(n - len(ids), n)):
                    tags.append("punch:gap:" + kk)
        if case.get("fail"):
            tags.append("failing-triple")
        if case.get("phases", 1) == 2:
            tags.append("restored:skipped=%d" % min(3, len(case.get("skip1", []))))
        for t in done:
            rows = rows_of(case, t)
            names = {pystr_key(k) for k in union_keys(rows)}
            if len(rows) >= 2 and len(names) >= 2:
                nontrivial = True
            tags.append("rows:%s" % (len(rows) if len(rows) < 3 else "3+"))
            if rows and not names:
                tags.append("shape:all-empty-rows")
            if has_collision(rows):
                tags.append("shape:str-key-collision")
            if any(len(row_keys(r)) != len(names) for r in rows):
                tags.append("shape:ragged")
            for n in names:
                sh = p16_shape(rows, n)
                if sh:
                    tags.append("shape:first-row:" + sh)
            eqcls = {}
            for r in rows:
                for k, v in r[1]:
                    if not (isinstance(k, list) and k[0] in ("s", "t")) and k is not None and dec(k) in (0, 1):
                        eqcls.setdefault(int(dec(k)), set()).add(json.dumps(k))
                    if isinstance(k, list) and k[0] == "s" and k[1] == "eqk" and isinstance(v, list) and v[0] == "d" and v[1]:
                        eqcls.setdefault("nested", set()).add(json.dumps(v[1][0][0]))
            for c, members in eqcls.items():
                if len(members) >= 2:
                    tags.append("key:python-equal-names" + (":nested" if c == "nested" else "") + (":all-three" if len(members) >= 3 else ""))
            for r in rows:
                for k, v in r[1]:
                    tags.append("key:" + kind_of(k))
                    if isinstance(k, list) and k[0] == "s" and k[1] in ID_COLS:
                        tags.append("key:reserved")
                    tags.append("cell:" + kind_of(v))
                    if kind_of(v) == "float":
                        x = float(v[1])
                        if math.isfinite(x) and not x.is_integer() and (Fraction(v[1]) * 10 ** 6) % 10 == 5 and (Fraction(v[1]) * 10 ** 6).denominator == 1:
                            tags.append("float:decimal-tie")
                        elif not math.isfinite(x):
                            tags.append("float:nonfinite")
        if any("raised" in v for v in impl.values()):
            tags.append("raised:" + "/".join(sorted({v["raised"] for v in impl.values() if "raised" in v})))
        for f in fails:
            tags.append("B:" + f["sig"])
        model = None
        outside = any(f["sig"] == "run-raised:KeyError:family-vw-without-args" for f in fails)
        if outside:
            tags.append("A:skipped-outside-modelled-mechanism")     # Result.__init__'s full_name is not part of the model
        if driver is not None and not outside:
            p1, txs = with_dups(shown, *transactions(shown, view))
            info = ["d", [[S("n_learners"), ["i", len(lid)]], [S("n_environments"), ["i", len(eid)]],
                          [S("description"), (["s", case["desc"]] if case.get("desc") is not None else None)], [S("seed"), ["i", case.get("seed", 1)]]]]
            ans = driver.ask({"info": lean_val(info), "txs": [lean_tx(t) for t in txs], "phase1": None if p1 is None else [lean_tx(t) for t in p1]})
            combos = {c: {r: canon_model_result(ans[c][r]) for r in ("nofile", "file", "from_file")} for c in COMBOS}
            model = {"ff": combos["ff"]["file"], "tt": combos["tt"]["file"]}
            collide = any(has_collision(rows_of(case, t)) for t in done)
            # (A): the implementation equals the model of the pinned code or of (partly) repaired code, the same one on all routes
            ties = any(has_tie(x) for kind in ("envs", "lrns", "vals") for comp in case[kind] if comp.get("params") is not None for x in [comp["params"]]) \
                or any(has_tie(r) for _, rows in case["rows"] for r in rows)
            limpl = {r: lenient_rewards(impl[r]) for r in impl}
            combos = {c: {r: lenient_rewards(combos[c][r]) for r in combos[c]} for c in combos}
            matching = [c for c in COMBOS if all(limpl[r] == combos[c][r] for r in ("nofile", "file", "from_file"))]
            if not matching and ties:
                # a value at a rounding tie may legitimately go either way (e.g. round(v,5) instead of round(v*P)/P)
                matching = [c for c in COMBOS if all(eq_mod_ties(limpl[r], combos[c][r]) for r in ("nofile", "file", "from_file"))]
                if matching:
                    tags.append("A:tie-tolerance-used")
            if not matching:
                ok = False
                if collide and all(v.get("raised") == "TypeError" for v in impl.values()):
                    ok = True       # pinned code: the interleaved column put a non-iterable after a list (set-order dependent)
                    tags.append("A:collision-raised")
                elif collide and not any("raised" in v for v in impl.values()):
                    # the pinned encoder's output depends on Python's set order when names collide under str(): compare everything else
                    same = (lambda a, b: a == b or eq_mod_ties(a, b)) if ties else (lambda a, b: a == b)
                    ok = any(all(all(same(impl[r][t], combos[c][r].get(t)) for t in ("exp", "envs", "lrns", "vals")) for r in ("nofile", "file", "from_file")) for c in ("ff", "tt"))
                    tags.append("A:collision-partial")
                if not ok:
                    c = "ff"
                    diff = "?"
                    for r in ("nofile", "file", "from_file"):
                        if impl[r] != combos[c][r]:
                            if "raised" in impl[r] or "raised" in combos[c][r]:
                                diff = "%s: implementation %s, model(pinned) %s" % (r, json.dumps(impl[r])[:200], json.dumps(combos[c][r])[:200])
                            else:
                                for t in ("exp", "envs", "lrns", "vals", "ints"):
                                    if impl[r][t] != combos[c][r][t]:
                                        diff = "%s.%s: implementation %s, model(pinned) %s" % (r, t, json.dumps(impl[r][t])[:300], json.dumps(combos[c][r][t])[:300])
                                        break
                            break
                    fails.append(F("A", "the Result differs from the Lean model of the pinned and of the repaired code; " + diff, "A:result"))
            else:
                tags.append("A:match:" + matching[-1])
            # (A) Table view: column order and Missing-padding of the four tables (model `tablesOf`)
            pad = ans.get("padS" if matching and matching[-1].endswith("S") else "pad")
            if logs.get("padded") is not None and isinstance(pad, list) and matching:
                for name, it, mt in zip(("envs", "lrns", "vals", "ints"), logs["padded"], pad):
                    mcols = [unlean_str(c) for c in mt["columns"]]
                    mrows = [[sort_model_val(c) for c in r] for r in mt["rows"]]
                    irows = [[lenient_cell(n, c) for n, c in zip(it["columns"], r)] for r in it["rows"]]
                    mrows = [[lenient_cell(n, c) for n, c in zip(mcols, r)] for r in mrows]
                    if it["columns"] != mcols:
                        fails.append(F("A", "Table.columns of %s is %s, model %s" % (name, json.dumps(it["columns"]), json.dumps(mcols)), "A:padded:columns:" + name))
                    elif irows != mrows and not (ties and eq_mod_ties(irows, mrows)):
                        fails.append(F("A", "padded rows of %s differ: implementation %s, model %s" % (name, json.dumps(irows)[:300], json.dumps(mrows)[:300]), "A:padded:rows:" + name))
                tags.append("A:padded-tables-compared")
            # (A) phase 5: `Result.__init__` — caches = table rows; every learner's full_name = the model's ingredients (`lrnNames` on the model's padded
            # learners table: which fields, in which order, family default, vw form) rendered with Python's str() of the real cells
            mnames = ans.get("namesS" if matching and matching[-1].endswith("S") else "names")
            cfile = (logs.get("cache") or {}).get("file")
            if cfile is not None and matching:
                for sfx, text in cfile["problems"][:3]:
                    fails.append(F("A", text, "A:cache:" + sfx))
                if isinstance(mnames, list):
                    if len(mnames) != len(cfile["lrn"]):
                        fails.append(F("A", "the learner cache has %d entries, the model %d" % (len(cfile["lrn"]), len(mnames)), "A:full_name:count"))
                    else:
                        for e, m in zip(cfile["lrn"], mnames):
                            if m is None:
                                fails.append(F("A", "model: learner row without learner_id", "A:full_name:no-id")); continue
                            want = render_full_name(e, m)
                            if e["full_name"] != want:
                                fails.append(F("A", "full_name of learner %s is %r, the model's ingredients give %r" % (json.dumps(e["id"]), e["full_name"], want), "A:full_name"))
                            if m["vw"]:
                                tags.append("full_name:vw")
                            elif m["keys"]:
                                tags.append("full_name:params" + (":some-missing" if e["missing"] else ""))
                            else:
                                tags.append("full_name:bare")
                    tags.append("A:full-names-compared")
            # (C) phase 5: the log written and read through the (tag -> shape) tables = the model's route (theorem viaTables_eq / log_roundtrip_source at run time)
            if canon_model_result(ans["viaTables"]) != canon_model_result(ans["tt"]["nofile"]):
                fails.append(F("C", "model: log through the record-shape tables differs from the model's encoder/reader", "C:viaTables"))
            # (C) phase 6: the model's Result / padded tables of the log regrouped by key = those of the log as written (theorem regroupLog_same at run time)
            if canon_model_result(ans["regrouped"]) != canon_model_result(ans["tt"]["file"]):
                fails.append(F("C", "model: the log regrouped by key reads back differently from the log as written", "C:regrouped"))
            if ans["padRegrouped"] != ans["pad"]:
                fails.append(F("C", "model: padded tables of the log regrouped by key differ from those of the log as written", "C:regrouped:padded"))
            if ans.get("regroupMoved"):
                tags.append("C:regrouped:moved")
            # (C) phase 5: on clean runs (`cleanRunB`) the model's padded tables are `specTables`, also when the log is written in reverse
            # order (theorems tables_spec / tables_order_invariant / tables_punched_log at run time)
            if ans.get("clean"):
                tags.append("C:clean-run")
                if ans["pad"] != ans["specTables"]:
                    fails.append(F("C", "model tablesOf differs from specTables on a clean run", "C:specTables"))
                if ans["padRev"] != ans["specTables"]:
                    fails.append(F("C", "model tablesOf of the reversed log differs from specTables on a clean run", "C:specTables:reversed"))
            # (C) phase 3: the model's tables = `specInteractionsLW` (last record of a triple wins) and `unionParams` (records of an id are merged)
            ttr = combos["tt"]["nofile"]
            if "raised" not in ttr:
                if ttr["ints"] != [canon_model_row(r) for r in ans["specLW"]]:
                    fails.append(F("C", "model interactions differ from specInteractionsLW", "C:specLW"))
                tbl = {"E": ("envs", "environment_id"), "L": ("lrns", "learner_id"), "V": ("vals", "evaluator_id")}
                for tag, i, row in ans["unions"]:
                    name, idcol = tbl[tag]
                    got = [r for r in ttr[name] if [idcol, ["q", i, 1]] in r]
                    want = canon_model_row([[idcol, ["q", i, 1]]] + [kv for kv in row if kv[0] != idcol])
                    if len(got) != 1 or got[0] != want:
                        fails.append(F("C", "model %s row of id %s differs from unionParams" % (name, i), "C:unionParams"))
            # (C): the model of the repaired code meets the specification (theorems roundtrip_normalise / params_roundtrip at run time),
            #      and the Lean specification meets the Python oracle of the documented normalisation
            tt = combos["tt"]["nofile"]
            if "raised" in tt:
                fails.append(F("C", "model of the repaired code raises %s" % tt["raised"], "C:raised"))
            else:
                by = {}
                for r in tt["ints"]:
                    d = {k: v for k, v in r}
                    by.setdefault((d["environment_id"][1], d["learner_id"][1], d["evaluator_id"][1]), []).append(r)
                seen = {}
                for sp in ans["spec"]:
                    seen[tuple(sp["ids"])] = sp        # the last record of a triple wins
                for ids, sp in seen.items():
                    srows = [canon_model_row(r) for r in sp["rows"]]
                    if by.get(ids, []) != srows:
                        fails.append(F("C", "model rows of triple %s differ from specRows" % (ids,), "C:specRows"))
                spec_impl = {"file": {"exp": impl["file"].get("exp"), "envs": [], "lrns": [], "vals": [], "ints": [r for ids, sp in sorted(seen.items()) for r in [canon_model_row(x) for x in sp["rows"]]]}}
                # Lean spec vs Python oracle: run the (B) interaction monitor on the spec rows
                if not any("raised" in v for v in impl.values()):
                    probe = {k: dict(impl["file"], ints=spec_impl["file"]["ints"]) for k in ("nofile", "file", "from_file")}
                    for f in check_property(case, probe, view):
                        if f["sig"].startswith(("ints:", "first-row", "str-key")):
                            fails.append(F("C", "Lean specification vs Python oracle: " + f["what"], "C:" + f["sig"]))
        return {"fails": fails, "nontrivial": nontrivial, "tags": sorted(set(tags)), "impl": impl.get("file"), "model": model}

    # ---- shrinking
    def shrink(self, case):
        def cp(c):
            return json.loads(json.dumps(c))
        if "floats" in case:
            if case.get("count", 2000) > 50:
                c = cp(case); c["count"] = case.get("count", 2000) // 2; yield c
            return
        if "longs" in case:
            if case.get("count", 0) > 0:
                c = cp(case); c["count"] = case["count"] // 2; yield c
            for i in range(len(case.get("pin") or [])):
                c = cp(case); c["pin"].pop(i); yield c
            return
        tris = case["triples"]
        # drop components no triple refers to (renumbering the rest)
        for kind, pos in (("envs", 0), ("lrns", 1), ("vals", 2)):
            used = sorted({t[pos] for t in tris})
            if len(used) < len(case[kind]):
                c = cp(case)
                ren = {o: n for n, o in enumerate(used)}
                c[kind] = [c[kind][o] for o in used]

                def rn(t):
                    t = list(t); t[pos] = ren[t[pos]]; return t
                c["triples"] = [rn(t) for t in c["triples"]]
                c["rows"] = [[rn(t), r] for t, r in c["rows"]]
                c["skip1"] = [rn(t) for t in c["skip1"]]
                c["fail"] = [rn(t) for t in c["fail"]]
                if c.get("abort"):
                    c["abort"]["tri"] = rn(c["abort"]["tri"])
                kind_of_pos = "ELV"[pos]
                pn = []
                for sel in c.get("punch") or []:
                    if sel[0] == kind_of_pos:
                        if sel[1] in ren:
                            pn.append([sel[0], ren[sel[1]]])
                    elif sel[0] == "I":
                        if sel[1][pos] in ren:
                            pn.append(["I", rn(sel[1])])
                    else:
                        pn.append(sel)
                if "punch" in c:
                    c["punch"] = pn
                yield c
        if len(tris) > 1:
            for i in range(len(tris)):
                c = cp(case)
                t = c["triples"].pop(i)
                c["rows"] = [tr for tr in c["rows"] if tr[0] != t]
                c["skip1"] = [x for x in c["skip1"] if x != t]
                c["fail"] = [x for x in c["fail"] if x != t]
                if c.get("punch"):
                    c["punch"] = [sel for sel in c["punch"] if not (sel[0] == "I" and sel[1] == t)]
                yield c
        if case.get("phases", 1) == 2:
            c = cp(case); c["phases"] = 1; c["skip1"] = []; yield c
        if case.get("decoy"):
            c = cp(case); c["decoy"] = False; yield c
        if case.get("abort"):
            if case["abort"].get("repair"):
                c = cp(case); c["abort"]["repair"] = False; yield c
            if case["abort"].get("kind") != "set":
                c = cp(case); c["abort"]["kind"] = "set"; yield c
            if case["abort"].get("row"):
                c = cp(case); c["abort"]["row"] = 0; yield c
        if "floats" in case:
            if case.get("count", 2000) > 50:
                c = cp(case); c["count"] = case.get("count", 2000) // 2; yield c
            return
        if case.get("dup"):
            c = cp(case); c["dup"] = []; yield c
            for i in range(len(case["dup"])):
                c = cp(case); c["dup"].pop(i); yield c
        if case.get("regroup"):
            c = cp(case); c["regroup"] = False; yield c
        if case.get("shuffle") is not None:
            c = cp(case); c["shuffle"] = None; yield c
            if case["shuffle"] != -1:
                c = cp(case); c["shuffle"] = -1; yield c
        if fname_shape(case) != "plain":
            c = cp(case); c["gz"] = False; c["fname"] = "plain"; yield c
        if case.get("punch"):
            c = cp(case); c["punch"] = []; yield c
            for i in range(len(case["punch"])):
                c = cp(case); c["punch"].pop(i); yield c
        if case.get("fail"):
            c = cp(case); c["fail"] = []; yield c
        if case.get("desc") is not None:
            c = cp(case); c["desc"] = None; yield c
        for kind in ("envs", "lrns", "vals"):
            for i, comp in enumerate(case[kind]):
                if comp.get("params") is not None and comp["params"][1]:
                    for j in range(len(comp["params"][1])):
                        c = cp(case); c[kind][i]["params"][1].pop(j); yield c
                if comp.get("params") is not None and not comp["params"][1]:
                    c = cp(case); c[kind][i]["params"] = None; yield c
        for ti, (t, rows) in enumerate(case["rows"]):
            if len(rows) > 8:
                h = len(rows) // 2
                for keep in (rows[:h], rows[h:], rows[:len(rows) - 1], rows[1:]):
                    c = cp(case); c["rows"][ti][1] = cp(keep); yield c
                continue
            for ri in range(len(rows)):
                c = cp(case); c["rows"][ti][1].pop(ri); yield c
            for ri, row in enumerate(rows):
                for ki in range(len(row[1])):
                    c = cp(case); c["rows"][ti][1][ri][1].pop(ki); yield c
                for ki, (k, v) in enumerate(row[1]):
                    if isinstance(v, list) and v[0] in ("l", "t", "d") and len(v[1]) > 0:
                        for j in range(len(v[1])):
                            c = cp(case); c["rows"][ti][1][ri][1][ki][1][1].pop(j); yield c
                    if isinstance(v, list) and v[0] in ("f", "s") and v[1] not in ("0.5", "a"):
                        c = cp(case); c["rows"][ti][1][ri][1][ki][1] = ["i", 1]; yield c

    def snippet(self, case):
        if "longs" in case:
            return ("import sys, json; sys.path[:0] = [%r, '/verif/harness']\nfrom props.c07 import long_values, dec, val_ok, canon_val\nfrom coba.utilities import minimize\n"
                    "for v in long_values(json.loads(%r)):\n    print(val_ok(v, canon_val(minimize(dec(v))), False))   # None = normalised\n" % (os.environ.get("COBA_REPO", "/repo"), json.dumps(case)))
        if "floats" in case:
            return ("import sys; sys.path[:0] = [%r, '/verif/harness']\nfrom props.c07 import boundary_floats\nfrom coba.utilities import minimize\n"
                    "for x in boundary_floats(%d, %d):\n    r = minimize(x)\n    assert minimize(r) == r, (x, r)\n" % (os.environ.get("COBA_REPO", "/repo"), case["floats"], case.get("count", 2000)))
        return ("import sys, json; sys.path[:0] = [%r, '/verif/harness']\n"
                "from props.c07 import run_impl, check_property\n"
                "case = json.loads(%r)\n"
                "impl, logs = run_impl(case)   # Experiment(...).run(None) / .run(file) [twice when phases==2] / Result.from_file(file) on instrumented components\n"
                "print(json.dumps(impl)[:2000])\n"
                "for f in check_property(case, impl): print(f['sig'], '--', f['what'])\n" % (os.environ.get("COBA_REPO", "/repo"), json.dumps(case)))


PROPERTY = C07()
