"""C02 Interrupted experiments resume without losing or repeating work.

One case = one small experiment (recording components of props/c02_components.py), run once to
completion with a result file (plain or .gz); the complete log is then cut at the listed byte
offsets, every cut file is resumed with `Experiment.run(cut_file)` under the case's execution
configuration, optionally the resumed file is cut and resumed a second time (`chain`).

(B) on every cut, directly on the real code: the resumed run does not raise; its Result equals
    the uninterrupted Result; no triple with an I record among the complete lines of the cut file
    is evaluated again (side-channel trace written by the evaluator); no I id occurs twice in the
    final file.
(A) the Lean model (driver `drv_c02`, the definitions the theorems are about) is asked for the
    same cuts: restore/final outcome, bytes kept, tasks run, records appended (as multisets).
(C) when the theorems' hypotheses hold for the case and the tree contains the repairs, the
    model's own outcome satisfies the spec predicates.
"""
import gzip
import json
import os
import re
import shutil
import tempfile
import zlib

from core.engine import Property, F
from core import lean
from core.prng import Rng

CFG1 = {"processes": 1, "maxchunksperchild": 0, "maxtasksperchunk": 0}
# phase 6: the three settings and the statements of Experiment.config / the properties / run() the model mirrors
CFG_NAMES = ["processes", "maxchunksperchild", "maxtasksperchunk"]
CFG_LABELS = ["config:self._processes=processes", "config:self._maxchunksperchild=maxchunksperchild", "config:self._maxtasksperchunk=maxtasksperchunk",
              "prop:processes", "prop:maxchunksperchild", "prop:maxtasksperchunk", "run:defaults-None",
              "run:self.config(processes,maxchunksperchild,maxtasksperchunk)", "run:mp,mc,mt=properties", "run:is_multiproc=mp>1 or mc!=0",
              "run:ChunkTasks(mt)", "run:CobaMultiprocessor(_,mp,mc,_)"]
# "every byte offset": a byte range with a pad whose length is 3*log2(size) so that every halving step of
# the shrinker yields a strictly shorter case (the engine only accepts shorter canonical JSON)
ALL = [["kr", 0, (1 << 13) - 1, "x" * 39]]


NAMES = ["r.log", "r.log.gz", "r.gz.bak", "r.gzip", "a.gz.d/r.log", "r s \u00e9.log", "r s \u00e9.log.gz", "out.d/r.txt", "r.gz"]


def name_of(case):
    """relative name of the result file; coba treats a path as gzip when it CONTAINS '.gz' (DiskSink/DiskSource)"""
    return case.get("name") or ("r.log.gz" if case.get("gz") else "r.log")


def is_gz(case):
    return ".gz" in name_of(case)


def file_at(d, sub, case):
    path = os.path.join(d, sub, name_of(case))
    os.makedirs(os.path.dirname(path), exist_ok=True)
    return path


# ------------------------------------------------------------------ building and running
def build(case, trace, first=False):
    """the Experiment of the case (fresh objects every time, as in a re-run of the same script)"""
    from props.c02_components import Env, Lrn, Val
    from coba.experiments import Experiment
    envs = [Env(i, e["n"], e.get("p", 0)) for i, e in enumerate(case["envs"])]
    ch = case.get("chunk")
    if ch:
        from coba.environments import Environments
        flags = [True] * len(envs) if ch is True else list(ch)
        envs = [Environments([e]).chunk()[0] if c else e for e, c in zip(envs, flags)]
    lrns = [Lrn(i, l.get("p", 0)) for i, l in enumerate(case["lrns"])]
    vals = [Val(i, trace, v.get("mode", "rows"), v.get("style", 0), v.get("nrows", 3), case.get("empty", ()), case.get("boom", ()), case.get("big"), case.get("slow", ()) if first else ())
            for i, v in enumerate(case["vals"])]
    if case.get("triples") is None:
        return Experiment(envs, lrns, vals, description=case.get("desc"))
    return Experiment([(envs[e], lrns[l], vals[v]) for e, l, v in case["triples"]], description=case.get("desc"))


def triples_of(case):
    if case.get("triples") is None:
        return [[e, l, v] for e in range(len(case["envs"])) for l in range(len(case["lrns"])) for v in range(len(case["vals"]))]
    return [list(t) for t in case["triples"]]


def ids_of(case):
    """object key -> id assigned by MakeTasks (position of first occurrence); harness-side oracle"""
    em, lm, vm = {}, {}, {}
    for e, l, v in triples_of(case):
        em.setdefault(e, len(em)); lm.setdefault(l, len(lm)); vm.setdefault(v, len(vm))
    return em, lm, vm


LAST_RUN = {}      # phase 6: route and effective configuration of the last run() of this process (read right after the call)
VIAS = ["context", "config+context", "args-over-context", "mixed", "config+args"]


def route_of(cfg):
    """phase 6: how the configuration `cfg` (the EFFECTIVE values wanted) reaches Experiment.run: (values an earlier .config() call
    stores | None, arguments of run() (None = not given), values of CobaContext.experiment | None = left as they are).  Decoys are
    values that must NOT take effect; they never switch multi-processing on."""
    eff = [cfg.get("processes", 1), cfg.get("maxchunksperchild", 0), cfg.get("maxtasksperchunk", 0)]
    via = cfg.get("via", "args")
    decoy = [1, 0, eff[2] + int(cfg.get("decoy", 1))]
    if via == "context":                 # nothing given to run(): the process-global defaults decide
        return None, [None] * 3, eff
    if via == "config+context":          # .config(decoy) first; run() without arguments overwrites it with None -> context
        return decoy, [None] * 3, eff
    if via == "args-over-context":       # the context holds decoys, run() gets everything
        return None, eff, decoy
    if via == "mixed":                   # processes / maxchunksperchild as arguments, maxtasksperchunk from the context, .config(decoy) before
        return decoy, [eff[0], eff[1], None], [1, 0, eff[2]]
    if via == "config+args":             # .config(decoy), run() gets everything
        return decoy, eff, None
    return None, eff, None


def run(case, path, trace, cfg, first=False):
    """Experiment.run on `path`; returns ("ok", Result) or ("raise", exception). Global state of coba is put back."""
    from coba.context import CobaContext, NullLogger
    old = CobaContext.logger
    CobaContext.logger = NullLogger()
    cwd = None
    if case.get("rel") and path.endswith(name_of(case)):
        # the path is handed to run() RELATIVE to the current directory (which is put back afterwards)
        cwd = os.getcwd()
        os.chdir(path[:len(path) - len(name_of(case))] or ".")
        path = name_of(case)
    stored, args, ctx = route_of(cfg)
    xc = CobaContext.experiment
    old_ctx = [getattr(xc, x) for x in CFG_NAMES]
    LAST_RUN.clear()
    exp = None
    try:
        exp = build(case, trace, first)
        if ctx is not None:
            for x, v in zip(CFG_NAMES, ctx):
                setattr(xc, x, v)            # the PROCESS-GLOBAL defaults (put back below)
        if stored is not None:
            exp.config(*stored)              # an earlier .config() call of the script
        LAST_RUN.update(stored=stored or [None] * 3, args=args, ctx=[int(getattr(xc, x)) for x in CFG_NAMES])
        res = exp.run(path, quiet=True, **{x: v for x, v in zip(CFG_NAMES, args) if v is not None})
        return "ok", res
    except Exception as e:      # noqa: the property says the resumed run must complete
        return "raise", e
    finally:
        try:
            # what the run worked with (run() has called self.config(...) with its own arguments; the context is still in place)
            LAST_RUN["eff"] = [int(getattr(exp, x)) for x in CFG_NAMES] if exp is not None else None
        except Exception:
            LAST_RUN["eff"] = None
        for x, v in zip(CFG_NAMES, old_ctx):
            setattr(xc, x, v)
        if cwd is not None:
            os.chdir(cwd)
        CobaContext.logger = old
        CobaContext.store.pop("experiment_seed", None)


def canon_result(res):
    def rows(t):
        out = []
        for d in t.to_dicts():
            out.append(json.dumps({k: v for k, v in d.items() if "time" not in str(k)}, sort_keys=True, default=str))
        return sorted(out)
    return {"environments": rows(res.environments), "learners": rows(res.learners), "evaluators": rows(res.evaluators),
            "interactions": rows(res.interactions), "experiment": json.dumps(res.experiment, sort_keys=True, default=str)}


def read_trace(trace):
    if not os.path.exists(trace):
        return []
    with open(trace) as f:
        return sorted(tuple(int(x) for x in line.split()) for line in f if line.strip())


# ------------------------------------------------------------------ log structure
def parse_record(line):
    """bytes of one complete line -> (kind, a, b, c, rows)"""
    o = json.loads(line)
    k = o[0]
    if k == "version":
        return ("ver", 0, 0, 0, 0)
    if k == "experiment":
        return ("exp", 0, 0, 0, 0)
    if k in ("E", "L", "V"):
        return (k, int(o[1]), 0, 0, 0)
    if k == "I":
        ids = list(o[1]) + [0] * (3 - len(o[1]))
        packed = o[2].get("_packed") or {}
        rows = len(next(iter(packed.values()))) if packed else int(o[2].get("_n") or 0)
        return ("I", int(ids[0]), int(ids[1]), int(ids[2]), rows)
    raise ValueError("unknown record %r" % (o,))


def gz_members(data):
    """offsets after every complete gzip member of `data` (harness-side scan with zlib)"""
    ends, pos = [], 0
    while pos < len(data):
        d = zlib.decompressobj(31)
        try:
            d.decompress(data[pos:])
        except zlib.error:
            break
        if not d.eof:
            break
        pos = len(data) - len(d.unused_data)
        ends.append(pos)
    return ends


def content_of(data, gz):
    """decoded text content of a result file as coba's DiskSource would deliver it (bytes); None = unreadable"""
    if not gz:
        return data
    try:
        return gzip.decompress(data) if data else b""
    except Exception:
        return None


class LogShape(Exception):
    pass


class Log:
    """structure of a complete log file: record texts, byte boundaries (compressed offsets for .gz)"""

    def __init__(self, data, gz):
        self.data, self.gz = data, gz
        text = content_of(data, gz)
        if text is None or not (text == b"" or text.endswith(b"\n")):
            raise LogShape("the complete log does not end with a newline")
        self.lines = text.split(b"\n")[:-1] if text else []
        if gz:
            # DiskSink(batch=1) writes one gzip member per record and one EMPTY member when a run ends
            self.mends, self.mrecs, n, prev = [0], [0], 0, 0
            self.members = []       # (compressed bytes, payload line without its newline or None for an empty payload)
            for end in gz_members(data):
                body = gzip.decompress(data[prev:end])
                self.members.append((data[prev:end], body[:-1] if body else None))
                if body and not (body.endswith(b"\n") and body.count(b"\n") == 1):
                    raise LogShape("a gzip member of the log holds something else than one record line")
                n += 1 if body else 0
                self.mends.append(end)
                self.mrecs.append(n)
                prev = end
            if prev != len(data) or n != len(self.lines):
                raise LogShape("the .gz log is not a sequence of complete one-record members")
            self.bounds = [0] + [min(e for e, r in zip(self.mends, self.mrecs) if r == i) for i in range(1, n + 1)]
        else:
            self.bounds, off = [0], 0
            for ln in self.lines:
                off += len(ln) + 1
                self.bounds.append(off)
        self.recs = [parse_record(ln) for ln in self.lines]

    def record_bytes(self, i):
        """the bytes record i occupies in the file (its line, or its gzip member)"""
        if not self.gz:
            return self.lines[i] + b"\n"
        m = self.mends.index(self.bounds[i + 1])
        return self.data[self.mends[m - 1]:self.mends[m]]

    def resolve(self, spec):
        n = len(self.data)
        if spec[0] == "b":
            i = max(0, min(len(self.bounds) - 1, spec[1]))
            return max(0, min(n, self.bounds[i] + spec[2]))
        if spec[0] == "p":
            return max(0, min(n, spec[1] * n // 1000))
        if spec[0] in ("ls", "le", "lp") and self.lines:
            # relative to the LONGEST record: start + d / end (just after its newline or member) + d / permille of it
            i = max(range(len(self.lines)), key=lambda j: len(self.lines[j]))
            lo, hi = self.bounds[i], self.bounds[i + 1]
            k = lo + spec[1] if spec[0] == "ls" else (hi + spec[1] if spec[0] == "le" else lo + spec[1] * (hi - lo) // 1000)
            return max(0, min(n, k))
        return max(0, min(n, spec[1]))

    def all_ks(self, cuts):
        """cut specs: "all" | list of ["b",record,delta] | ["p",permille] | ["k",byte] | ["kr",first byte,last byte]"""
        n = len(self.data)
        if cuts == "all":
            return list(range(n + 1))
        ks = set()
        for s in cuts:
            if s[0] == "kr":
                ks.update(range(max(0, s[1]), min(n, s[2]) + 1))
            else:
                ks.add(self.resolve(s))
        return sorted(ks)

    def cut_class(self, k):
        """(class name, number of complete records j, tail bytes)"""
        if self.gz:
            m = max(i for i, e in enumerate(self.mends) if e <= k)
            j, tail = self.mrecs[m], self.data[self.mends[m]:k]
        else:
            j = max(i for i, b in enumerate(self.bounds) if b <= k)
            tail = self.data[self.bounds[j]:k]
        if k == 0:
            return "empty", 0, tail
        if not tail:
            return ("after-version" if j == 1 else ("complete" if j == len(self.lines) else "boundary")), j, tail
        if self.gz:
            return "torn-member", j, tail
        if j < len(self.lines) and tail == self.lines[j]:
            return "unterminated", j, tail
        return "torn", j, tail


def exc_class(e, gz):
    n = type(e).__name__
    if gz and isinstance(e, (EOFError, zlib.error, gzip.BadGzipFile, OSError)):
        return "GzipReadError"
    return n


# ------------------------------------------------------------------ which repairs does the tree contain
_FLAGS = {}
PROBE = {"envs": [{"n": 2}], "lrns": [{}], "vals": [{"nrows": 2}], "desc": "probe"}
PROBE0 = {"envs": [{"n": 0}], "lrns": [{}], "vals": [{"mode": "cb"}], "desc": "probe"}


def detect_flags():
    """[repairPlain, preambleFix, repairGz, finishedFix], decided by behaviour on four canonical inputs"""
    key = os.environ.get("COBA_REPO", "/repo")
    if key in _FLAGS:
        return _FLAGS[key]
    d = tempfile.mkdtemp(prefix="c02probe")
    try:
        out = []
        for gz in (False, True):
            ext = ".log.gz" if gz else ".log"
            full = os.path.join(d, "full" + ext)
            st, res = run(PROBE, full, None, CFG1)
            if st != "ok":      # not even an uninterrupted run works: evaluate() reports that as `full-run-raises`
                out += [False] if gz else [False, False]
                continue
            ref = canon_result(res)
            try:
                log = Log(open(full, "rb").read(), gz)
            except (LogShape, ValueError):      # the tree writes logs of another shape: reported by evaluate() as a correspondence failure
                out += [False] if gz else [False, False]
                continue
            torn = log.bounds[3] + 2
            p1 = os.path.join(d, "torn" + ext)
            open(p1, "wb").write(log.data[:torn])
            st1, res1 = run(PROBE, p1, None, CFG1)
            out.append(st1 == "ok" and canon_result(res1) == ref)
            if not gz:
                p2 = os.path.join(d, "ver" + ext)
                open(p2, "wb").write(log.data[:log.bounds[1]])
                st2, res2 = run(PROBE, p2, None, CFG1)
                out.append(st2 == "ok" and canon_result(res2)["experiment"] == ref["experiment"])
        # finished-triples repair: a recorded evaluation without rows is not evaluated again
        trace = os.path.join(d, "trace")
        p3 = os.path.join(d, "rowless.log")
        st3, _ = run(PROBE0, p3, trace, CFG1)
        if os.path.exists(trace):
            os.remove(trace)
        st4, _ = run(PROBE0, p3, trace, CFG1)
        out.append(st3 == "ok" and st4 == "ok" and read_trace(trace) == [])
        _FLAGS[key] = out
        return out
    finally:
        shutil.rmtree(d, ignore_errors=True)


# ------------------------------------------------------------------ the property
class C02(Property):
    id = "C02"
    prop_modules = ["CobaVerif.Props.C02"]
    quick_n = 250
    thorough_n = 4000
    search_n = 160
    case_timeout = 120
    workers = 8
    rule = ("experiments of 1-3 environments x 1-3 learners x 1-2 evaluators (full product or an explicit, shuffled, partial triple list; "
            "parameter texts with escapes/brackets/non-ASCII; evaluators with ragged rows, no reward column, zero rows, raising triples; real "
            "SequentialCB), result file plain or .gz, complete log cut at every record boundary +-2 bytes plus PRNG-chosen offsets (thorough: "
            "every byte offset of small logs; 7% of the cases hold one record of 65 KB-1.5 MB cut at offsets spread over it, around 4 KiB/64 KiB "
            "multiples from its start and end and just before its newline; 1.5-3% hold one HIGHLY compressible record of 1-4 MB (repeated pattern or "
            "very many periodic rows; a few KB as gzip member), cut inside the member and resumed from the complete file), resumed under a PRNG-chosen configuration (processes 1-3, maxchunksperchild, maxtasksperchunk, "
            "all/some/no environments chunk()ed in both declaration orders), result-file names of several shapes (containing '.gz' without ending in it, "
            "sub-directories, spaces, non-ASCII); 30% of the un-chunked cases cut a SPARSE log instead (version + experiment line + a PRNG-chosen subset of "
            "the records, optionally shuffled: what a killed multi-process run leaves); 30% of the cases interrupt a successful resumption again, 1-3 times, "
            "on the same path in the same process; 4-8% of the cases run the INTERRUPTED first run multi-process (one evaluation slowed down so that worker schedules "
            "reorder the records); 15% hand run() a relative path, 10% also a path whose directory is missing; Result.from_file is called on every log that is cut and on "
            "every file a resumed run leaves; every .gz cut is sent to the model as compressed bytes + the gzip members of the real file; 30% of the cases hand the configuration of the resumed run over NOT through the arguments of run() but through the process-global CobaContext.experiment, an earlier .config() call or a mix with decoy values (5 routes; the model computes the effective values); non-trivial = some cut strictly inside the log restores "
            "at least one record and leaves at least one task to run; distinct by canonical JSON of the case")
    trusted_base = [
        "file-system append semantics: a killed run leaves a byte prefix of what it would have written (the cut files are produced by truncating a complete log)",
        "zlib/gzip is not modelled; what the protocol needs is stated as the three laws of MLaws about recognising ONE complete member at the front of a byte string (complete member recognised whatever follows; a truncated member never taken for complete; no empty member). The driver's concrete scanner (table of the members of the real file) is proved to satisfy them when memberTableOK holds (reported as hyp), and the model's member scan is compared with the size the real _drop_torn_tail leaves on every .gz cut; the 4096-byte chunking of the real loop is below the model",
        "the three 'is this a gzip file' name tests are extracted by regex from sinks.py / sources.py / experiments/core.py on every run (Generated/C02GzPredicates.lean); supported shapes: '<lit>' in <name>, <name>.endswith('<lit>'); other shapes: obligation skipped and reported",
        "json text of a record is one line of printable ASCII starting with '[' (checked on every real record); json.loads rejects every proper prefix of it (checked on every tail the cuts produce); the model's scanner `balanced` is compared with json.loads through the restore outcomes",
        "re-running the same experiment produces the same record text for the same task (deterministic components: C01/C03); a raising task writes no record",
        "TransactionResult is a function of the records per id (`bodies`); Table/Result construction itself is C07/C17",
        "the n_learners/n_environments mismatch test of run() is not modelled (the re-run uses the same experiment)",
        "entry point: the file system is a PathInfo (path string, directory exists, bytes of the file if any); relative paths are resolved by the OS (the model only sees the string for the gzip test); "
        "for .gz the bytes of NEW members are produced by zlib and not by the model (compared after decompression; kept bytes and 'nothing but empty members appended' are compared on the bytes)",
        "execution configuration: the statements of Experiment.config, the three properties and the head of run() are re-extracted by ast on every run (Generated/C02Config.lean, obligation config_route_as_modelled); CobaContext.experiment is an object with three plain attributes (the .coba config file loader behind it is not modelled)",
        "sparse logs: with every task its own chunk and enough processes a killed run can leave the records of ANY subset of the tasks in ANY order after the two preamble lines (used only when no environment is chunk()ed); the theorems cover every ValidLog",
    ]
    assumptions = ["the experiment lists every triple once and is re-run unchanged", "evaluator objects are truthy",
                   "record order of a multi-process run is arbitrary: appended records are compared as multisets"]
    partial_theorems = {
        "resume_cur_partial": "the pinned code was only correct for cuts on a record boundary after the experiment line; the full theorem (resume_correct) holds for the repaired code",
        "resume_correct_committed": "code as committed in /repo (torn-tail, preamble, gz repair): hypothesis NonEmptyI is necessary (empty_rows_counterexample, finding C02-F6); "
                                    "with fixes/C02-finished-triples.diff the hypothesis is gone (resume_correct, no_reeval, resume_chain, resume_from_any_sublog, gz_resume_correct)",
        "resume_idempotent_committed": "as resume_correct_committed",
        "resume_eq_full_committed": "as resume_correct_committed", "no_reeval_committed": "as resume_correct_committed", "resume_chain_committed": "as resume_correct_committed",
    }

    # ---------------------------------------------------------------- translator part
    def pre_build(self):
        """the three name tests `is this a gzip file?` (DiskSink.__enter__, DiskSource.read, Experiment._drop_torn_tail) are
        re-extracted from the source into lean/CobaVerif/Generated/C02GzPredicates.lean; Props proves that they agree"""
        repo = os.environ.get("COBA_REPO", "/repo")

        def src(rel):
            with open(os.path.join(repo, rel), encoding="utf-8") as f:
                return f.read()

        def cond(text, pattern):
            m = re.search(pattern, text, re.S)
            return m.group(1).strip() if m else None

        def pred(c):
            if c is None:
                return None
            m = re.fullmatch(r"""(["'])(.+?)\1\s+in\s+[\w.]+""", c)
            if m:
                return "GzPred.contains " + str(list(m.group(2).encode("utf-8")))
            m = re.fullmatch(r"""[\w.]+\.endswith\(\s*(["'])(.+?)\1\s*\)""", c)
            if m:
                return "GzPred.endsWith " + str(list(m.group(2).encode("utf-8")))
            return None
        try:
            sink = cond(src("coba/pipes/sinks.py"), r"class DiskSink\b.*?def __enter__.*?\n\s*if\s+([^\n]+?):\s*\n\s*self\._file\s*=\s*gzip\.open")
            source = cond(src("coba/pipes/sources.py"), r"class DiskSource\b.*?opener\s*=\s*gzip\.open\s+if\s+(.+?)\s+else\s+open")
            repair = cond(src("coba/experiments/core.py"), r"def _drop_torn_tail\b.*?\n\s*if\s+([^\n]+?):\s*\n(?:\s*#[^\n]*\n)*\s*good\s*,\s*member\s*=")
        except OSError:
            sink = source = repair = None
        preds = [pred(sink), pred(source), pred(repair)]
        path = os.path.join(lean.LEAN_DIR, "CobaVerif", "Generated", "C02GzPredicates.lean")
        head = ("-- GENERATED by harness/props/c02.py from coba/pipes/sinks.py, coba/pipes/sources.py, coba/experiments/core.py on every run; do not edit.\n"
                "import CobaVerif.Model.C02\nnamespace Coba.Generated.C02Gz\nopen Coba.C02\n")
        if all(preds):
            body = head + "def sinkPred : GzPred := %s\ndef sourcePred : GzPred := %s\ndef repairPred : GzPred := %s\ndef extracted : Bool := true\nend Coba.Generated.C02Gz\n" % tuple(preds)
            note = "gzip name tests extracted: sink `%s`, source `%s`, torn-tail repair `%s`" % (sink, source, repair)
        else:
            dflt = "GzPred.contains [46, 103, 122]"
            body = (head + "-- extraction failed (code reshaped): sink=%r source=%r repair=%r; the side obligation gz_preds_equal is then about these defaults only\n" % (sink, source, repair)
                    + "def sinkPred : GzPred := %s\ndef sourcePred : GzPred := %s\ndef repairPred : GzPred := %s\ndef extracted : Bool := false\nend Coba.Generated.C02Gz\n" % (dflt, dflt, dflt))
            note = "gzip name tests could NOT be extracted (sink=%r source=%r repair=%r): obligation gz_preds_equal skipped; behaviour still checked through the generated file names" % (sink, source, repair)
        old = open(path, encoding="utf-8").read() if os.path.exists(path) else None
        if old != body:
            os.makedirs(os.path.dirname(path), exist_ok=True)
            with open(path, "w", encoding="utf-8") as f:
                f.write(body)
        return [note, self.pre_build_scan(repo)] + self.pre_build_p5(repo)

    def pre_build_p5(self, repo):
        """phase 5 translator steps (ast): (1) ChunkTasks._max_chunker as a small program over the statements of Model.CStmt
        -> Generated/C02MaxChunker.lean (Props: `max_chunker_as_modelled`); (2) the write loop of DiskSink and the batch size
        Experiment.run gives it -> Generated/C02SinkLoop.lean (Props: `sink_loop_as_modelled`)"""
        import ast
        u = ast.unparse
        gen = os.path.join(lean.LEAN_DIR, "CobaVerif", "Generated")
        lst = lambda xs: "[" + ", ".join(json.dumps(x, ensure_ascii=True) for x in xs) + "]"
        notes = []

        def put(name, body):
            path = os.path.join(gen, name)
            old = open(path, encoding="utf-8").read() if os.path.exists(path) else None
            if old != body:
                with open(path, "w", encoding="utf-8") as f:
                    f.write(body)

        def strip_doc(body):
            return [x for x in body if not (isinstance(x, ast.Expr) and isinstance(x.value, ast.Constant) and isinstance(x.value.value, str))]

        # (1) _max_chunker
        prog, unknown, init, call, why = [], [], "", "", None
        try:
            with open(os.path.join(repo, "coba/experiments/process.py"), encoding="utf-8") as f:
                tree = ast.parse(f.read())
            cls = next(n for n in ast.walk(tree) if isinstance(n, ast.ClassDef) and n.name == "ChunkTasks")
            fn = next(n for n in cls.body if isinstance(n, ast.FunctionDef) and n.name == "_max_chunker")
            a_it, a_max = [a.arg for a in fn.args.args][1:3]
            names = {"it": None, "batch": None}

            def simple(x):
                if isinstance(x, ast.Assign) and len(x.targets) == 1 and isinstance(x.targets[0], ast.Name) and isinstance(x.value, ast.Call):
                    t, v = x.targets[0].id, x.value
                    if u(v.func) == "iter" and len(v.args) == 1 and u(v.args[0]) == a_it and not v.keywords and names["it"] is None:
                        names["it"] = t
                        return "iterInit"
                    if u(v) == "list(islice(%s, %s))" % (names["it"] or a_it, a_max) and names["batch"] in (None, t):
                        names["batch"] = t
                        return "takeBatch"
                if isinstance(x, ast.Expr) and isinstance(x.value, ast.Yield) and x.value.value is not None and u(x.value.value) == names["batch"]:
                    return "yieldBatch"
                return None
            for x in strip_doc(fn.body):
                sm = simple(x)
                if sm:
                    prog.append(".simple .%s" % sm)
                elif isinstance(x, ast.While) and not x.orelse and names["batch"] and u(x.test) == "%s != []" % names["batch"]:
                    inner = []
                    for y in x.body:
                        sy = simple(y)
                        if sy:
                            inner.append("." + sy)
                        else:
                            unknown.append(u(y))
                    prog.append(".whileNonEmpty [%s]" % ", ".join(inner))
                else:
                    unknown.append(u(x))
            ini = next(n for n in cls.body if isinstance(n, ast.FunctionDef) and n.name == "__init__")
            init = next(u(x.value) for x in ast.walk(ini) if isinstance(x, ast.Assign) and u(x.targets[0]) == "self._max_tasks")
            cs = [c for c in ast.walk(cls) if isinstance(c, ast.Call) and u(c.func) == "self._max_chunker"]
            call = ";".join(u(c.args[1]) if len(c.args) == 2 and not c.keywords else "?" for c in cs)
        except Exception as e:
            why = repr(e)
        ok = why is None
        if not ok:
            prog, unknown, init, call = [".simple .iterInit", ".simple .takeBatch", ".whileNonEmpty [.yieldBatch, .takeBatch]"], [], "max_tasks or None", "self._max_tasks"
        put("C02MaxChunker.lean",
            "-- GENERATED by harness/props/c02.py (ast) from coba/experiments/process.py `ChunkTasks._max_chunker` on every run; do not edit.\n"
            "import CobaVerif.Model.C02\n"
            "namespace Coba.Generated.C02Chunker\nopen Coba.C02\n"
            "/-- the statements of `_max_chunker` in source order -/\n"
            "def prog : List CStmt := [%s]\n"
            "/-- statements the translator could not express (must be none) -/\n"
            "def unknown : List String := %s\n"
            "/-- what `__init__` stores as `self._max_tasks`, and what `_chunks` passes as `max_tasks` -/\n"
            "def maxTasksInit : String := %s\n"
            "def maxTasksArg : String := %s\n"
            "def extracted : Bool := %s\n"
            "end Coba.Generated.C02Chunker\n" % (", ".join(prog), lst(unknown), json.dumps(init), json.dumps(call), "true" if ok else "false"))
        notes.append(("_max_chunker: %d statements, %d not expressible, max_tasks = %r" % (len(prog), len(unknown), init)) if ok else
                     ("_max_chunker could NOT be extracted (%s): obligation max_chunker_as_modelled is about defaults only" % why))

        # (2) DiskSink.write / _get_batch / _unfinished and the batch size run() uses
        labels = ["while:self._unfinished(batch)", "batch=self._get_batch(lines)", "with-self-inside-while", "for-line-inside-with",
                  "write:(line+'\\n').encode", "flush-after-each-write", "get_batch:islice(lines,self._batch)", "get_batch:list-when-batch",
                  "unfinished:batch-is-None", "unfinished:list-of-len==self._batch", "unfinished:or"]
        shape, batch, why = [], None, None
        try:
            with open(os.path.join(repo, "coba/pipes/sinks.py"), encoding="utf-8") as f:
                tree = ast.parse(f.read())
            cls = next(n for n in ast.walk(tree) if isinstance(n, ast.ClassDef) and n.name == "DiskSink")
            fns = {n.name: n for n in cls.body if isinstance(n, ast.FunctionDef)}
            wl = [x for x in fns["write"].body if isinstance(x, ast.While)]
            if len(wl) == 1:
                w = wl[0]
                if u(w.test) == "self._unfinished(batch)" and not w.orelse:
                    shape.append(labels[0])
                if len(w.body) == 2 and u(w.body[0]) == "batch = self._get_batch(lines)":
                    shape.append(labels[1])
                if len(w.body) == 2 and isinstance(w.body[1], ast.With) and len(w.body[1].items) == 1 and u(w.body[1].items[0].context_expr) == "self":
                    shape.append(labels[2])
                    wi = w.body[1]
                    if len(wi.body) == 1 and isinstance(wi.body[0], ast.For) and u(wi.body[0].iter) == "batch" and not wi.body[0].orelse:
                        shape.append(labels[3])
                        fo = wi.body[0]
                        tv = u(fo.target)
                        if len(fo.body) == 2 and u(fo.body[0]) == "self._file.write((%s + '\\n').encode('utf-8'))" % tv:
                            shape.append(labels[4])
                        if len(fo.body) == 2 and u(fo.body[1]) == "self._file.flush()":
                            shape.append(labels[5])
            gb = [u(x) for x in strip_doc(fns["_get_batch"].body)]
            if gb and gb[0] == "batch = islice(lines, self._batch)" and gb[-1] == "return batch":
                shape.append(labels[6])
            if len(gb) == 3 and gb[1] == "if self._batch:\n    batch = list(batch)":
                shape.append(labels[7])
            uf = [u(x) for x in strip_doc(fns["_unfinished"].body)]
            if len(uf) == 3 and uf[0] == "not_started = batch is None":
                shape.append(labels[8])
            if len(uf) == 3 and uf[1] == "not_finished = isinstance(batch, list) and len(batch) == self._batch":
                shape.append(labels[9])
            if len(uf) == 3 and uf[2] == "return not_started or not_finished":
                shape.append(labels[10])
            with open(os.path.join(repo, "coba/experiments/core.py"), encoding="utf-8") as f:
                tree = ast.parse(f.read())
            runf = next(n for n in ast.walk(tree) if isinstance(n, ast.FunctionDef) and n.name == "run")
            calls = [c for c in ast.walk(runf) if isinstance(c, ast.Call) and u(c.func) == "DiskSink"]
            if len(calls) == 1:
                kw = {k.arg: k.value for k in calls[0].keywords}
                v = kw.get("batch", calls[0].args[2] if len(calls[0].args) > 2 else None)
                if v is None:
                    batch = 0
                elif isinstance(v, ast.Constant) and (v.value is None or isinstance(v.value, int)):
                    batch = int(v.value or 0)
        except Exception as e:
            why = repr(e)
        ok = why is None and batch is not None
        if not ok:
            shape, batch = labels, 1
        put("C02SinkLoop.lean",
            "-- GENERATED by harness/props/c02.py (ast) from coba/pipes/sinks.py `DiskSink` and coba/experiments/core.py `Experiment.run` on every run; do not edit.\n"
            "namespace Coba.Generated.C02Sink\n"
            "/-- `DiskSink(result_file, batch=N)` in `Experiment.run` (0 = None) -/\n"
            "def batch : Nat := %d\n"
            "/-- the statements of `write`, `_get_batch`, `_unfinished` that the model (`sinkWrite`) mirrors, as found in the source -/\n"
            "def loopShape : List String := %s\n"
            "def extracted : Bool := %s\n"
            "end Coba.Generated.C02Sink\n" % (batch, lst(shape), "true" if ok else "false"))
        notes.append(("DiskSink write loop: batch=%d, %d/%d statements as modelled" % (batch, len(shape), len(labels))) if ok else
                     ("DiskSink write loop could NOT be extracted (%s): obligation sink_loop_as_modelled is about defaults only" % why))

        # (3) phase 6: how the execution configuration reaches a run: Experiment.config, the three properties, the head of run()
        # -> Generated/C02Config.lean (Props: `config_route_as_modelled`)
        shape, why = [], None
        try:
            with open(os.path.join(repo, "coba/experiments/core.py"), encoding="utf-8") as f:
                tree = ast.parse(f.read())
            cls = next(n for n in ast.walk(tree) if isinstance(n, ast.ClassDef) and n.name == "Experiment")
            fns = [n for n in cls.body if isinstance(n, ast.FunctionDef)]
            cfgf = next(n for n in fns if n.name == "config")
            cbody = [u(x) for x in strip_doc(cfgf.body)]
            for x in CFG_NAMES:
                # unconditional, top-level, the only assignment to the field in `config`
                if cbody.count("self._%s = %s" % (x, x)) == 1 and sum(1 for y in ast.walk(cfgf) if isinstance(y, (ast.Assign, ast.AugAssign, ast.AnnAssign))
                                                                      and ("self._%s" % x) in [u(t) for t in (y.targets if isinstance(y, ast.Assign) else [y.target])]) == 1:
                    shape.append(CFG_LABELS[len(shape)] if CFG_LABELS[len(shape)].endswith("=" + x) else "?")
            for x in CFG_NAMES:
                pf = [n for n in fns if n.name == x and any(u(dc) == "property" for dc in n.decorator_list)]
                setters = [n for n in fns if n.name == x and not any(u(dc) == "property" for dc in n.decorator_list)]
                if len(pf) == 1 and not setters and [u(y) for y in strip_doc(pf[0].body)] == [
                        "return self._%s if self._%s is not None else CobaContext.experiment.%s" % (x, x, x)]:
                    shape.append("prop:" + x)
            runf = next(n for n in fns if n.name == "run")
            an = [a.arg for a in runf.args.args]
            dflt = dict(zip(an[len(an) - len(runf.args.defaults):], runf.args.defaults))
            if all(x in dflt and isinstance(dflt[x], ast.Constant) and dflt[x].value is None for x in CFG_NAMES):
                shape.append("run:defaults-None")
            rb = strip_doc(runf.body)
            rtxt = [u(x) for x in rb]
            if rtxt and rtxt[0] == "self.config(processes, maxchunksperchild, maxtasksperchunk)" and \
                    sum(1 for y in ast.walk(runf) if isinstance(y, ast.Call) and u(y.func) == "self.config") == 1:
                shape.append("run:self.config(processes,maxchunksperchild,maxtasksperchunk)")
            asg = [x for x in rb if isinstance(x, ast.Assign) and len(x.targets) == 1 and isinstance(x.targets[0], ast.Tuple)
                   and [u(e) for e in x.targets[0].elts] == ["mp", "mc", "mt"]]
            stores = [y for y in ast.walk(runf) if isinstance(y, ast.Name) and isinstance(y.ctx, ast.Store) and y.id in ("mp", "mc", "mt", "is_multiproc")]
            if len(asg) == 1 and isinstance(asg[0].value, ast.Tuple) and [u(e) for e in asg[0].value.elts] == ["self." + x for x in CFG_NAMES] \
                    and len(rb) > 1 and rb[1] is asg[0] and len(stores) == 4:
                shape.append("run:mp,mc,mt=properties")
            if rtxt.count("is_multiproc = mp > 1 or mc != 0") == 1 and len(stores) == 4:
                shape.append("run:is_multiproc=mp>1 or mc!=0")
            ct = [y for y in ast.walk(runf) if isinstance(y, ast.Call) and u(y.func) == "ChunkTasks"]
            if len(ct) == 1 and [u(a) for a in ct[0].args] == ["mt"] and not ct[0].keywords:
                shape.append("run:ChunkTasks(mt)")
            cm = [y for y in ast.walk(runf) if isinstance(y, ast.Call) and u(y.func) == "CobaMultiprocessor"]
            if len(cm) == 1 and len(cm[0].args) >= 3 and [u(a) for a in cm[0].args[1:3]] == ["mp", "mc"] and not cm[0].keywords:
                shape.append("run:CobaMultiprocessor(_,mp,mc,_)")
        except Exception as e:
            why = repr(e)
        ok = why is None
        if not ok:
            shape = list(CFG_LABELS)
        put("C02Config.lean",
            "-- GENERATED by harness/props/c02.py (ast) from coba/experiments/core.py `Experiment.config`, the properties processes / maxchunksperchild / maxtasksperchunk and the head of `Experiment.run` on every run; do not edit.\n"
            "namespace Coba.Generated.C02Config\n"
            "/-- the statements the model (`configCall`, `cfgProp`, `runCfg`, `isMultiproc`, `runOrderCfg`) mirrors, as found in the source -/\n"
            "def shape : List String := %s\n"
            "def extracted : Bool := %s\n"
            "end Coba.Generated.C02Config\n" % (lst(shape), "true" if ok else "false"))
        notes.append(("configuration route: %d/%d statements as modelled" % (len(shape), len(CFG_LABELS))) if ok else
                     ("configuration route could NOT be extracted (%s): obligation config_route_as_modelled is about defaults only" % why))
        return notes

    def pre_build_scan(self, repo):
        """phase 4 translator step (ast): read size, decompressor parameters and statement shape of the gz member scan of
        Experiment._drop_torn_tail -> lean/CobaVerif/Generated/C02ScanConsts.lean; Props proves `scan_consts_as_modelled`"""
        import ast
        labels = ["for:iter-read-sentinel-b''", "try:member.decompress(chunk)", "except:zlib.error:break", "if:member.eof",
                  "good=f.tell()-len(member.unused_data)", "f.seek(good)", "member=zlib.decompressobj", "after:f.truncate(good)"]
        read_size, wbits, shape, why = None, [], [], None
        try:
            with open(os.path.join(repo, "coba/experiments/core.py"), encoding="utf-8") as f:
                tree = ast.parse(f.read())
            fn = next(n for n in ast.walk(tree) if isinstance(n, ast.FunctionDef) and n.name == "_drop_torn_tail")
            loop = next(n for n in ast.walk(fn) if isinstance(n, ast.For))
            branch = next(n for n in ast.walk(fn) if isinstance(n, ast.If) and loop in n.body)
            u = ast.unparse
            it = loop.iter
            if (isinstance(it, ast.Call) and u(it.func) == "iter" and len(it.args) == 2 and isinstance(it.args[0], ast.Lambda)
                    and isinstance(it.args[0].body, ast.Call) and u(it.args[0].body.func) == "f.read" and len(it.args[0].body.args) == 1
                    and isinstance(it.args[0].body.args[0], ast.Constant) and isinstance(it.args[0].body.args[0].value, int)
                    and isinstance(it.args[1], ast.Constant) and it.args[1].value == b"" and u(loop.target) == "chunk"):
                read_size = it.args[0].body.args[0].value
                shape.append(labels[0])
            for c in ast.walk(branch):
                if isinstance(c, ast.Call) and u(c.func) == "zlib.decompressobj":
                    wbits.append(c.args[0].value if len(c.args) == 1 and not c.keywords and isinstance(c.args[0], ast.Constant) and isinstance(c.args[0].value, int) else -1)
            body = loop.body
            if len(body) == 2 and isinstance(body[0], ast.Try) and isinstance(body[1], ast.If):
                t, i = body
                if len(t.body) == 1 and u(t.body[0]) == "member.decompress(chunk)" and not t.orelse and not t.finalbody:
                    shape.append(labels[1])
                if len(t.handlers) == 1 and t.handlers[0].type is not None and u(t.handlers[0].type) == "zlib.error" and [type(x) for x in t.handlers[0].body] == [ast.Break]:
                    shape.append(labels[2])
                if u(i.test) == "member.eof" and not i.orelse and len(i.body) == 3:
                    shape.append(labels[3])
                    a, b, c = (u(x) for x in i.body)
                    if a == "good = f.tell() - len(member.unused_data)":
                        shape.append(labels[4])
                    if b == "f.seek(good)":
                        shape.append(labels[5])
                    if re.fullmatch(r"member = zlib\.decompressobj\(.*\)", c):
                        shape.append(labels[6])
            k = branch.body.index(loop)
            if not loop.orelse and k + 1 < len(branch.body) and u(branch.body[k + 1]) == "f.truncate(good)" and \
                    k >= 1 and re.fullmatch(r"\(?good, member\)? = \(?0, zlib\.decompressobj\(.*\)\)?", u(branch.body[k - 1])):
                shape.append(labels[7])
        except Exception as e:      # code reshaped: the obligation is void, the run is tagged
            why = repr(e)
        ok = why is None and read_size is not None
        path = os.path.join(lean.LEAN_DIR, "CobaVerif", "Generated", "C02ScanConsts.lean")
        lst = lambda xs: "[" + ", ".join(json.dumps(x, ensure_ascii=False) for x in xs) + "]"
        if not ok:
            read_size, wbits, shape = 4096, [31, 31], labels
        body = ("-- GENERATED by harness/props/c02.py (ast) from coba/experiments/core.py `Experiment._drop_torn_tail` on every run; do not edit.\n"
                "namespace Coba.Generated.C02Scan\n"
                "/-- `f.read(N)` of the member scan -/\n"
                "def readSize : Nat := %d\n"
                "/-- `zlib.decompressobj(W)`: every decompressor the loop creates (31 = gzip container, 32 KiB window) -/\n"
                "def wbits : List Int := %s\n"
                "/-- the statements of the loop that the model mirrors, as found in the source -/\n"
                "def loopShape : List String := %s\n"
                "def extracted : Bool := %s\n"
                "end Coba.Generated.C02Scan\n") % (read_size, lst(wbits), lst(shape), "true" if ok else "false")
        old = open(path, encoding="utf-8").read() if os.path.exists(path) else None
        if old != body:
            with open(path, "w", encoding="utf-8") as f:
                f.write(body)
        return ("gz member scan: read size %d, wbits %s, %d/%d loop statements as modelled" % (read_size, wbits, len(shape), len(labels))) if ok else \
            ("gz member scan could NOT be extracted (%s): obligation scan_consts_as_modelled is about defaults only" % why)

    # ---------------------------------------------------------------- generation
    def gen_exp(self, rng, small=False):
        ne = rng.choice([1, 1, 2]) if small else rng.choice([1, 2, 2, 3])
        nl = rng.choice([1, 1, 2]) if small else rng.choice([1, 2, 2, 3])
        nv = rng.choice([1, 1, 2])
        c = {"envs": [{"n": rng.choice([0, 1, 2, 3]) if rng.chance(0.15) else rng.choice([1, 2, 3]), "p": rng.below(4)} for _ in range(ne)],
             "lrns": [{"p": rng.below(3)} for _ in range(nl)],
             "vals": [({"mode": "cb"} if rng.chance(0.3) else {"mode": "rows", "style": rng.below(4), "nrows": rng.choice([0, 1, 2, 3, 3])}) for _ in range(nv)],
             "desc": rng.choice([None, "d", "a \"q\" [x] \n é"])}
        if rng.chance(0.2):
            c["empty"] = [[rng.below(ne), rng.below(nl)]]
        if rng.chance(0.15):
            c["boom"] = [[rng.below(ne), rng.below(nl)]]
        if rng.chance(0.3):
            tr = rng.shuffle([[e, l, v] for e in range(ne) for l in range(nl) for v in range(nv)])
            c["triples"] = tr[:max(1, len(tr) - rng.below(3))]
        r = rng.below(100)
        if r < 10:
            c["chunk"] = True
        elif r < 32 and ne >= 2:
            # chunk()ed and plain environments in one experiment, both declaration orders: plain ones are processed (and logged)
            # first, so the environment records do not appear in id order
            fl = [rng.chance(0.5) for _ in range(ne)]
            if all(fl) or not any(fl):
                fl[rng.below(ne)] = not fl[0]
            c["chunk"] = fl
        return c

    def gen_name(self, rng, c):
        c["name"] = rng.choice(NAMES) if rng.chance(0.4) else rng.choice(["r.log", "r.log", "r.log", "r.log.gz"])
        c["gz"] = ".gz" in c["name"]

    def gen_cfg(self, rng, allow_mp):
        if allow_mp:
            return rng.choice([{"processes": 2}, {"processes": 3, "maxtasksperchunk": 2}, {"processes": 1, "maxchunksperchild": 2},
                               {"processes": 2, "maxchunksperchild": 1, "maxtasksperchunk": 1}])
        return {"processes": 1, "maxtasksperchunk": rng.choice([0, 0, 1, 2, 5])}

    def long_cuts(self, rng, nrec, extra):
        """offsets spread over the longest record: near its start, around 4 KiB / 64 KiB multiples from its start (= from the
        END of the cut file, which ends inside it), around the same distances before its end, just before its newline"""
        cuts = [["ls", d] for d in (0, 1, 2, 40, 4095, 4096, 4097, 65535, 65536, 65537, 65600, 131071, 131072, 131073)]
        cuts += [["le", d] for d in (0, -1, -2, -3, -4096, -4097, -65535, -65536, -65537, -65538)]
        cuts += [["lp", rng.below(1001)] for _ in range(extra)]
        cuts += [["ls", 65536 * rng.randint(1, 20) + rng.randint(-2, 2)] for _ in range(extra)]
        cuts += [["b", 1, 0], ["b", nrec, 0], ["b", nrec, -1], ["p", rng.below(1001)]]
        return cuts

    def gen_long(self, rng, tier):
        """family with one very long record (an I record whose rows hold long strings): > 64 KiB, sometimes > 1 MiB"""
        ne, nl = rng.choice([1, 2]), rng.choice([1, 2])
        c = {"envs": [{"n": 1, "p": rng.below(3)} for _ in range(ne)], "lrns": [{"p": rng.below(3)} for _ in range(nl)],
             "vals": [{"mode": "rows", "style": rng.below(2), "nrows": 2}], "desc": rng.choice([None, "long"]),
             "cfg0": CFG1, "cfg": {"processes": 1, "maxtasksperchunk": rng.choice([0, 0, 1])}}
        c["name"] = rng.choice(["r.log", "r.log", "r.log", "r.log.gz", "r.gz.bak", "a.gz.d/r.log", "r s \u00e9.log"])
        c["gz"] = ".gz" in c["name"]
        huge = rng.chance(0.05 if tier == "quick" else 0.12)
        size = rng.randint(1100000, 1500000) if huge else rng.choice([66000, 70000, 90000, 131500, 200000, rng.randint(65000, 300000)])
        if huge and c["gz"] and (tier != "quick" or rng.chance(0.3)):
            size *= 2       # the text compresses about 2:1; the gzip member itself shall exceed 1 MiB
        c["big"] = {"pairs": [[rng.below(ne), rng.below(nl)]], "size": size, "rows": rng.choice([1, 1, 2, 3])}
        nrec = 2 + ne + nl + 1 + ne * nl
        c["cuts"] = self.long_cuts(rng, nrec, 2 if huge else 5)
        if huge:
            c["cuts"] = rng.sample(c["cuts"], 8)      # a resume of a multi-megabyte log costs ~1 s (implementation + model)
        return c

    def gen_compressible(self, rng, tier):
        """family with one long, HIGHLY compressible record (repeated pattern / very many periodic rows; 1-4 MB of text, a few KB as
        a gzip member: > 16:1, so that 4096 compressed bytes inflate to far more than 64 KiB), mostly .gz, cut inside the member and
        NOT cut at all (a second run on the complete file)"""
        ne, nl = rng.choice([1, 2]), rng.choice([1, 2])
        c = {"envs": [{"n": 1, "p": rng.below(3)} for _ in range(ne)], "lrns": [{"p": rng.below(3)} for _ in range(nl)],
             "vals": [{"mode": "rows", "style": rng.below(2), "nrows": 2}], "desc": None, "cfg0": CFG1, "cfg": CFG1}
        c["name"] = rng.choice(["r.log.gz", "r.log.gz", "r.gz.bak", "a.gz.d/r.log", "r.log"])
        c["gz"] = ".gz" in c["name"]
        size = rng.randint(1000000, 2000000) if (tier == "quick" or rng.chance(0.6)) else rng.randint(2000000, 4000000)
        c["big"] = {"pairs": [[rng.below(ne), rng.below(nl)]], "size": size, "rows": rng.choice([1, 2]), "kind": rng.choice(["rep", "rep", "rows"])}
        if c["big"]["kind"] == "rows":
            c["big"]["size"] = min(size, 1200000)       # 60000 periodic rows; building and packing the rows dominates the cost
        nrec = 2 + ne + nl + 1 + ne * nl
        c["cuts"] = [["b", 99, 0], ["p", 1000], ["lp", rng.below(1001)], ["lp", rng.below(1001)], ["ls", 1], ["le", -1], ["le", 0],
                     ["b", rng.below(nrec + 1), 0]]
        if rng.chance(0.4):
            c["chain"] = {"p": rng.below(1001), "d": 0, "links": 1, "cfg": CFG1}
        return c

    def gen_chunking(self, rng, tier):
        """phase 5 family: chunk()ed environments resumed with maxtasksperchunk = k in 2..5, cut at EVERY record boundary, so
        that the number of tasks that remain in a Chunk group runs through every residue modulo k (k dividing it and not)"""
        ne = rng.choice([1, 1, 2])
        c = {"envs": [{"n": rng.choice([1, 2]), "p": rng.below(3)} for _ in range(ne)], "lrns": [{"p": i} for i in range(rng.choice([2, 3, 3]))],
             "vals": [{"mode": "rows", "style": rng.below(2), "nrows": 1 + rng.below(2)} for _ in range(rng.choice([1, 2]))], "desc": None,
             "chunk": True, "gz": rng.chance(0.3)}
        k = rng.choice([2, 3, 3, 4, 5])
        c["cfg0"] = rng.choice([CFG1, {"processes": 1, "maxchunksperchild": 0, "maxtasksperchunk": k}])
        c["cfg"] = {"processes": 1, "maxchunksperchild": 0, "maxtasksperchunk": k}
        nrec = 2 + len(c["envs"]) + len(c["lrns"]) + len(c["vals"]) + len(triples_of(c))
        c["cuts"] = [["b", i, 0] for i in range(nrec + 1)] + [["b", rng.below(nrec + 1), rng.choice([-1, 1, 2])] for _ in range(3)]
        if rng.chance(0.4):
            c["chain"] = {"p": rng.below(1001), "d": 0, "links": rng.choice([1, 2]), "cfg": {"processes": 1, "maxtasksperchunk": rng.choice([2, 3, 4])}}
        return c

    def add_route(self, rng, c, p):
        """phase 6: with probability p the configuration of the resumed run (and of the further resumptions) does not come through the
        arguments of run() but through CobaContext.experiment (process-global), an earlier .config() call, or a mix with decoys"""
        r = rng.fork("route")
        if r.chance(p):
            c["cfg"] = dict(c.get("cfg", CFG1), via=r.choice(VIAS), decoy=r.choice([1, 1, 2, 3]))
            if c.get("chain"):
                c["chain"] = dict(c["chain"], cfg=dict(c["chain"].get("cfg", CFG1), via=r.choice(VIAS + ["args"]), decoy=r.choice([1, 2])))
        return c

    def generate(self, rng, tier):
        return self.add_route(rng, self.generate_p5(rng, tier), 0.3)

    def generate_p5(self, rng, tier):
        rng = rng.fork("c02")
        if rng.chance(0.05):
            return self.gen_chunking(rng, tier)
        if rng.chance(0.015 if tier == "quick" else 0.03):
            return self.gen_compressible(rng, tier)       # the per-case streams of core.prng overlap (shifted by one output) for neighbouring case numbers
        if rng.chance(0.055 if tier == "quick" else 0.07):
            return self.gen_long(rng, tier)
        c = self.gen_exp(rng)
        self.gen_name(rng, c)
        mp = rng.chance(0.025 if tier == "quick" else 0.05)
        c["cfg0"] = CFG1
        c["cfg"] = self.gen_cfg(rng, mp)
        nrec = 2 + len(c["envs"]) + len(c["lrns"]) + len(c["vals"]) + len(triples_of(c))
        cuts = []
        if mp:
            for _ in range(1 if (tier == "quick" and rng.chance(0.6)) else 2):
                cuts.append(rng.choice([["b", rng.below(nrec + 1), rng.choice([-1, 0, 0, 1])], ["p", rng.below(1001)]]))
        else:
            for i in range(nrec + 1):
                if rng.chance(0.6):
                    for dlt in (-2, -1, 0, 1, 2):
                        cuts.append(["b", i, dlt])
            cuts += [["p", rng.below(1001)] for _ in range(rng.choice([2, 6, 12]))]
            cuts += [["b", 0, 0], ["b", 1, 0], ["b", nrec, 0], ["b", nrec, -1]]
        c["cuts"] = cuts
        if not c.get("chunk") and rng.chance(0.3):
            c["sparse"] = {"seed": rng.below(10 ** 6), "keep": rng.choice([300, 500, 700, 850]), "shuffle": rng.chance(0.5)}
        elif not mp and rng.chance(0.04 if tier == "quick" else 0.08):
            # the INTERRUPTED (first) run is multi-process: the record order of the file that is cut comes from real worker schedules
            c["cfg0"] = self.gen_cfg(rng, True)
            c["slow"] = [[rng.below(len(c["envs"])), rng.below(len(c["lrns"]))] for _ in range(rng.choice([1, 1, 2]))]   # only in the first run
        if rng.chance(0.15):
            c["rel"] = True
        if rng.chance(0.1):
            c["nodir"] = True
        if not mp and rng.chance(0.3):
            c["chain"] = {"p": rng.below(1001), "d": rng.choice([-1, 0, 0, 1, 2]), "links": rng.choice([1, 2, 2, 3]), "cfg": self.gen_cfg(rng, False)}
        return c

    def search(self, rng, tier):
        return self.add_route(rng, self.search_p5(rng, tier), 0.3)

    def search_p5(self, rng, tier):
        rng = rng.fork("c02s")
        if rng.chance(0.25):
            return self.gen_long(rng, tier)
        if rng.chance(0.15):
            return self.gen_chunking(rng, tier)
        c = self.gen_exp(rng, small=True)
        self.gen_name(rng, c)
        c["cfg0"], c["cfg"] = CFG1, self.gen_cfg(rng, False)
        c["cuts"] = ALL
        if not c.get("chunk") and rng.chance(0.3):
            c["sparse"] = {"seed": rng.below(10 ** 6), "keep": rng.choice([300, 500, 700]), "shuffle": rng.chance(0.5)}
        if rng.chance(0.4):
            c["chain"] = {"p": rng.below(1001), "d": rng.choice([-1, 0, 1]), "links": rng.choice([1, 2, 3]), "cfg": CFG1}
        return c

    def corpus(self):
        base = {"envs": [{"n": 2}], "lrns": [{}], "vals": [{"nrows": 2}], "desc": None, "cfg0": CFG1, "cfg": CFG1}
        cs = []
        # the Lean witnesses (Props/C02.lean, `Ex`): torn tail, unterminated record, empty file, version line only, torn gz member
        for gz in (False, True):
            cs.append(dict(base, gz=gz, cuts=[["b", 3, 1], ["b", 3, -1], ["b", 0, 0], ["b", 1, 0], ["b", 0, 5], ["b", 1, -1], ["b", 6, 0], ["b", 6, -1]]))
        # empty_rows_counterexample: real SequentialCB on an environment without interactions, resumed from the complete log
        cs.append(dict(base, envs=[{"n": 0}, {"n": 2}], vals=[{"mode": "cb"}], gz=False, cuts=[["b", 99, 0], ["b", 5, 0], ["b", 6, 2]]))
        cs.append(dict(base, envs=[{"n": 2, "p": 3}, {"n": 1, "p": 1}], lrns=[{"p": 1}, {"p": 2}], vals=[{"style": 2}, {"mode": "cb"}], gz=False, cuts=ALL,
                       desc="a \"q\" [x] \n é"))
        cs.append(dict(base, envs=[{"n": 2, "p": 2}], lrns=[{"p": 1}, {}], gz=True, cuts=ALL))
        cs.append(dict(base, envs=[{"n": 1}, {"n": 2}], lrns=[{}, {}], triples=[[1, 1, 0], [0, 0, 0], [1, 0, 0]], boom=[[1, 0]], gz=False, cuts=ALL,
                       chain={"p": 500, "d": 1, "cfg": CFG1}))
        # one very long record (torn deep inside, around 64 KiB from its start = from the end of the cut file, just before its newline)
        lc = [["ls", d] for d in (1, 4096, 65535, 65536, 65537, 70000)] + [["le", d] for d in (0, -1, -2, -65536, -65537)] + [["lp", 500]]
        for gz in (False, True):
            cs.append(dict(base, envs=[{"n": 1}, {"n": 1}], gz=gz, big={"pairs": [[0, 0]], "size": 140000, "rows": 2}, cuts=lc))
            cs.append(dict(base, gz=gz, big={"pairs": [[0, 0]], "size": 70000, "rows": 1}, cuts=lc))
        cs.append(dict(base, gz=False, big={"pairs": [[0, 0]], "size": 1150000, "rows": 3}, cuts=[["ls", 65537], ["lp", 700], ["le", -1], ["le", -65537]]))
        # a long record that compresses far better than 16:1 in a .gz log: second run on the COMPLETE file, and cuts inside the member
        cs.append(dict(base, envs=[{"n": 1}, {"n": 1}], name="r.log.gz", gz=True, big={"pairs": [[0, 0]], "size": 1100000, "rows": 1, "kind": "rep"},
                       cuts=[["b", 99, 0], ["lp", 500], ["le", -1], ["le", 0]]))
        cs.append(dict(base, name="r.gz.bak", gz=True, big={"pairs": [[0, 0]], "size": 700000, "rows": 1, "kind": "rows"}, cuts=[["b", 99, 0], ["le", 0], ["ls", 1]]))
        # result-file names that CONTAIN '.gz' without ending in it (coba's sink/source treat them as gzip), directories, spaces, non-ASCII
        for nm in NAMES:
            cs.append(dict(base, name=nm, gz=".gz" in nm, cuts=[["b", 3, 0], ["b", 3, 1], ["b", 4, -1], ["b", 5, 0], ["b", 0, 0], ["b", 1, 0]],
                           chain={"p": 300, "d": 0, "links": 2, "cfg": CFG1}))
        # entry glue: relative paths, a path whose directory is missing; first (interrupted) run multi-process
        for nm in ("r.log", "a.gz.d/r.log", "r.gz.bak"):
            cs.append(dict(base, name=nm, gz=".gz" in nm, rel=True, nodir=True, cuts=[["b", 0, 0], ["b", 1, 0], ["b", 4, 2], ["b", 99, 0]]))
        cs.append(dict(base, envs=[{"n": 1}, {"n": 2}, {"n": 1}], lrns=[{}, {"p": 1}], cfg0={"processes": 3}, slow=[[0, 0], [1, 1]], gz=False, cuts=ALL))
        cs.append(dict(base, envs=[{"n": 1}, {"n": 2}], lrns=[{}, {"p": 1}], cfg0={"processes": 2, "maxchunksperchild": 1}, slow=[[0, 0]], name="r.log.gz", gz=True,
                       cuts=[["b", i, d] for i in range(3, 11) for d in (0, 1)], chain={"p": 500, "d": 0, "links": 2, "cfg": CFG1}))
        # chunk()ed environment declared before a plain one and the other way round: E records out of id order
        for fl in ([True, False], [False, True], [True, False, True]):
            cs.append(dict(base, envs=[{"n": 1}] * len(fl), lrns=[{}, {}], chunk=fl, gz=False, cuts=ALL))
        # killed multi-process run: only some tasks finished, in arrival order; then three interruptions of the same file
        for seed in (1, 2, 3):
            cs.append(dict(base, envs=[{"n": 1}, {"n": 2}, {"n": 1}], lrns=[{}, {"p": 1}], gz=(seed == 2), sparse={"seed": seed, "keep": 500, "shuffle": seed != 1},
                           cuts=ALL, chain={"p": 100 * seed, "d": 1, "links": 3, "cfg": CFG1}))
        cs.append(dict(base, envs=[{"n": 1}, {"n": 2}], lrns=[{}, {}], gz=False, cfg={"processes": 2}, cuts=[["b", 4, 3], ["b", 5, 0]]))
        cs.append(dict(base, envs=[{"n": 1}, {"n": 2}], chunk=True, gz=False, cfg={"processes": 1, "maxtasksperchunk": 1}, cuts=[["b", 4, 3], ["b", 5, 0], ["b", 3, -1]]))
        # phase 5: maxtasksperchunk k against every number of remaining tasks (cut at every record boundary): one chunk()ed environment
        # with 3 learners x 2 evaluators = a Chunk group of 7 tasks (k = 2, 3, 4 divide none of 7; the cuts leave 6, 5, ... 0)
        # phase 5: multi-process resumption of chunk()ed environments (chunks of several records: per-chunk order must survive)
        cs.append(dict(base, envs=[{"n": 1}, {"n": 2}], lrns=[{}, {"p": 1}], vals=[{"nrows": 1}, {"nrows": 2}], chunk=True, gz=False,
                       cfg={"processes": 2, "maxchunksperchild": 0, "maxtasksperchunk": 3}, cuts=[["b", 4, 0], ["b", 9, 1]]))
        # phase 6: the configuration of the resumed run reaches run() through CobaContext.experiment (process-global), an earlier
        # .config() call, or a mix with decoys: chunk()ed environment, effective maxtasksperchunk 2 (a decoy of 3 or 5 would give another
        # record order and other chunks); the further resumptions of the same path use another route
        for i, via in enumerate(VIAS):
            cs.append(dict(base, lrns=[{}, {"p": 1}, {"p": 2}], vals=[{"nrows": 1}, {"nrows": 2}], chunk=True, gz=(i == 1),
                           cfg={"processes": 1, "maxchunksperchild": 0, "maxtasksperchunk": 2 if i != 3 else 0, "via": via, "decoy": 1 + 2 * (i % 2)},
                           cuts=[["b", j, 0] for j in (0, 1, 2, 5, 7, 8, 10, 99)] + [["b", 6, 2], ["b", 9, -1]],
                           chain={"p": 400, "d": 0, "links": 2, "cfg": {"processes": 1, "maxtasksperchunk": 3, "via": VIAS[(i + 2) % len(VIAS)], "decoy": 2}}))
        cs.append(dict(base, envs=[{"n": 1}, {"n": 2}], lrns=[{}, {"p": 1}], chunk=[True, False], gz=False,
                       cfg={"processes": 2, "maxchunksperchild": 0, "maxtasksperchunk": 2, "via": "context"}, cuts=[["b", 4, 0], ["b", 7, 1]]))
        for k in (2, 3, 4):
            cs.append(dict(base, lrns=[{}, {"p": 1}, {"p": 2}], vals=[{"nrows": 1}, {"nrows": 2}], chunk=True, gz=(k == 3),
                           cfg0={"processes": 1, "maxchunksperchild": 0, "maxtasksperchunk": k if k != 2 else 0},
                           cfg={"processes": 1, "maxchunksperchild": 0, "maxtasksperchunk": k}, cuts=[["b", i, 0] for i in range(15)] + [["b", 9, 1], ["b", 12, -1]]))
        return cs

    def exhaustive(self, tier):
        base = {"desc": "x", "cfg0": CFG1, "cfg": CFG1, "cuts": ALL}
        out = []
        for gz in (False, True):
            out.append(dict(base, envs=[{"n": 1}], lrns=[{}], vals=[{"nrows": 1}], gz=gz))
            out.append(dict(base, envs=[{"n": 2, "p": 1}, {"n": 1, "p": 3}], lrns=[{"p": 1}, {"p": 2}], vals=[{"style": 1}], gz=gz))
            out.append(dict(base, envs=[{"n": 0}, {"n": 2, "p": 2}], lrns=[{}], vals=[{"mode": "cb"}, {"style": 3, "nrows": 2}], gz=gz, cfg={"processes": 1, "maxtasksperchunk": 1}))
            out.append(dict(base, envs=[{"n": 1}, {"n": 2}], lrns=[{}, {"p": 1}], vals=[{"style": 2}], triples=[[1, 1, 0], [0, 1, 0], [1, 0, 0]], boom=[[0, 1]], gz=gz,
                            chain={"p": 400, "d": 1, "cfg": CFG1}))
        return out

    # ---------------------------------------------------------------- evaluation
    def evaluate(self, case, driver):
        d = tempfile.mkdtemp(prefix="c02")
        try:
            return self._evaluate(case, driver, d)
        finally:
            shutil.rmtree(d, ignore_errors=True)

    def _evaluate(self, case, driver, d):
        fails, tags = [], []
        gz = is_gz(case)
        fmt = "gz" if gz else "plain"
        ext = None
        trace = os.path.join(d, "trace")
        tags.append("name:" + name_of(case).replace("r s \u00e9", "unicode"))
        flags = detect_flags()
        tags.append("fmt:" + fmt)
        if isinstance(case.get("chunk"), list):
            tags.append("chunk:mixed:" + "".join("c" if x else "p" for x in case["chunk"]))
        elif case.get("chunk"):
            tags.append("chunk:all")
        if case.get("big"):
            tags.append("long-record:>1MiB" if case["big"]["size"] > (1 << 20) else "long-record:>64KiB")
            if case["big"].get("kind", "hex") != "hex":
                tags.append("long-record:compressible:" + fmt)
        tags.append("flags:" + "".join(str(int(x)) for x in flags))
        c0 = case.get("cfg0", CFG1)
        if c0.get("processes", 1) > 1 or c0.get("maxchunksperchild", 0):
            tags.append("cfg0:multiprocess")
        if case.get("rel"):
            tags.append("entry:relative-path")

        # the uninterrupted run
        full_path = file_at(d, "full", case)
        st, res = run(case, full_path, trace, case.get("cfg0", CFG1), first=True)
        if st != "ok":
            return {"fails": [F("B", "the uninterrupted run raised %r" % (res,), "full-run-raises")], "nontrivial": False, "tags": tags}
        ref = canon_result(res)
        try:
            log = Log(open(full_path, "rb").read(), gz)
        except (LogShape, ValueError) as e:
            return {"fails": [F("A", "the log of the uninterrupted run has an unexpected shape: %s" % e, "A:log-shape")], "nontrivial": False, "tags": tags}
        for ln in log.lines:
            if not (ln[:1] == b"[" and all(32 <= b < 127 for b in ln)):
                fails.append(F("A", "a record text is not one line of printable ASCII starting with '[': %r" % ln[:80], "A:record-text"))
        keys = [r[:4] for r in log.recs]
        if len(set(keys)) != len(keys):
            dup = sorted(set(k for k in keys if keys.count(k) > 1))
            fails.append(F("A", "the uninterrupted run recorded an id twice: %s" % dup, "A:full-run-duplicate-id"))
        em, lm, vm = ids_of(case)
        inv = ({v: k for k, v in em.items()}, {v: k for k, v in lm.items()}, {v: k for k, v in vm.items()})

        table, tindex = [], {}

        def entry(ln, rec):
            if ln not in tindex:
                tindex[ln] = len(table)
                table.append([rec[0], rec[1], rec[2], rec[3], rec[4], len(table), list(ln)])
            return tindex[ln]
        full_idx = [entry(ln, r) for ln, r in zip(log.lines, log.recs)]
        is_magic = log.data[:2] == b"\x1f\x8b"
        if "cfg0:multiprocess" in tags:
            # does the schedule of the workers show in the record order? (reference: the same run in one process)
            ref_path = file_at(d, "ref1", case)
            st1, _ = run(case, ref_path, None, CFG1)
            if st1 == "ok":
                try:
                    ref_lines = Log(open(ref_path, "rb").read(), gz).lines
                    tags.append("first-run-order:" + ("as-single-process" if ref_lines == log.lines else "differs-from-single-process"))
                except (LogShape, ValueError):
                    pass
        sp = case.get("sparse")
        if sp and not case.get("chunk") and len(log.lines) > 2:
            # what a multi-process run (every task its own chunk) leaves when it is killed: version + experiment line and the
            # records of the tasks that happened to finish, in arrival order
            r = Rng(sp["seed"], "sparse")
            keep = [i for i in range(2, len(log.lines)) if r.below(1000) < sp["keep"]]
            if sp.get("shuffle"):
                keep = r.shuffle(keep)
            try:
                log = Log(b"".join(log.record_bytes(i) for i in [0, 1] + keep), gz)
            except (LogShape, ValueError) as e:
                return {"fails": [F("H", "sparse log construction failed: %s" % e, "harness-error")], "nontrivial": False, "tags": tags}
            full_idx = [entry(ln, r) for ln, r in zip(log.lines, log.recs)]
            tags.append("sparse-log" + (":shuffled" if sp.get("shuffle") else ""))
            ids = [r[1] for r in log.recs if r[0] == "E"]
            if ids and sorted(ids) != list(range(len(ids))):
                tags.append("restored-ids:not-dense")

        ks = log.all_ks(case["cuts"])
        nontrivial = False
        steps = []      # (stage label, Log being cut, k, cfg)
        for k in ks:
            steps.append(("cut", log, full_idx, k, case.get("cfg", CFG1)))
        observed = []
        model_reqs = []
        for n, (label, lg, lidx, k, cfg) in enumerate(steps):
            ob = self.one_cut(case, d, n, lg, lidx, k, cfg, ref, trace, fmt, ext, inv, entry, label, fails, tags)
            observed.append(ob)
            if 0 < k < len(lg.data) and ob["restored_n"] > 0 and ob["ntasks"] > 0:
                nontrivial = True
        # further interruptions ON THE SAME PATH in this process: the file the resumption produced is cut (the resumed run is
        # killed) and resumed again, up to 3 times
        ch = case.get("chain")
        good = [o for o in observed if o["status"] == "ok" and o.get("result_equal") and o["final_readable"] and not o["bfail"]]
        if ch and good:
            cur = good[(ch["p"] * len(good)) // 1001]     # only a resumption that itself went right is interrupted again
            for link in range(max(1, int(ch.get("links", 1)))):
                try:
                    lg2 = Log(cur["final_data"], gz)
                except (LogShape, ValueError):
                    break
                if not lg2.lines:
                    break
                lidx2 = [entry(ln, r) for ln, r in zip(lg2.lines, lg2.recs)]
                j0 = min(cur["j"], len(lg2.lines))
                pl = (ch["p"] * 7 + 389 * link) % 1001
                j2 = min(len(lg2.lines), j0 + (pl % (len(lg2.lines) - j0 + 1)))
                k2 = max(lg2.bounds[j0], min(len(lg2.data), lg2.bounds[j2] + ch["d"]))   # the killed run never removes what it restored
                tags.append("chain:%d" % (link + 1))
                ob2 = self.one_cut(case, d, len(steps), lg2, lidx2, k2, ch.get("cfg", CFG1), ref, trace, fmt, ext, inv, entry, "chain", fails, tags,
                                   path=cur["path"])
                steps.append(("chain", lg2, lidx2, k2, ch.get("cfg", CFG1)))
                observed.append(ob2)
                if not (ob2["status"] == "ok" and ob2.get("result_equal") and ob2["final_readable"] and not ob2["bfail"]):
                    break
                cur = ob2

        # (A)/(C): the Lean model on the same cuts
        model = None
        if driver is not None:
            ver_i = next((i for i, t in enumerate(table) if t[0] == "ver"), None)
            exp_i = next((i for i, t in enumerate(table) if t[0] == "exp"), None)
            if ver_i is None or exp_i is None:
                fails.append(F("A", "the uninterrupted log has no version/experiment line", "A:preamble-missing"))
            else:
                model = []
                groups = {}
                for n, st_ in enumerate(steps):
                    groups.setdefault(id(st_[1]), []).append(n)
                nodir_done = []
                shape_probe_done = []
                mtbl, mindex = [], {}       # .gz: the gzip members of the real files, [table index of the payload line or -1, bytes]
                name_bytes = list((name_of(case) if case.get("rel") else full_path).encode("utf-8"))
                for _, ns in groups.items():
                    lg, lidx = steps[ns[0]][1], steps[ns[0]][2]
                    req = {"tbl": table, "ver": ver_i, "exp": exp_i, "triples": triples_of(case), "flags": [bool(x) for x in flags],
                           "log": lidx, "gz": gz, "cuts": [steps[n][3] for n in ns], "name": name_bytes}
                    if gz:
                        mlog = []
                        for mb, line in lg.members:
                            if mb not in mindex:
                                mindex[mb] = len(mtbl)
                                mtbl.append([tindex[line] if line is not None else -1, list(mb)])
                            mlog.append(mindex[mb])
                        req["mtbl"], req["mlog"] = mtbl, mlog
                        # phase 4: the chunked scan as written is evaluated for the extracted read size (files up to chunk_cap
                        # bytes) and, on small files, for read sizes 1, 3 and 61 as well (cost is quadratic in the member size)
                        req["chunk_cap"] = 100000
                        req["chunk_sizes"] = ([1, 3] if len(lg.data) <= 4000 else []) + ([61] if len(lg.data) <= 40000 else [])
                    # phase 4: the shape test of run(): counts of the real experiment line, counts of the experiment given
                    try:
                        meta = json.loads(bytes(table[exp_i][6]).decode("utf-8"))[1]
                        req["exp_shape"] = [int(meta.get("n_learners", -1)), int(meta.get("n_environments", -1))]
                    except Exception:
                        req["exp_shape"] = [-1, -1]
                    # phase 4: ChunkTasks/ProcessTasks order: which environment ids sit behind a Chunk pipe (each chunk()ed environment
                    # has its own), and maxtasksperchunk of the configuration these cuts are resumed with
                    chf = case.get("chunk")
                    em_ = ids_of(case)[0]
                    chunk_of = [-1] * len(em_)
                    for eo, eid in em_.items():
                        if chf is True or (isinstance(chf, (list, tuple)) and eo < len(chf) and chf[eo]):
                            chunk_of[eid] = eid
                    req["chunk_of"] = chunk_of
                    req["max_tasks"] = int(steps[ns[0]][4].get("maxtasksperchunk", 0) or 0)
                    # phase 6: the route the configuration took in the REAL run of the first step of this group (stored by .config(),
                    # arguments of run(), CobaContext.experiment as read just before the call); the model computes the effective values
                    rt = observed[ns[0]].get("route") or {}
                    if rt.get("args") is not None and rt.get("ctx") is not None:
                        req["route"] = {"stored": [-1 if v is None else int(v) for v in rt["stored"]],
                                        "args": [-1 if v is None else int(v) for v in rt["args"]], "ctx": [int(v) for v in rt["ctx"]]}
                    tr0 = build(case, trace)._triples
                    real_given = [len(set([l for _, l, _ in tr0])), len(set([e for e, _, _ in tr0]))]
                    alt = self.alt_case(case, len(lg.data))
                    tr1 = build(alt, trace)._triples
                    req["alt_given"] = [len(set([l for _, l, _ in tr1])), len(set([e for e, _, _ in tr1]))]
                    # phase 5: read windows for the windowed repair (C), (n, max_tasks) pairs for the extracted `_max_chunker` program:
                    # the number of tasks the longest/shortest cut leaves, +-1, against max_tasks 0..4 and the configured one
                    req["win_sizes"] = [1, 7, 64, 4096] if len(lg.data) <= 20000 else [4096, 65536]
                    n_all = len(triples_of(case)) + len(em_) + len(ids_of(case)[1]) + len(ids_of(case)[2])
                    ms_ = sorted(set([0, 1, 2, 3, 4, req["max_tasks"]]))
                    req["chunker_probe"] = [[n_, m_] for n_ in sorted(set([0, 1, max(0, n_all - 1), n_all, n_all + 1, len(lg.lines) % 7 + 2])) for m_ in ms_]
                    ans = driver.ask(req)
                    self.p5_checks(case, req, ans, fails, tags)
                    if ans.get("eff_cfg") is not None and not ans.get("config_extracted", True):
                        tags.append("config-route:not-extracted")
                    if ans.get("eff_cfg") is not None:
                        for n in ns:
                            rt_n = observed[n].get("route") or {}
                            if rt_n.get("eff") is None or [rt_n.get("stored"), rt_n.get("args"), rt_n.get("ctx")] != [rt.get("stored"), rt.get("args"), rt.get("ctx")]:
                                continue
                            via_ = steps[n][4].get("via", "args")
                            want_ = steps[n][4]
                            want_ = [want_.get("processes", 1), want_.get("maxchunksperchild", 0), want_.get("maxtasksperchunk", 0)]
                            if list(ans["eff_cfg"][:3]) != list(rt_n["eff"]):
                                fails.append(F("A", "configuration the run works with (processes, maxchunksperchild, maxtasksperchunk): implementation %s, model %s; "
                                               ".config() stored %s, run() arguments %s, CobaContext.experiment %s" % (
                                                   rt_n["eff"], ans["eff_cfg"][:3], rt_n["stored"], rt_n["args"], rt_n["ctx"]), "A:effective-config:" + via_))
                            elif list(rt_n["eff"]) != want_:
                                fails.append(F("H", "route %s does not produce the configuration wanted %s (got %s)" % (via_, want_, rt_n["eff"]), "harness-error"))
                            tags.append("cfg-eff:" + ("multiprocess" if ans["eff_cfg"][3] else "maxtasksperchunk=%s" % ("0" if not ans["eff_cfg"][2] else "k")) + ":" + via_)
                            break
                    if "given_shape" in ans and list(ans["given_shape"]) != real_given:
                        fails.append(F("A", "n_learners/n_environments of the experiment given: implementation %s, model %s" % (real_given, ans["given_shape"]), "A:given-shape"))
                    if "given_shape" in ans and req["exp_shape"] != real_given:
                        fails.append(F("A", "the experiment line of the uninterrupted log carries n_learners/n_environments %s, the experiment has %s" % (req["exp_shape"], real_given), "A:shape-line"))
                    if not ans.get("scan_extracted", True):
                        tags.append("scan-consts:not-extracted")
                    if "given_shape" in ans and not shape_probe_done:
                        # a genuinely different experiment (one more learner) on one of the cut files: the shape test fires exactly
                        # when the model says so; when it fires nothing is evaluated
                        elig = [(n, mo) for n, mo in zip(ns, ans["cuts"])
                                if steps[n][0] == "cut" and "mismatch_alt" in mo and len(observed[n]["cut"]) < 300000]
                        if elig:
                            # alternately the longest and the first eligible cut (a cut before the experiment line passes the test)
                            n, mo = max(elig, key=lambda t: len(observed[t[0]]["cut"])) if (len(lg.data) + len(elig)) % 3 else elig[0]
                            shape_probe_done.append(1)
                            self.shape_probe(case, alt, d, observed[n]["cut"], mo, fails, tags)
                    dec = ans.get("gz_decision")
                    if dec is not None:
                        if not (dec[0] == dec[1] == dec[2]):
                            fails.append(F("A", "sink, source and torn-tail repair (as extracted from the source) disagree whether %r is a gzip file: %s"
                                           % (name_of(case), dec), "A:gz-decision-inconsistent"))
                        if bool(dec[0]) != is_magic:
                            fails.append(F("A", "result file %r: the sink wrote %s, the extracted sink predicate says gzip=%s"
                                           % (name_of(case), "gzip" if is_magic else "plain text", dec[0]), "A:gz-decision-sink"))
                    if not ans.get("gz_extracted", True):
                        tags.append("gz-predicates:not-extracted")
                    if "from_file" in ans and len(lg.data) < 300000:
                        # Result.from_file on the (uncut) log that is being cut
                        pf = file_at(d, "ff%d" % ns[0], case)
                        with open(pf, "wb") as f:
                            f.write(lg.data)
                        try:
                            from coba.results import Result
                            Result.from_file(pf)
                            real_ff = "ok"
                        except Exception:
                            real_ff = "raise"
                        if (ans["from_file"] == "raise") != (real_ff == "raise") or ans["from_file"] == "other":
                            fails.append(F("A", "Result.from_file on the complete log: implementation %s, model %s" % (real_ff, ans["from_file"]), "A:from-file-log"))
                    if case.get("nodir") and "nodir_raises" in ans and not nodir_done:
                        nodir_done.append(1)
                        pm = os.path.join(d, "missing-dir", name_of(case))
                        stn, _ = run(dict(case, rel=False), pm, None, CFG1)
                        tags.append("entry:directory-missing")
                        if (stn == "raise") != bool(ans["nodir_raises"]):
                            fails.append(F("A", "run() on a path whose directory does not exist: implementation %s, model %s" % (
                                stn, "raise" if ans["nodir_raises"] else "ok"), "A:nodir"))
                    for n, mo in zip(ns, ans["cuts"]):
                        self.compare(case, steps[n], observed[n], mo, ans["hyp"], flags, table, fails, tags)
                        model.append({"k": steps[n][3], "model": {kk: vv for kk, vv in mo.items() if kk != "spec"}, "hyp": ans["hyp"]})
        impl = [{"k": s[3], "stage": s[0], "class": o["class"], "status": o["status"], "evaluated": o["evaluated"]}
                for s, o in zip(steps, observed)][:12]
        return {"fails": fails, "nontrivial": nontrivial, "tags": sorted(set(tags)), "impl": impl, "model": (model or [])[:12]}

    def one_cut(self, case, d, n, lg, lidx, k, cfg, ref, trace, fmt, ext, inv, entry, label, fails, tags, path=None):
        gz = fmt == "gz"
        nb0 = len([f for f in fails if f["kind"] == "B"])
        cls, j, tail = lg.cut_class(k)
        tags.append("cut:%s:%s" % (fmt, cls))
        if len(tail) > (1 << 20):
            tags.append("cut:%s:tail>1MiB" % fmt)
        elif len(tail) > (1 << 16):
            tags.append("cut:%s:tail>64KiB" % fmt)
        elif len(tail) > 4096:
            tags.append("cut:%s:tail>4KiB" % fmt)
        if cfg.get("processes", 1) > 1 or cfg.get("maxchunksperchild", 0):
            tags.append("cfg:multiprocess")
        elif cfg.get("maxtasksperchunk", 0):
            tags.append("cfg:maxtasksperchunk")
        path = path or file_at(d, "c%d" % n, case)
        cut = lg.data[:k]
        with open(path, "wb") as f:
            f.write(cut)
        if os.path.exists(trace):
            os.remove(trace)
        good = None
        if gz and detect_flags()[2]:
            # the real member scan alone: `_drop_torn_tail` on a copy of the cut file, observable = the size it leaves
            try:
                from coba.experiments import Experiment
                pp = file_at(d, "probe", case)
                with open(pp, "wb") as f:
                    f.write(cut)
                Experiment._drop_torn_tail(pp)
                good = os.path.getsize(pp)
            except Exception:
                good = None
        where = "result file %r: %s cut at byte %d of %d (%s, %d complete records%s) resumed with %s" % (
            name_of(case), fmt, k, len(lg.data), cls, j, ", further interruption of the same file" if label == "chain" else "", json.dumps(cfg, sort_keys=True))
        if not gz and tail and cls == "torn":
            try:
                json.loads(tail)
                fails.append(F("A", "a proper prefix of a record text is valid JSON: %r" % tail[:80], "A:torn-prefix-decodes"))
            except ValueError:
                pass
        ff_cut = None
        if not gz and len(cut) < 300000:
            # phase 4: Result.from_file on the cut file itself, without resuming (readable or raises)
            try:
                from coba.results import Result
                Result.from_file(path)
                ff_cut = True
            except Exception:
                ff_cut = False
        st, res = run(case, path, trace, cfg)
        last = dict(LAST_RUN)
        if cfg.get("via"):
            tags.append("cfg-route:" + cfg["via"])
        final = open(path, "rb").read()
        evaluated = read_trace(trace)
        if st == "ok" and len(final) < 300000:
            # entry glue: Result.from_file on the file the run leaves is the Result the run returned
            try:
                from coba.results import Result
                again = canon_result(Result.from_file(path))
                if again != canon_result(res):
                    fails.append(F("A", "Result.from_file on the resumed file differs from the Result run() returned: " + where, "A:from-file-differs"))
            except Exception as e:
                fails.append(F("A", "Result.from_file on the resumed file raised %r although run() returned: %s" % (e, where), "A:from-file-raises"))
        ob = {"route": last, "path": path, "ff_cut": ff_cut, "good": good, "class": cls, "status": st, "evaluated": [list(t) for t in evaluated], "final_data": final, "j": j, "cut": cut,
              "restored_n": j, "ntasks": 0, "final_readable": False, "kept_records": j}
        recorded = set()      # object triples with an I record among the complete lines of the cut file
        recorded_rows = {}
        for r in lg.recs[:j]:
            if r[0] == "I":
                t = (inv[0].get(r[1]), inv[1].get(r[2]), inv[2].get(r[3]))
                recorded.add(t)
                recorded_rows[t] = r[4]
        # (B1) the resumed run completes
        if st == "raise":
            ob["exc"] = exc_class(res, gz)
            ob["stage"] = "restore" if final == cut else "final"
            fails.append(F("B", "Experiment.run on a result file left by a killed run raised %s(%s): %s" % (type(res).__name__, str(res)[:80], where),
                           "resume-raises:%s:%s:%s" % (fmt, cls, ob["exc"])))
        else:
            # (B2) the final Result equals the uninterrupted one
            got = canon_result(res)
            diff = [t for t in ("experiment", "environments", "learners", "evaluators", "interactions") if got[t] != ref[t]]
            ob["result_equal"] = not diff
            if diff:
                fails.append(F("B", "the resumed run's Result differs from the uninterrupted run's in %s: %s; got %s expected %s" % (
                    diff, where, str(got[diff[0]])[:150], str(ref[diff[0]])[:150]), "result-differs:%s:%s:%s" % (fmt, cls, "+".join(diff))))
        # (B3) nothing recorded is evaluated again
        for t in evaluated:
            if t in recorded:
                kind = "rows0" if recorded_rows[t] == 0 else "rows+"
                fails.append(F("B", "triple (env %d, learner %d, evaluator %d) has an I record among the complete lines of the file and was evaluated again: %s" % (t + (where,)),
                               "reevaluated:" + kind))
        # (B4) no I id twice in the final file; the file stays a sequence of complete lines
        text = content_of(final, gz)
        if text is not None:
            lines = text.split(b"\n")
            ids, rows_of = [], {}
            ok_lines = True
            for ln in lines:
                if not ln.strip():
                    continue
                try:
                    r = parse_record(ln)
                except Exception:
                    ok_lines = False
                    continue
                if r[0] == "I":
                    ids.append(r[1:4])
                    rows_of[r[1:4]] = r[4]
            ob["final_readable"] = ok_lines and (text == b"" or text.endswith(b"\n"))
            for t in sorted(set(i for i in ids if ids.count(i) > 1)):
                kind = "rows0" if rows_of[t] == 0 else "rows+"
                fails.append(F("B", "I record %s occurs %d times in the file after resuming: %s" % (list(t), ids.count(t), where), "duplicate-I:" + kind))
        ob["ntasks"] = len(evaluated)
        ob["text"] = text
        ob["bfail"] = len([f for f in fails if f["kind"] == "B"]) > nb0
        return ob

    def p5_checks(self, case, req, ans, fails, tags):
        """phase 5: the extracted `_max_chunker` program (run by the Lean driver) against the real method on plain lists"""
        if not ans.get("chunker_extracted", True):
            tags.append("max-chunker:not-extracted")
        if not ans.get("sink_extracted", True):
            tags.append("sink-loop:not-extracted")
        probe = ans.get("chunker_probe")
        if probe:
            from coba.experiments.process import ChunkTasks
            for ent in probe:
                if ent is None:
                    continue
                n_, m_, lens, same = ent
                real = [len(b) for b in ChunkTasks(m_)._max_chunker(list(range(n_)), m_ or None)]
                if m_ >= 1 and n_ % m_ != 0:
                    tags.append("max-chunker:max_tasks-does-not-divide")
                if real != list(lens):
                    fails.append(F("A", "_max_chunker(%d tasks, max_tasks=%d): implementation yields batches of %s, the extracted program (model) %s" % (n_, m_, real, lens),
                                   "A:max-chunker:" + ("uneven" if m_ and n_ % m_ else "even")))
                if not same:
                    fails.append(F("C", "runChunker of the extracted program differs from the model's batches on (%d tasks, max_tasks=%d)" % (n_, m_), "C:max-chunker-prog"))

    def alt_case(self, case, salt):
        """a genuinely different experiment: one learner more, or (every other time, when there are two) one learner less;
        phase 5: also one environment more / less and one evaluator more (the test counts learners and environments only)"""
        nl = len(case["lrns"])
        tr = case.get("triples")
        mode = salt % 6
        ne, nv = len(case["envs"]), len(case["vals"])
        chf = case.get("chunk")
        if mode == 3 and ne >= 2 and (tr is None or (any(t[0] == ne - 1 for t in tr) and any(t[0] != ne - 1 for t in tr))):
            alt = dict(case, envs=list(case["envs"])[:-1], rel=False)
            if tr is not None:
                alt["triples"] = [list(t) for t in tr if t[0] != ne - 1]
            if isinstance(chf, (list, tuple)):
                alt["chunk"] = list(chf)[:ne - 1]
            for key in ("empty", "boom"):
                if case.get(key):
                    alt[key] = [p_ for p_ in case[key] if p_[0] != ne - 1]
            alt["_alt"] = "one environment less"
            return alt
        if mode in (2, 3):
            alt = dict(case, envs=list(case["envs"]) + [{"n": 2}], rel=False)
            if tr is not None:
                alt["triples"] = [list(t) for t in tr] + [[ne, tr[0][1], tr[0][2]]]
            if isinstance(chf, (list, tuple)):
                alt["chunk"] = list(chf) + [False] * (ne + 1 - len(chf))
            alt["_alt"] = "one environment more"
            return alt
        if mode == 4:
            alt = dict(case, vals=list(case["vals"]) + [{"nrows": 2}], rel=False)
            if tr is not None:
                alt["triples"] = [list(t) for t in tr] + [[tr[0][0], tr[0][1], nv]]
            alt["_alt"] = "one evaluator more"
            return alt
        if nl >= 2 and salt % 2 == 1 and (tr is None or any(t[1] != nl - 1 for t in tr)) and \
                (tr is None or len(set(t[1] for t in tr)) != len(set(t[1] for t in tr if t[1] != nl - 1))):
            alt = dict(case, lrns=list(case["lrns"])[:-1], rel=False)
            if tr is not None:
                alt["triples"] = [list(t) for t in tr if t[1] != nl - 1]
            for key in ("empty", "boom"):
                if case.get(key):
                    alt[key] = [p_ for p_ in case[key] if p_[1] != nl - 1]
            alt["_alt"] = "one learner less"
            return alt
        alt = dict(case, lrns=list(case["lrns"]) + [{"p": 0}], rel=False)
        if tr is not None:
            alt["triples"] = [list(t) for t in tr] + [[tr[0][0], nl, tr[0][2]]]
        alt["_alt"] = "one learner more"
        return alt

    def shape_probe(self, case, alt, d, cut, mo, fails, tags):
        pa = file_at(d, "alt", case)
        ta = os.path.join(d, "alt.trace")
        with open(pa, "wb") as f:
            f.write(cut)
        if os.path.exists(ta):
            os.remove(ta)
        st, _ = run(alt, pa, ta, CFG1)
        if st != "ok":
            return
        aborted = not read_trace(ta)
        tags.append("shape-test:%s:%s" % (alt["_alt"].replace(" ", "-"), "fires" if mo["mismatch_alt"] else "passes"))
        if aborted != bool(mo["mismatch_alt"]):
            fails.append(F("A", "an experiment with %s run on the cut log (%d bytes): implementation %s, model %s" % (
                alt["_alt"], len(cut), "evaluates nothing (shape test fired)" if aborted else "evaluates", "shape test fires" if mo["mismatch_alt"] else "shape test passes"),
                "A:shape-test:" + ("missed" if mo["mismatch_alt"] else "spurious")))

    def compare(self, case, step, ob, mo, hyp, flags, table, fails, tags):
        """(A) model vs implementation on one cut, (C) model vs spec"""
        label, lg, lidx, k, cfg = step
        gz = lg.gz
        where = "cut at byte %d (%s)" % (k, ob["class"])
        sigc = ob["class"]
        m_stage = "ok"
        if mo["restore"] == "raise":
            m_stage = "restore"
        elif mo["final"] == "raise":
            m_stage = "final"
        i_stage = "ok" if ob["status"] == "ok" else ob.get("stage", "restore")
        if gz and i_stage != "ok" and m_stage != "ok":
            i_stage = m_stage       # for .gz the stage is not observable from the bytes alone
        if m_stage != i_stage:
            fails.append(F("A", "%s: implementation %s, model %s" % (where, i_stage, m_stage), "A:outcome:" + sigc))
            return
        if gz and ob.get("good") is not None and "good" in mo and mo["good"] != ob["good"]:
            fails.append(F("A", "%s: _drop_torn_tail leaves %d bytes of the .gz file, the model's member scan %d" % (where, ob["good"], mo["good"]),
                           "A:gz-member-scan:" + sigc))
        if gz and ob.get("good") is not None:
            for c_, g_ in mo.get("good_chunked", []):
                tags.append("chunk-scan:c=%d" % c_)
                if g_ != ob["good"]:
                    fails.append(F("A", "%s: _drop_torn_tail leaves %d bytes of the .gz file, the scan loop as written (model, read size %d) %d"
                                   % (where, ob["good"], c_, g_), "A:gz-chunk-scan:" + sigc))
        if not gz and ob.get("ff_cut") is not None and "from_file_cut" in mo:
            tags.append("from-file-on-cut:" + ("readable" if ob["ff_cut"] else "raises"))
            if bool(mo["from_file_cut"]) != ob["ff_cut"]:
                fails.append(F("A", "%s: Result.from_file on the cut file (no resuming): implementation %s, model %s" % (
                    where, "readable" if ob["ff_cut"] else "raises", "readable" if mo["from_file_cut"] else "raises"), "A:from-file-cut:" + sigc))
        if not gz and ob.get("ff_cut") is not None and "from_file_cut_u" in mo:
            # phase 5: the reader as it is (universal newlines, `decodeAllU`) on the same bytes; (C) with `universal_newlines_irrelevant`
            tags.append("decodeAllU:" + ("readable" if mo["from_file_cut_u"] else "raises"))
            if bool(mo["from_file_cut_u"]) != ob["ff_cut"]:
                fails.append(F("A", "%s: Result.from_file on the cut file: implementation %s, model with universal newlines (decodeAllU) %s" % (
                    where, "readable" if ob["ff_cut"] else "raises", "readable" if mo["from_file_cut_u"] else "raises"), "A:from-file-cut-univ:" + sigc))
            if hyp.get("no_cr") and not mo.get("univ_same", True):
                fails.append(F("C", "%s: no record text holds a raw CR, yet decodeAllU differs from decodeAll (universal_newlines_irrelevant)" % where, "C:universal-newlines"))
        for W_, same_, hyp_ in mo.get("win_same", []):
            tags.append("window:%s:%s" % ("reaches-newline" if hyp_ else "shorter-than-tail", "same" if same_ else "differs"))
            if hyp_ and not same_:
                fails.append(F("C", "%s: the repair restricted to the last %d bytes differs although the window holds a newline (drop_torn_tail_window_independent)" % (where, W_),
                               "C:window-independent"))
        if mo.get("mismatch"):
            fails.append(F("A", "%s: the model's n_learners/n_environments test fires on a log of the same experiment" % where, "A:shape-test-own-log:" + sigc))
        if not gz and "n_complete" in mo:
            want = ob["j"] + (1 if ob["class"] == "unterminated" else 0)
            if mo["n_complete"] != want:
                fails.append(F("A", "%s: the cut file holds %d complete records, the model's nCompleteB says %d" % (where, want, mo["n_complete"]), "A:n-complete:" + sigc))
        if mo["restore"] == "raise":
            return
        if gz and ob["status"] == "ok" and "good" in mo:
            # the compressed bytes the repair keeps stay untouched; what the run adds after them are complete members; when the
            # model appends no record (idempotence on a complete log) they decompress to nothing
            keep = ob["cut"][:mo["good"]]
            fin = ob["final_data"]
            added = content_of(fin[len(keep):], True) if fin[:len(keep)] == keep else None
            if added is None:
                fails.append(F("A", "%s: the resumed run did not keep the %d bytes of complete gzip members / appended unreadable bytes" % (where, mo["good"]), "A:gz-kept-bytes:" + sigc))
            elif not mo["appended"] and added != b"":
                fails.append(F("A", "%s: the model appends nothing, the run appended members holding %r" % (where, added[:60]), "A:gz-idempotent:" + sigc))
            if added is not None and "sink_shape" in mo and not mo.get("mismatch") and len(fin) - len(keep) < 300000:
                # phase 5: one gzip member per appended record and one empty member at the end (`gz_member_per_record`): the number
                # of lines in every member the run added = the model of DiskSink.write with the batch size extracted from run()
                rest_, shape_, prev_ = fin[len(keep):], [], 0
                for end_ in gz_members(rest_):
                    shape_.append(gzip.decompress(rest_[prev_:end_]).count(b"\n"))
                    prev_ = end_
                tags.append("sink-members:" + ("none-but-empty" if sum(shape_) == 0 else "records+empty"))
                if shape_ != list(mo["sink_shape"]):
                    fails.append(F("A", "%s: records per gzip member the resumed run added: implementation %s, model (DiskSink.write, batch=1) %s" % (
                        where, shape_[:12], list(mo["sink_shape"])[:12]), "A:gz-member-per-record:" + sigc))
        if not gz and ob["status"] == "ok" and ob["class"] == "complete" and not mo["appended"] and ob["final_data"] != ob["cut"]:
            fails.append(F("A", "%s: a second run on the complete plain log changed the file (model: byte-identical)" % where, "A:idempotent-bytes"))
        # tasks evaluated
        em, lm, vm = ids_of(case)
        m_eval = sorted((t[1], t[2], t[3]) for t in mo["tasks"] if t[0] == "I")
        i_eval = sorted((em[t[0]], lm[t[1]], vm[t[2]]) for t in map(tuple, ob["evaluated"]))
        if m_eval != i_eval:
            fails.append(F("A", "%s: triples evaluated by the resumed run: implementation %s, model %s" % (where, i_eval, m_eval), "A:tasks:" + sigc))
        # bytes kept and records appended
        text = ob["text"]
        cut_text = content_of(ob["cut"], gz) if not gz else b"".join(ln + b"\n" for ln in lg.lines[:ob["j"]])
        kept = mo["kept"]
        if text is None:
            fails.append(F("A", "%s: the file after resuming can not be read, model says it can" % where, "A:final-unreadable:" + sigc))
            return
        if kept == len(cut_text) + 1:
            file1 = cut_text + b"\n"
        else:
            file1 = cut_text[:kept]
        if text[:len(file1)] != file1:
            fails.append(F("A", "%s: the resumed run did not keep the first %d bytes of the file the way the model does" % (where, kept), "A:kept:" + sigc))
            return
        rest = text[len(file1):]
        i_lines = sorted(rest.split(b"\n")[:-1]) if rest else []
        m_lines = sorted(bytes(table[i][6]) for i in mo["appended"])
        if (rest and not rest.endswith(b"\n")) or i_lines != m_lines:
            fails.append(F("A", "%s: records appended by the resumed run differ: implementation %s, model %s" % (
                where, [x[:40] for x in i_lines][:8], [x[:40] for x in m_lines][:8]), "A:appended:" + sigc))
        elif "appended_ordered" in mo and cfg.get("processes", 1) == 1 and not cfg.get("maxchunksperchild", 0):
            # phase 4: single process: the ORDER of the appended records is the ChunkTasks/ProcessTasks order of the model
            i_seq = rest.split(b"\n")[:-1] if rest else []
            m_seq = [bytes(table[i][6]) for i in mo["appended_ordered"]]
            mt_ = int(cfg.get("maxtasksperchunk", 0) or 0)
            if mt_ >= 1 and "chunk_lens" in mo:
                big_ = [c_ for c_ in mo["chunk_lens"] if c_ > 1 or mt_ == 1]
                if any(0 < c_ < mt_ for c_ in mo["chunk_lens"]) and any(c_ == mt_ for c_ in mo["chunk_lens"]) and mt_ > 1:
                    tags.append("chunking:remaining-tasks-not-multiple-of-max_tasks")
                elif big_:
                    tags.append("chunking:max_tasks-batches")
                if not mo.get("chunker_prog_same", True):
                    fails.append(F("C", "%s: the extracted _max_chunker program differs from the model's batches on the remaining tasks" % where, "C:max-chunker-prog"))
            if len(m_seq) > 1:
                tags.append("run-order:" + ("as-maketasks" if m_seq == [bytes(table[i][6]) for i in mo["appended"]] else "differs-from-maketasks"))
            if i_seq != m_seq:
                fails.append(F("A", "%s: ORDER of the records appended by the single-process resumed run: implementation %s, model (ChunkTasks/ProcessTasks order) %s" % (
                    where, [x[:24] for x in i_seq][:10], [x[:24] for x in m_seq][:10]), "A:appended-order:" + sigc))
        if not ((rest and not rest.endswith(b"\n")) or i_lines != m_lines) and "chunk_seqs" in mo and \
                (cfg.get("processes", 1) > 1 or cfg.get("maxchunksperchild", 0)):
            # phase 5 (`multiprocess_order`): whatever the schedule, the records of one chunk reach the file in ProcessTasks order
            i_seq = rest.split(b"\n")[:-1] if rest else []
            nontriv = False
            for cs_ in mo["chunk_seqs"]:
                want = [bytes(table[i][6]) for i in cs_]
                nontriv = nontriv or len(want) > 1
                it_ = iter(i_seq)
                if not all(any(x == y for y in it_) for x in want):
                    fails.append(F("A", "%s: multi-process resumed run: the records of one chunk %s are not a subsequence of the appended records %s" % (
                        where, [x[:24] for x in want][:8], [x[:24] for x in i_seq][:12]), "A:mp-chunk-fifo:" + sigc))
                    break
            tags.append("mp-order:chunk-fifo:" + ("chunks-of-several-records" if nontriv else "one-record-chunks"))
            if "appended_ordered" in mo and len(i_seq) > 1:
                tags.append("mp-order:" + ("as-single-process" if i_seq == [bytes(table[i][6]) for i in mo["appended_ordered"]] else "differs-from-single-process"))
        if ob["status"] == "ok" and "result_equal" in ob and bool(mo["result_equal"]) != bool(ob["result_equal"]):
            fails.append(F("A", "%s: final Result equals the uninterrupted one: implementation %s, model %s" % (where, ob["result_equal"], mo["result_equal"]),
                           "A:result-equal:" + sigc))
        # (C) the theorems' promise, evaluated on the model's own outcome
        hyp_ok = hyp["world_ok"] and hyp["valid_log"] and (flags[3] or hyp["nonempty_i"])
        if gz:
            hyp_ok = hyp_ok and hyp.get("member_table_ok", True) and hyp.get("payload_log", True)
            if not hyp.get("member_table_ok", True):
                fails.append(F("A", "the gzip members of the real file are not prefix-free / one is empty (memberTableOK fails)", "A:member-table-not-ok"))
        if all(flags[:3]) and hyp_ok:
            bad = [kk for kk, vv in mo["spec"].items() if not vv]
            if mo["final"] != "ok" or bad:
                fails.append(F("C", "%s: the model violates the spec although the theorems' hypotheses hold: %s" % (where, bad or "final read raises"), "C:spec"))
        if not hyp["world_ok"]:
            fails.append(F("A", "the record table of the run does not satisfy tableWorldOK (record texts not balanced / not distinct / newline inside)", "A:table-not-ok"))

    # ---------------------------------------------------------------- shrinking and reporting
    def shrink(self, case):
        cuts = case["cuts"]
        if case.get("chain"):
            yield {k: v for k, v in case.items() if k != "chain"}
        if cuts != "all" and len(cuts) == 1 and cuts[0][0] == "kr":
            lo, hi = cuts[0][1], cuts[0][2]
            if lo >= hi:
                yield dict(case, cuts=[["k", lo]])
            else:
                mid = (lo + hi) // 2
                pad = "x" * (3 * max(0, (mid - lo + 1).bit_length() - 1))
                yield dict(case, cuts=[["kr", lo, mid, pad]])
                yield dict(case, cuts=[["kr", mid + 1, hi, pad]])
                if hi - lo > 64:
                    return      # narrow the (expensive) byte range first, then shrink the rest of the case
        if cuts != "all" and len(cuts) > 1:
            for c in cuts:
                yield dict(case, cuts=[c])
            yield dict(case, cuts=cuts[:len(cuts) // 2])
            yield dict(case, cuts=cuts[len(cuts) // 2:])
        if case.get("cfg") != CFG1:
            yield dict(case, cfg=CFG1)
        if case.get("name") and case["name"] not in ("r.log", "r.log.gz"):
            yield dict(case, name="r.log.gz" if ".gz" in case["name"] else "r.log")
        if case.get("sparse"):
            yield {k: v for k, v in case.items() if k != "sparse"}
            if case["sparse"].get("shuffle"):
                yield dict(case, sparse=dict(case["sparse"], shuffle=False))
        if case.get("chain") and case["chain"].get("links", 1) > 1:
            yield dict(case, chain=dict(case["chain"], links=case["chain"]["links"] - 1))
        if case.get("big"):
            b = case["big"]
            if b.get("rows", 1) > 1:
                yield dict(case, big=dict(b, rows=1))
            for sz in (66000, 140000, 600000):
                if b["size"] > sz:
                    yield dict(case, big=dict(b, size=sz))
        for key in ("chunk", "empty", "boom", "triples", "big"):
            if case.get(key):
                yield {k: v for k, v in case.items() if k != key}
        if case.get("desc") is not None:
            yield dict(case, desc=None)
        if case.get("triples") is None:
            for key in ("envs", "lrns", "vals"):
                if len(case[key]) > 1:
                    c = dict(case)
                    c[key] = case[key][:-1]
                    n = len(c[key])
                    if key == "envs" and isinstance(c.get("chunk"), list):
                        c["chunk"] = c["chunk"][:n]
                    pos = {"envs": 0, "lrns": 1}.get(key)
                    for kk in ("empty", "boom"):
                        if c.get(kk) and pos is not None:
                            c[kk] = [p for p in c[kk] if p[pos] < n]
                    yield c
        for key in ("envs", "lrns"):
            for i, o in enumerate(case[key]):
                if o.get("p"):
                    c = dict(case)
                    c[key] = case[key][:i] + [dict(o, p=0)] + case[key][i + 1:]
                    yield c
        for i, o in enumerate(case["vals"]):
            if o.get("mode") == "cb" or o.get("style"):
                c = dict(case)
                c["vals"] = case["vals"][:i] + [{"mode": "rows", "style": 0, "nrows": o.get("nrows", 2)}] + case["vals"][i + 1:]
                yield c

    def snippet(self, case):
        return ("# plain reproduction: runs the experiment once, cuts the complete log, resumes from every cut\n"
                "import sys, os, json, tempfile\n"
                "sys.path[:0] = [os.environ.get('COBA_REPO', '/repo'), %r]\n"
                "from props.c02 import build, Log\n"
                "from coba.context import CobaContext, NullLogger\n"
                "CobaContext.logger = NullLogger()\n"
                "case = json.loads(%r)\n"
                "from props.c02 import file_at, is_gz\n"
                "d = tempfile.mkdtemp(); full = file_at(d, 'full', case)\n"
                "ref = build(case, None).run(full, quiet=True, processes=1)\n"
                "log = Log(open(full, 'rb').read(), is_gz(case))     # case['sparse'] / case['chain'] are not replayed by this snippet\n"
                "ks = log.all_ks(case['cuts'])\n"
                "for k in ks:\n"
                "    p = file_at(d, 'c%%d' %% k, case); open(p, 'wb').write(log.data[:k])\n"
                "    try:\n"
                "        # (a route cfg['via'] through CobaContext.experiment / .config() is replayed by the complete monitor below, here the values are passed as arguments)\n"
                "        r = build(case, None).run(p, quiet=True, **{a: v for a, v in case.get('cfg', {}).items() if a not in ('via', 'decoy')})\n"
                "        same = all(list(a.to_dicts()) == list(b.to_dicts()) for a, b in zip((r.environments, r.learners, r.evaluators, r.interactions), (ref.environments, ref.learners, ref.evaluators, ref.interactions))) and r.experiment == ref.experiment\n"
                "        print(k, log.cut_class(k)[0], 'same Result' if same else 'DIFFERENT Result', 'I ids:', sorted(l[:14] for l in open(p, 'rb').read().split(b'\\n') if l.startswith(b'[\"I\"')) if not is_gz(case) else '')\n"
                "    except Exception as e:\n"
                "        print(k, log.cut_class(k)[0], 'RAISES', type(e).__name__, e)\n"
                "# the complete monitor (also replays case['sparse'] = log of a killed multi-process run, and case['chain'] = further\n"
                "# interruptions of the same path in this process):\n"
                "from props.c02 import PROPERTY\n"
                "for f in PROPERTY.evaluate(case, None)['fails']: print(f['kind'], f['sig'], f['what'][:300])\n"
                % (os.path.join(lean.VERIF, "harness"), json.dumps(case)))


PROPERTY = C02()
