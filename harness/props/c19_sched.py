"""Baton-passing scheduler for C19: real Python threads, only the thread holding the baton runs.

A worker thread gives the baton back at every *yield point* (`Sched.yp()`); the controller (the
thread that called `run`) then picks the next thread.  Everything a thread does between two yield
points is atomic with respect to the other workers.  Events are appended to `Sched.events` by the
instrumentation as `(thread, event)` in the order they really happened.

Termination: a thread that has just executed a failed lock guard ("spin") is not scheduled again
until some other thread has executed a non-spin event (its retry could not succeed earlier: spin
steps do not change the shared state).  When every live thread is in that situation the run is a
hang.  A step limit and a wall-clock limit bound every run.
"""
import threading
import time as _time


class Kill(BaseException):
    """raised inside worker threads when the run is aborted (unwinds the code under test)"""


class Sched:
    def __init__(self, n, chooser, max_steps=4000, wall=20.0, step_wall=15.0):
        self.n = n
        self.chooser = chooser            # f(cands:list[int], last:int|None) -> int
        self.max_steps = max_steps
        self.wall = wall
        self.step_wall = step_wall
        self.go = [threading.Semaphore(0) for _ in range(n)]
        self.ctl = threading.Semaphore(0)
        self.done = [False] * n
        self.started = [False] * n
        self.spun = set()                 # threads whose last event was a spin since the last non-spin event
        self.blocked = {}                 # tid -> predicate telling whether it can continue
        self.events = []
        self.killing = False
        self.status = "ok"               # ok | hang | step-limit | wall | stuck-thread
        self.steps = 0
        self.ids = {}                     # real thread ident -> tid
        self.errors = [None] * n          # exception that escaped a worker body
        self.last = None
        self.on_stop = None               # called with the scheduler when the run stops, before live threads are unwound

    # ---- worker side
    def me(self):
        return self.ids.get(threading.get_ident())

    def yp(self):
        """yield point: hand the baton back and wait for it"""
        tid = self.me()
        if tid is None:
            return                         # not one of ours (controller inspecting state)
        if self.killing:
            raise Kill()
        self.ctl.release()
        self.go[tid].acquire()
        if self.killing:
            raise Kill()

    def wait_until(self, pred):
        """block (in scheduler terms) until pred() holds"""
        tid = self.me()
        while not pred():
            self.blocked[tid] = pred
            self.yp()
        self.blocked.pop(tid, None)

    def log(self, ev):
        tid = self.me()
        if self.killing or tid is None:
            return
        self.events.append((tid, ev))
        if ev[0] == "spin":
            self.spun.add(tid)
        elif ev[0] not in ("noop",):
            self.spun.clear()

    def relabel_last_spin(self, ev):
        """the calling thread's failed lock guard turned out to be a refusal (the code raised instead of sleeping):
        replace its spin event, which must be the very last event, and treat it as an effective step"""
        tid = self.me()
        if self.events and self.events[-1] == (tid, ("spin",)):
            self.events[-1] = (tid, ev)
            self.spun.clear()
            return True
        return False

    def _body(self, tid, fn):
        self.ids[threading.get_ident()] = tid
        self.go[tid].acquire()
        try:
            if not self.killing:
                fn(tid)
        except Kill:
            pass
        except BaseException as e:       # noqa: the harness' own bodies catch what they expect
            self.errors[tid] = e
        finally:
            self.done[tid] = True
            self.ctl.release()

    # ---- controller side
    def run(self, fns):
        ths = [threading.Thread(target=self._body, args=(i, f), daemon=True) for i, f in enumerate(fns)]
        for t in ths:
            t.start()
        t0 = _time.time()
        while True:
            live = [i for i in range(self.n) if not self.done[i]]
            if not live:
                break
            cands = [i for i in live if i not in self.spun and (i not in self.blocked or self.blocked[i]())]
            if not cands:
                self.status = "hang"
                break
            if self.steps >= self.max_steps:
                self.status = "step-limit"
                break
            if _time.time() - t0 > self.wall:
                self.status = "wall"
                break
            t = self.chooser(cands, self.last)
            self.last = t
            self.steps += 1
            self.go[t].release()
            if not self.ctl.acquire(timeout=self.step_wall):
                self.status = "stuck-thread"
                break
        self.live_at_end = [i for i in range(self.n) if not self.done[i]]
        if self.on_stop:
            self.on_stop(self)
        # abort: unwind the remaining threads one at a time
        if self.live_at_end and self.status != "stuck-thread":
            self.killing = True
            for i in self.live_at_end:
                self.go[i].release()
                self.ctl.acquire(timeout=self.step_wall)
        for t in ths:
            t.join(timeout=0.5 if self.status != "stuck-thread" else 0.01)
        return self.status


class SLock:
    """scheduler-aware lock handed to ConcurrentCacher.  One block under the lock = one atomic step;
    the shared-array writes made inside the block are turned into one event."""

    def __init__(self, sched, arr, keyinfo):
        self.s, self.arr, self.keyinfo = sched, arr, keyinfo
        self.holder = None

    def acquire(self, *a, **k):
        self.s.yp()
        if self.holder is not None and self.holder != self.s.me():
            self.s.wait_until(lambda: self.holder is None)
        self.holder = self.s.me()
        self.arr.begin_block()
        return True

    def release(self):
        writes = self.arr.end_block()
        self.holder = None
        self.s.log(self.keyinfo(writes))

    def __enter__(self):
        self.acquire()
        return self

    def __exit__(self, *a):
        self.release()
        return False


class SArray(list):
    """the shared counter array: a plain list that records writes made under the lock and makes
    every access made *outside* the lock a yield point (so a non-atomic update can be interleaved)"""

    def attach(self, sched):
        self.s = sched
        self.in_block = False
        self.writes = []
        self.unlocked_writes = 0
        self.touched = set()
        return self

    def begin_block(self):
        self.in_block = True
        self.writes = []

    def end_block(self):
        self.in_block = False
        w, self.writes = self.writes, []
        return w

    def __getitem__(self, i):
        if not self.in_block and self.s.me() is not None:
            self.s.yp()
        return list.__getitem__(self, i)

    def __setitem__(self, i, v):
        if self.s.me() is not None:
            if not self.in_block:
                self.s.yp()
                self.unlocked_writes += 1
            else:
                self.writes.append((i, list.__getitem__(self, i), v))
            self.touched.add(i)
        list.__setitem__(self, i, v)


class FakeTime:
    """stands in for the `time` module inside coba.context.cachers: sleep is a yield"""

    def __init__(self, sched, real):
        self._s, self._real = sched, real

    def sleep(self, secs=0):
        if self._s.me() is None:
            return
        self._s.yp()

    def __getattr__(self, name):
        return getattr(self._real, name)
