"""C01 Experiment results do not depend on execution configuration.

Shared with C03 (props/c03.py imports the helpers of this module).

(A) correspondence: toy components (props/c01_components.py) whose behaviour the Lean driver mirrors;
    the Result predicted by `Coba.C01.run` (model) is compared with the real `Experiment.run`.
(B) property monitor: the four tables + `.experiment` are equal across configurations and across a
    second construct-and-run (timing columns removed), toy and built-in components.
(C) model ⊨ spec at run time: `run cfg picks = resultS` (theorem `run_eq_spec`).

Configurations other than in-process are executed either on really spawned workers (few, they cost
seconds) or on a *permuting simulator* that replaces the module-level name `Multiprocessor` inside
coba/multiprocessing.py (harness-side substitution only): it pickles every chunk, hands the chunks
to simulated workers with fresh process globals, runs the REAL `CobaMultiprocessor.ProcessFilter`
/ `ProcessTasks` on them and interleaves the emitted records in a PRNG-chosen order.
"""
import copy
import json
import os
import pickle
import re
import select
import signal
import sys
import tempfile
import time
import traceback

from core.engine import Property, F
from core.prng import Rng

TIMING = ("predict_time", "learn_time")
AWKWARD_LABELS = ["red wine", "white wine", "dry  gin", " lead", "trail ", "it's", 'quo"te', "back\\slash", "ünï cødé", "tab\there",
                  "a,b", "[x]", "{k: v}", "(1, 2)", "None", "1", "1.0", "", "new\nline", "plain"]
MARK = re.compile(r"TOYFAIL:(?:env|lrn|val|kwargs)\d+:\w+(?:@e[\w.\-]*\.l\w+\.v\w+)?")


# ------------------------------------------------------------------ construction from a recipe
def _apply_ops(envs, ops):
    for op in ops:
        name = op[0]
        if name == "chunk":
            envs = envs.chunk()
        elif name == "chunk_nocache":
            envs = envs.chunk(cache=False)
        elif name == "cache":
            envs = envs.cache()
        elif name == "shuffle":
            envs = envs.shuffle(n=op[1])
        elif name == "shuffle_seed":
            envs = envs.shuffle(op[1])
        elif name == "take":
            envs = envs.take(op[1])
        elif name == "batch":
            envs = envs.batch(op[1])
        elif name == "noise":              # ["noise", "reward"|"context", seed or [seeds]]
            envs = envs.noise(**{op[1]: (0, 0.5)}, seed=op[2])
        elif name == "riffle":
            envs = envs.riffle(op[1], op[2])
        elif name == "reservoir":          # ["reservoir", n, seed or [seeds]]
            envs = envs.reservoir(op[1], op[2])
        elif name == "scale":
            envs = envs.scale("min", "minmax")
        elif name == "cycle":
            envs = envs.cycle(op[1])
        elif name == "slice":
            envs = envs.slice(op[1], op[2])
        elif name == "binary":
            envs = envs.binary()
        elif name == "sparse":
            envs = envs.sparse()
        elif name == "materialize":
            envs = envs.materialize()
        else:
            raise ValueError(op)
    return envs


def _env_objects(kind, r):
    """list of environment objects a recipe stands for (fan-out through shuffle(n=k) / branches)"""
    from coba.environments import Environments
    if kind == "seq":
        from props.c01_components import SeqEnv, Head
        src = SeqEnv(r["tag"], r["inters"], r.get("batch"), bool(r.get("fail")))
        if not r.get("pipe"):
            return [src]
        # phase 5: chunk() / chunk(cache=False) / cache() in front of the source, optionally fanned out behind the shared prefix
        envs = _apply_ops(Environments(src), [[r["pipe"]]])
        if r.get("heads"):
            envs = envs.filter([Head(k) for k in r["heads"]])
        return list(envs)
    if kind == "toy":
        from props.c01_components import ToyEnv
        base = ToyEnv(r["tag"], r["xs"], r.get("fail_at"), bool(r.get("params_fail")))
        if r.get("raw"):
            return [base]
        envs = Environments(base)
    else:
        src = r.get("src", "linear")
        if src == "supervised":
            # in-memory classification data with string labels that a lossy repr / text round trip would mangle
            labels = [AWKWARD_LABELS[i % len(AWKWARD_LABELS)] for i in r["labels"]]
            g = Rng(r["seed"], "supervised")
            X = [[g.below(5), g.below(7)] for _ in range(r["n"])]
            Y = [labels[g.below(len(labels))] for _ in range(r["n"])]
            if r.get("categorical"):
                # nominal labels: Finalize turns them into one-hot tuples, so with two classes the argmax of every
                # BinaryReward is itself a 2-tuple ((1,0)/(0,1)), with one class a 1-tuple
                from coba.primitives import Categorical
                Y = [Categorical(y, list(labels)) for y in Y]
            envs = Environments.from_supervised(X, Y)
        elif src == "neighbors":
            envs = Environments.from_neighbors_synthetic(r["n"], n_actions=r["na"], n_context_features=2, n_action_features=2, n_neighborhoods=5, seed=r["seed"])
        elif src == "kernel":
            envs = Environments.from_kernel_synthetic(r["n"], n_actions=r["na"], n_context_features=2, n_action_features=2, n_exemplars=3, seed=r["seed"])
        elif src == "mlp":
            envs = Environments.from_mlp_synthetic(r["n"], n_actions=r["na"], n_context_features=2, n_action_features=2, seed=r["seed"])
        else:
            envs = Environments.from_linear_synthetic(r["n"], n_actions=r["na"], n_context_features=2, n_action_features=2, seed=r["seed"])
        if r.get("logged"):
            from coba.learners import RandomLearner, FixedLearner, BanditEpsilonLearner
            policies = []
            for pol in r.get("log_policy") or [["random", r.get("log_seed", 1)]]:
                if pol[0] == "fixed":      # a skewed logging policy: other propensities than the uniform one
                    k = r["na"]
                    small = [0.05, 0.1, 0.02][pol[1] % 3]
                    policies.append(FixedLearner([small] * (k - 1) + [1 - small * (k - 1)], pol[2]))
                elif pol[0] == "eps":
                    policies.append(BanditEpsilonLearner(pol[1], pol[2]))
                else:
                    policies.append(RandomLearner(seed=pol[1]))
            envs = envs.logged(policies if len(policies) > 1 else policies[0], *([r["logged_seed"]] if r.get("logged_seed") is not None else []))
    envs = _apply_ops(envs, r.get("prefix", []))
    out = []
    for br in r.get("branches", [[]]):
        out += list(_apply_ops(envs, br))
    return out


def _seq_script(L):
    from props.c06 import mk
    return [dict(e, free=mk(e.get("free")), kw={k: mk(v) for k, v in e.get("kw", {}).items()},
                 ip={k: mk(v) for k, v in e.get("ip", [])} if L.get("info") else {},
                 il={k: mk(v) for k, v in e.get("il", [])} if L.get("info") else {}) for e in L["script"]]


def seq_env_objects(case):
    """per environment OBJECT of a seq case (a recipe with `heads` fans out): the interactions a read yields, fail, batch"""
    out = []
    for r in case["envs"]:
        if r.get("pipe") and r.get("heads"):
            out += [dict(r, inters=r["inters"][:k]) for k in r["heads"]]
        else:
            out.append(r)
    return out


def _learner(kind, r):
    if kind == "seq":
        from props.c06_learners import RecLearner
        return RecLearner(_seq_script(r), r["fmt"], r["has_score"], "aware", (), info=bool(r.get("info")))
    if kind == "toy":
        from props.c01_components import ToyLearner, ToyLearnerF
        if r.get("finish"):
            return ToyLearnerF(r["tag"], r.get("mult", 1), r.get("fp"), r.get("fl"), bool(r.get("params_fail")), bool(r.get("info")),
                               bool(r.get("nocopy")), r["finish"])
        return ToyLearner(r["tag"], r.get("mult", 1), r.get("fp"), r.get("fl"), bool(r.get("params_fail")), bool(r.get("info")), bool(r.get("nocopy")))
    t = r["type"]
    if t == "eps":
        from coba.learners import BanditEpsilonLearner
        return BanditEpsilonLearner(r["eps"], r["seed"])
    if t == "ucb":
        from coba.learners import BanditUCBLearner
        return BanditUCBLearner(r["seed"])
    if t == "random":
        from coba.learners import RandomLearner
        return RandomLearner(r["seed"])
    if t == "fixed":
        from coba.learners import FixedLearner
        return FixedLearner(r["pmf"], r["seed"])
    if t == "pmf":
        from props.c01_components import PmfLearner
        return PmfLearner(r["tag"])
    if t == "kwargs":
        from props.c01_components import KwargsLearner
        return KwargsLearner(r["tag"])
    if t == "info":
        from props.c01_components import InfoLearner
        return InfoLearner(r["tag"], r.get("where", ["score", "predict", "learn"]), r.get("fail_learn_at"))
    if t == "policy":
        from props.c01_components import PolicyLearner
        return PolicyLearner(r["tag"], r["p"])
    if t == "row":
        from props.c01_components import RowLearner
        return RowLearner(r["tag"])
    if t == "nocopy":
        from props.c01_components import NoCopyLearner
        return NoCopyLearner(r["tag"])
    if t == "maybe":
        from props.c01_components import MaybeScoreLearner
        return MaybeScoreLearner(r["tag"], r["can_score"])
    raise ValueError(t)


def _evaluator(kind, r):
    if kind == "seq":
        if r.get("rej"):
            # phase 6: the built-in RejectionCB (ope=None), dyadic cpct / cmax / cinit so that the float arithmetic is exact
            from coba.evaluators import RejectionCB
            fr = lambda x: None if x is None else x[0] // x[1] if x[0] % x[1] == 0 else x[0] / x[1]      # whole numbers as int (the Result shows 1, not 1.0)
            return RejectionCB(record=list(r["record"]), cpct=fr(r["cpct"]), cmax=fr(r["cmax"]), cinit=fr(r.get("cinit")), seed=r.get("seed"))
        from coba.evaluators import SequentialCB
        return SequentialCB(record=list(r["record"]), learn=r["learn"], eval=r["eval"], seed=r.get("seed"))
    if kind == "toy":
        from props.c01_components import ToyEval
        return ToyEval(r["tag"], r.get("seed"), r.get("fail_at"), bool(r.get("learn", True)), bool(r.get("params_fail")), r.get("skip_mult"), int(r.get("mode", 0)))
    t = r["type"]
    if t == "seq":
        from coba.evaluators import SequentialCB
        return SequentialCB(record=r.get("record", ["reward", "action", "probability"]), learn=r.get("learn", "on"),
                            eval=r.get("eval", "on"), seed=r.get("seed"))
    if t == "rej":
        from coba.evaluators import RejectionCB
        return RejectionCB(record=r.get("record", ["reward"]), seed=r.get("seed"))
    if t == "fn":
        from props.c01_components import fn_evaluator
        return fn_evaluator
    raise ValueError(t)


class Built:
    pass


def build(case):
    """fresh objects + the Experiment, exactly as a user would write it"""
    from coba.experiments import Experiment
    kind = case["kind"]
    b = Built()
    b.envs = []
    for r in case["envs"]:
        b.envs += _env_objects(kind, r)
    b.lrns = [_learner(kind, r) for r in case["lrns"]]
    b.vals = [_evaluator(kind, r) for r in case["vals"]]
    ne, nl, nv = len(b.envs), len(b.lrns), len(b.vals)

    def first_same(objs, i):
        # the same object may stand at two positions (e.g. a function used as evaluator twice): coba keys on the object
        return next(j for j in range(len(objs)) if objs[j] is objs[i])
    if case["mode"] == "product":
        pe = [i % ne for i in case["pe"]]
        pl = [i % nl for i in case["pl"]]
        pv = [i % nv for i in case["pv"]]
        b.triples = [(first_same(b.envs, e), first_same(b.lrns, l), first_same(b.vals, v)) for e in pe for l in pl for v in pv]
        if case.get("single_eval") and len(pv) == 1:
            b.exp = Experiment([b.envs[i] for i in pe], [b.lrns[i] for i in pl], b.vals[pv[0]])
        else:
            b.exp = Experiment([b.envs[i] for i in pe], [b.lrns[i] for i in pl], [b.vals[i] for i in pv])
    else:
        b.triples = [(first_same(b.envs, t[0] % ne), first_same(b.lrns, t[1] % nl), first_same(b.vals, t[2] % nv) if t[2] >= 0 else -1)
                     for t in case["triples"]]
        tl = [(b.envs[e], b.lrns[l], b.vals[v]) if v >= 0 else (b.envs[e], b.lrns[l]) for e, l, v in b.triples]
        b.exp = Experiment(tl)
    return b


# ------------------------------------------------------------------ CobaContext handling
_CTX_ATTRS = ("_logger", "_cacher", "_store", "_learning_info")


def _ctx_get():
    """the process-global state of coba (the meta-class properties store it on the class itself)"""
    from coba.context import CobaContext
    return tuple(getattr(CobaContext, a) for a in _CTX_ATTRS)


def _ctx_set(vals):
    from coba.context import CobaContext
    for a, v in zip(_CTX_ATTRS, vals):
        setattr(CobaContext, a, v)


def _fresh_process_ctx():
    """what the globals of a newly spawned process look like (quiet logger instead of the console)"""
    from coba.context import NullLogger, NullCacher
    return (NullLogger(), NullCacher(), {}, {})


# ------------------------------------------------------------------ the permuting simulator
def _roundtrip(x):
    try:
        return pickle.loads(pickle.dumps(x))
    except Exception:
        return x


class _Worker:
    def __init__(self, pf):
        self.ctx = _fresh_process_ctx()
        self.done = 0
        self.gen = None
        w = copy.copy(pf)
        for name in ("_filter", "_logger"):
            if hasattr(w, name):
                setattr(w, name, _roundtrip(getattr(w, name)))
        if hasattr(w, "_store") and isinstance(w._store, dict):
            w._store = {k: _roundtrip(v) for k, v in w._store.items()}
        self.pf = w


def make_sim(sched_seed, trace=None):
    """factory standing in for coba.pipes.Multiprocessor(filter, n_processes, maxtasksperchild)"""

    class SimMultiprocessor:
        def __init__(self, filter, n_processes=1, maxtasksperchild=0, read_wait=False):
            self._filter, self._n, self._mc = filter, max(1, int(n_processes)), int(maxtasksperchild or 0)

        def filter(self, items):
            rng = Rng(sched_seed, "sim")
            queue = [pickle.dumps(chunk) for chunk in items]     # the loader thread pickles every chunk
            queue.reverse()
            workers = [_Worker(self._filter) for _ in range(self._n)]
            main_ctx = None
            while True:
                live = [w for w in workers if w.gen is not None or queue]
                busy = [w for w in workers if w.gen is not None]
                if not busy and not queue:
                    break
                w = rng.choice(live)
                out = None
                main_ctx = _ctx_get()
                _ctx_set(w.ctx)
                try:
                    if w.gen is None:
                        if self._mc and w.done >= self._mc:        # the process is replaced by a new one
                            idx = workers.index(w)
                            w = _Worker(self._filter)
                            workers[idx] = w
                            _ctx_set(w.ctx)
                        chunk = pickle.loads(queue.pop())
                        if trace is not None:
                            trace.append(("pull", workers.index(w), len(chunk)))
                        g = w.pf.filter(chunk)
                        w.gen = iter(g if hasattr(g, "__iter__") else [g])
                    else:
                        try:
                            out = [next(w.gen)]
                        except StopIteration:
                            w.gen = None
                            w.done += 1
                finally:
                    w.ctx = _ctx_get()
                    _ctx_set(main_ctx)
                if out is not None:
                    rec = pickle.loads(pickle.dumps(out[0]))        # the out-queue pickles every record
                    if trace is not None:
                        trace.append(("emit", rec[0], rec[1]))
                    yield rec

    return SimMultiprocessor


# ------------------------------------------------------------------ running
def _plain(v):
    from coba.results.core import Missing
    if v is Missing:
        return None
    if isinstance(v, (list, tuple)):
        return [_plain(x) for x in v]
    if isinstance(v, dict):
        return {str(k): _plain(x) for k, x in v.items()}
    if isinstance(v, float) and v != v:
        return "nan"
    if isinstance(v, (int, float, str, bool)) or v is None:
        return v
    return repr(v)


def canon_result(r):
    """the observable of the property: the four tables (timing columns removed) + .experiment"""
    from coba.results.core import Missing

    def table(t, idcol):
        out = []
        for d in t.to_dicts():
            i = d.pop(idcol)
            out.append([_plain(i), {k: _plain(v) for k, v in sorted(d.items()) if v is not Missing}])
        return out

    ints = {}
    order = []
    for d in r.interactions.to_dicts():
        key = (d.pop("environment_id"), d.pop("learner_id"), d.pop("evaluator_id"))
        idx = d.pop("index")
        row = {k: _plain(v) for k, v in sorted(d.items()) if v is not Missing and k not in TIMING}
        if key not in ints:
            ints[key] = []
            order.append(key)
        ints[key].append([idx, row])
    return {"exp": _plain(dict(r.experiment)), "envs": table(r.environments, "environment_id"),
            "lrns": table(r.learners, "learner_id"), "vals": table(r.evaluators, "evaluator_id"),
            "ints": [[list(k), ints[k]] for k in order]}


def resumed_run(case, cfg, how, sched, resume):
    """an interrupted-and-resumed run: the experiment is run once into a result file, a PRNG-chosen subset of the record
    lines is kept (whole lines: torn lines are C02's subject), then the freshly constructed experiment is run again
    with the same result_file under `cfg`.  Returns the Result of the second run and the records that were kept."""
    import coba.multiprocessing as cmp
    from coba.context import CobaContext, BasicLogger, NullCacher, NullLogger
    from coba.pipes import ListSink
    saved = _ctx_get()
    old_mp = cmp.Multiprocessor
    d = tempfile.mkdtemp(prefix="c01resume")
    path = os.path.join(d, "result.log")
    sink = ListSink()
    try:
        _ctx_set((NullLogger(), NullCacher(), {}, {}))
        build(case).exp.run(result_file=path, processes=1, maxchunksperchild=0, maxtasksperchunk=0, seed=case["seed"])
        lines = [l for l in open(path, encoding="utf-8").read().split("\n") if l.strip()]
        rng = Rng(resume["drop"], "resume")
        kept, old = [], []
        for l in lines:
            rec = json.loads(l)
            if rec[0] in ("version", "experiment"):
                kept.append(l)
            elif rng.chance(resume.get("keep", 0.5)):
                kept.append(l)
                old.append(rec)
        with open(path, "w", encoding="utf-8") as f:
            f.write("\n".join(kept) + "\n")
        CobaContext.logger = BasicLogger(sink)
        trace = []
        if how == "sim" and (cfg[0] > 1 or cfg[1] != 0):
            cmp.Multiprocessor = make_sim(sched, trace)
        b = build(case)
        res = b.exp.run(result_file=path, processes=cfg[0], maxchunksperchild=cfg[1], maxtasksperchunk=cfg[2], seed=case["seed"])
        return {"result": canon_result(res), "log": [str(x) for x in sink.items], "old": old, "triples": [list(t) for t in b.triples],
                "lrn_states": [], "lrn_modified": [], "assign": dense_assign(trace), "pre_assign": [], "store_clean": True}
    finally:
        cmp.Multiprocessor = old_mp
        _ctx_set(saved)
        try:
            for n in os.listdir(d):
                os.remove(os.path.join(d, n))
            os.rmdir(d)
        except OSError:
            pass


def old_for_model(old):
    """the kept log records in the driver's format (toy rows as [x,p,n,seed(,li)])"""
    out = []
    for rec in old:
        if rec[0] in ("E", "L", "V"):
            out.append([rec[0], rec[1], json.dumps(_plain(rec[2]), sort_keys=True)])
        elif rec[0] == "I":
            packed = rec[2].get("_packed", {}) if isinstance(rec[2], dict) else {}
            n = len(next(iter(packed.values()))) if packed else 0
            rows = []
            for i in range(n):
                row = [packed[k][i] for k in ("x", "p", "n", "seed")]
                if packed.get("li") is not None and packed["li"][i] is not None:
                    row.append(packed["li"][i])
                rows.append(row)
            key = list(rec[1]) + ([0] if len(rec[1]) == 2 else [])
            out.append(["I", key, rows])
    return out


def _ambient_logger(opts, sink):
    """the logger the caller has installed before run(): BasicLogger (default) or IndentLogger"""
    from coba.context import BasicLogger, IndentLogger
    return IndentLogger(sink) if (opts or {}).get("logger") == "indent" else BasicLogger(sink)


def run_once(case, cfg, how="inproc", sched=0, built=None, trace=None, pre=None, opts=None):
    """construct the experiment afresh and run it under cfg=(processes,maxchunksperchild,maxtasksperchunk).
    how: 'inproc' / 'real' use coba unchanged; 'sim' substitutes the permuting simulator.
    pre: an earlier run of the same session — the same recipe constructed and run with another seed / configuration in
    this very process before the run that is judged (its Result is thrown away)."""
    import coba.multiprocessing as cmp
    from coba.context import CobaContext, BasicLogger, NullCacher, NullLogger
    from coba.pipes import ListSink
    saved = _ctx_get()
    old_mp = cmp.Multiprocessor
    sink = ListSink()
    try:
        _ctx_set((NullLogger(), NullCacher(), {}, {}))
        pre_trace = []
        if pre:
            pb = build(case)
            try:
                if pre["how"] == "sim" and (pre["cfg"][0] > 1 or pre["cfg"][1] != 0):
                    cmp.Multiprocessor = make_sim(pre.get("sched", 0), pre_trace)
                pb.exp.run(processes=pre["cfg"][0], maxchunksperchild=pre["cfg"][1], maxtasksperchunk=pre["cfg"][2], seed=pre["seed"])
            finally:
                cmp.Multiprocessor = old_mp
        # the same process goes on: only the logger is exchanged, store and learning_info are whatever the session left
        # opts: the remaining execution parameters of run() — quiet=True (progress messages off; exceptions must still be
        # reported) and the kind of logger the caller has installed
        CobaContext.logger = _ambient_logger(opts, sink)
        quiet = bool((opts or {}).get("quiet"))
        if trace is None:
            trace = []
        b = built or build(case)
        before = [snapshot(l) for l in b.lrns]
        multi = cfg[0] > 1 or cfg[1] != 0
        if how == "sim" and multi:
            cmp.Multiprocessor = make_sim(sched, trace)
        if quiet:
            res = b.exp.run(quiet=True, processes=cfg[0], maxchunksperchild=cfg[1], maxtasksperchunk=cfg[2], seed=case["seed"])
        else:
            res = b.exp.run(processes=cfg[0], maxchunksperchild=cfg[1], maxtasksperchunk=cfg[2], seed=case["seed"])
        out = {"result": canon_result(res), "log": [str(x) for x in sink.items]}
        out["lrn_states"] = [[getattr(l, "n", None), getattr(l, "acc", None)] for l in b.lrns]
        if case["kind"] == "seq":
            out["seq_ints"] = seq_ints(res)
            out["lrn_states"] = [[l.n_pred, l.n_score] for l in b.lrns]
        out["lrn_modified"] = [x is not None and snapshot(l) != x for l, x in zip(b.lrns, before)]
        out["triples"] = [list(t) for t in b.triples]
        out["assign"] = dense_assign(trace)
        out["pre_assign"] = dense_assign(pre_trace)
        out["store_clean"] = "experiment_seed" not in CobaContext.store
        return out
    finally:
        cmp.Multiprocessor = old_mp
        _ctx_set(saved)


def dense_assign(trace):
    """which simulated worker pulled the k-th chunk, workers numbered in order of their first pull"""
    ids, out = {}, []
    for ev in trace or []:
        if ev[0] == "pull":
            out.append(ids.setdefault(ev[1], len(ids)))
    return out


def snapshot(lrn):
    try:
        return pickle.dumps(lrn.__dict__)
    except Exception:
        return None


class RunTimeout(Exception):
    pass


def isolated(fn, *args, timeout=60, **kw):
    """run fn in a forked child of this (pristine) process and return its result: every experiment run of a case starts
    from the same process state, so module- or class-level state a run leaves behind cannot reach the next run — in
    particular not the reference runs the other runs are compared with"""
    r, w = os.pipe()
    pid = os.fork()
    if pid == 0:
        try:
            os.close(r)
            os.setsid()                 # own process group: spawned workers can be removed together with this child
            try:
                out = ("ok", fn(*args, **kw))
            except BaseException as e:
                out = ("err", "%s: %s\n%s" % (type(e).__name__, e, traceback.format_exc()[-1500:]))
            with os.fdopen(w, "wb") as f:
                f.write(pickle.dumps(out))
            try:
                import multiprocessing
                for c in multiprocessing.active_children():
                    c.terminate()
            except BaseException:
                pass
        finally:
            os._exit(0)
    os.close(w)
    data = b""
    deadline = time.time() + timeout
    try:
        while True:
            left = deadline - time.time()
            if left <= 0:
                raise RunTimeout("an experiment run did not finish within %ds" % timeout)
            ready, _, _ = select.select([r], [], [], min(left, 1.0))
            if ready:
                part = os.read(r, 1 << 16)
                if not part:
                    break
                data += part
    finally:
        os.close(r)
        try:
            os.killpg(pid, signal.SIGKILL)
        except OSError:
            try:
                os.kill(pid, signal.SIGKILL)
            except OSError:
                pass
        try:
            os.waitpid(pid, 0)
        except OSError:
            pass
    if not data:
        raise RuntimeError("isolated run died without a result")
    kind, val = pickle.loads(data)
    if kind == "err":
        raise RuntimeError("isolated run failed: " + val)
    return val


def run_opts(run):
    """the execution parameters of a run besides (processes, maxchunksperchild, maxtasksperchunk)"""
    o = {k: run[k] for k in ("quiet", "logger") if run.get(k)}
    return o or None


TIMEOUT_REAL = 300      # seconds for a run that really spawns worker processes (a loaded machine starts them slowly)
TIMEOUT_OTHER = 120     # in-process / simulator runs
RETRIED = []            # labels of runs of the current case that timed out once and were repeated (-> tags `real:timeout-retried`)


def run_iso(case, cfg, how="inproc", sched=0, pre=None, resume=None, opts=None):
    """one experiment run in a forked child.  A run that does not finish in time (slow / loaded machine: really spawned
    workers start slowly) is repeated ONCE before anything is reported; only a repeated timeout reaches the caller (kind `T`,
    infrastructure).  A retry is never silent: it is recorded in RETRIED and shows up in the tag histogram."""
    slow = how == "real" or (pre or {}).get("how") == "real"
    timeout = TIMEOUT_REAL if slow else TIMEOUT_OTHER
    for attempt in (0, 1):
        try:
            if resume:
                return isolated(resumed_run, case, cfg, how, sched, resume, timeout=timeout)
            return isolated(run_once, case, cfg, how, sched, pre=pre, opts=opts, timeout=timeout)
        except RunTimeout:
            if attempt == 1:
                raise
            RETRIED.append("real:timeout-retried" if slow else "run:timeout-retried")


def markers(log_lines):
    ms = []
    for line in log_lines:
        ms += MARK.findall(line)
    return sorted(ms)



# ------------------------------------------------------------------ phase 4: the `seq` kind (built-in SequentialCB, model-predicted)
def seq_ints(res):
    """interaction rows of a real Result in C06's canonical form (None / Missing cells dropped)"""
    from coba.results.core import Missing
    from props.c06 import cn
    out = []
    for d in res.interactions.to_dicts():
        key = [d.pop("environment_id"), d.pop("learner_id"), d.pop("evaluator_id"), d.pop("index")]
        row = sorted([[str(k), cn(v)] for k, v in d.items() if v is not Missing and v is not None and k not in TIMING], key=lambda kv: kv[0])
        out.append(key + [row])
    return out


def observe_seq(case):
    """the `SeqWorld` of a seq case: params observed on a fresh construction, interactions / scripts translated by C06's
    `model_request`"""
    from coba.safety import SafeEnvironment, SafeLearner, SafeEvaluator
    from props import c06
    saved = _ctx_get()
    try:
        _ctx_set(_fresh_process_ctx())
        b = build(case)
        dummy_l = case["lrns"][0]
        envs, lrns, vals = [], [], []
        from coba.environments import Chunk
        tokens = {}
        eobjs = seq_env_objects(case)
        assert len(eobjs) == len(b.envs)
        for e, r in zip(b.envs, eobjs):
            mr = c06.model_request({"cfg": {"learn": "on", "eval": "on", "record": []}, "learner": dict(dummy_l, kw_keys=(), fmt="AP"), "env": {"inters": r["inters"]}})
            chunk = None
            try:
                for pipe in reversed(list(e)):       # identity of the last Chunk pipe (what ChunkTasks groups by)
                    if isinstance(pipe, Chunk):
                        chunk = tokens.setdefault(id(pipe), len(tokens))
                        break
            except Exception:
                chunk = None
            envs.append({"params": json.dumps(_plain(dict(SafeEnvironment(e).params)), sort_keys=True), "chunk": chunk,
                         "inters": None if r.get("fail") else mr["env"], "batch": r.get("batch")})
        for l, r in zip(b.lrns, case["lrns"]):
            mr = c06.model_request({"cfg": {"learn": "on", "eval": "on", "record": []}, "learner": dict(r, kw_keys=(), fmt="AP" if r["fmt"] == "pmf" else r["fmt"]), "env": {"inters": []}})
            lrns.append({"params": json.dumps(_plain(dict(SafeLearner(l).params)), sort_keys=True), "has_score": bool(r["has_score"]),
                         "script": mr["learner"]["script"],
                         # "rowlen2": (action, probability) tuples -- on a batched environment whose first batch has exactly two
                         # rows SafeLearner.batch_order probes with one more predict (model: probeWrap)
                         "kind": "pmf" if r["fmt"] == "pmf" else "info" if r.get("info") else "rowlen2" if r["fmt"] == "AP" else "plain"})
        for v, r in zip(b.vals, case["vals"]):
            vals.append({"params": json.dumps(_plain(dict(SafeEvaluator(copy.deepcopy(v)).params)), sort_keys=True), "seed": r.get("seed"),
                         "cfg": {"learn": r["learn"], "eval": r["eval"], "record": list(r["record"])},
                         # phase 6: a RejectionCB object (Model/C01 `RejConfig`, evaluated by `rejEvaluate` over the C05 stream)
                         "rej": {"record": list(r["record"]), "cpct": r["cpct"], "cmax": r["cmax"], "cinit": r.get("cinit")} if r.get("rej") else None})
        return {"seq": True, "envs": envs, "lrns": lrns, "vals": vals, "triples": [list(t) for t in b.triples]}
    finally:
        _ctx_set(saved)


def compare_seq(driver, case, obs, run, o, label=""):
    """(A) for the seq kind: the real Result of Experiment.run over the built-in SequentialCB against `run (seqComps w)`
    of the driver (tables, interaction rows cell by cell, logged exceptions, learner objects); (C) model = spec"""
    from props import c06
    fails = []
    picks = [Rng(run["sched"], "picks", i).below(97) for i in range(12)]
    ans = driver.ask(dict(obs, seed=case["seed"], cfg=run["cfg"], picks=picks))
    model = ans["model"]
    where = "%scfg %s (%s)" % (label, run["cfg"], run["how"])
    mv = model_view(o["result"])
    for part in ("exp", "envs", "lrns", "vals"):
        if mv[part] != model[part]:
            fails.append(F("A", "%s: table %s of the real Result %s differs from the model's %s" % (where, part, json.dumps(mv[part])[:300], json.dumps(model[part])[:300]), "A:seq:" + part))
            return fails, ans
    got = o["seq_ints"]
    exp = [[x[0], x[1], x[2], x[3], [kv for kv in c06.model_row(x[4]) if kv[1] is not None]] for x in model["ints"]]
    if [g[:4] for g in got] != [e[:4] for e in exp]:
        fails.append(F("A", "%s: interaction keys/indexes of the real Result %s differ from the model's %s" % (
            where, json.dumps([g[:4] for g in got])[:300], json.dumps([e[:4] for e in exp])[:300]), "A:seq:int-keys"))
    else:
        for g, e in zip(got, exp):
            gr = c06.impl_row_for_A(g[4])
            if [k for k, _ in gr] != [k for k, _ in e[4]] or not all(c06.ceq(x[1], y[1], tol=x[0] in ("reward", "rewards")) for x, y in zip(gr, e[4])):
                fails.append(F("A", "%s: row %s of the real Result %s differs from SequentialCB's model row %s" % (
                    where, g[:4], json.dumps(gr)[:300], json.dumps(e[4])[:300]), "A:seq:rows"))
                break
    if ans["model"] != ans["spec"]:
        fails.append(F("C", "model: run (seqComps) %s differs from resultS" % (run["cfg"],), "C:run_eq_spec_sequentialCB"))
    nexc = len([l for l in o["log"] if "Exception" in l or "Error" in l or "TOYFAIL" in l or "Traceback" in l])
    n_markers = len(markers(o["log"]))
    n_rej = sum(bool(re.search(r"SequentialCB\(.*\) requires ", l)) or "ExplorationEvaluator " in l for l in o["log"])
    if n_markers + n_rej != len(ans["log"]):
        fails.append(F("A", "%s: %d failing reads + %d rejected environments in the log, the model expects %d failing tasks %s" % (
            where, n_markers, n_rej, len(ans["log"]), ans["log"]), "A:seq:log"))
    if not any(r.get("fail") for r in case["envs"]) and o["lrn_states"] != ans["heap"]:
        fails.append(F("A", "%s: learner objects (script positions) after run %s, model %s" % (where, o["lrn_states"], ans["heap"]), "A:seq:heap"))
    return fails, ans


def seq_directed_cases():
    """phase 4 corpus: one scripted learner object shared by environments and SequentialCB objects (on-policy, off-policy,
    IPS, predict-only), a learner used once (evaluated in place), a failing read and an environment the off-policy
    evaluator rejects — every row predicted by `run (seqComps w)`"""
    def q(a, b):
        return {"f": [a, b]}
    sim = [[["context", i], ["actions", {"l": ["a", "b", "c"]}], ["rewards", {"l": [q(i % 3, 2), q(1, 4), 1]}]] for i in range(4)]
    log = [[["context", "c%d" % i], ["actions", {"l": [0, 1]}], ["rewards", {"l": [q(1, 2), q(i % 2, 1)]}],
            ["action", i % 2], ["reward", q(i, 4)], ["probability", q(1, 2)]] for i in range(5)]
    envs = [{"tag": 0, "inters": sim, "batch": None, "fail": False}, {"tag": 1, "inters": log, "batch": None, "fail": False},
            {"tag": 2, "inters": sim[:2], "batch": None, "fail": True}]
    lrns = [{"script": [{"idx": 0, "free": None, "p": [1, 2], "kw": {}, "s": [1, 2]}, {"idx": 1, "free": None, "p": [1, 4], "kw": {}, "s": [1, 4]},
                        {"idx": 2, "free": None, "p": [1, 1], "kw": {}, "s": [1, 2]}], "fmt": "AP", "has_score": False},
            {"script": [{"idx": 1, "free": None, "p": [3, 4], "kw": {}, "s": [1, 4]}, {"idx": 0, "free": None, "p": [1, 4], "kw": {}, "s": [1, 2]}],
             "fmt": "dAP", "has_score": True}]
    vals = [{"record": ["reward", "action", "probability"], "learn": "on", "eval": "on", "seed": None},
            {"record": ["reward", "action", "probability", "context"], "learn": "off", "eval": "ips", "seed": None},
            {"record": ["reward", "rewards", "actions"], "learn": "ips", "eval": "on", "seed": None},
            {"record": ["action", "probability"], "learn": None, "eval": "on", "seed": None}]
    base = {"kind": "seq", "seed": 1, "envs": envs, "lrns": lrns, "vals": vals}
    runs = [{"cfg": [1, 0, 0], "how": "inproc", "sched": 0}, {"cfg": [2, 1, 2], "how": "sim", "sched": 5}, {"cfg": [1, 0, 3], "how": "inproc", "sched": 0, "quiet": True}]
    return [dict(base, mode="product", pe=[0, 1, 2], pl=[0, 1], pv=[0, 1, 2, 3], runs=runs, rerun=True),
            dict(base, mode="tuples", triples=[[0, 0, 0], [1, 0, 1], [0, 1, 0], [1, 0, 2], [0, 0, 0], [2, 1, 3], [1, 1, 1]],
                 runs=runs[:2] + [{"cfg": [2, 0, 0], "how": "real", "sched": 0}])]


def gen_seq(rng, tier, real_p=0.02):
    """an experiment over in-memory environments x scripted learners x built-in SequentialCB objects, in C06's case format"""
    def q(a, b):
        return {"f": [a, b]}
    act_pool = [["a", "b", "c"], [0, 1], [{"l": [1, 0]}, {"l": [0, 1]}], ["x", 7, "y", 2]]
    envs = []
    for t in range(rng.choice([1, 2, 2, 3])):
        acts = rng.choice(act_pool)
        n = rng.choice([0, 1, 2, 3, 4, 5, 7])
        logged = rng.chance(0.35)
        inters = []
        for i in range(n):
            ctx = rng.choice([None, i, "c%d" % i, {"l": [i, 1]}])
            rw = [q(rng.below(5), 4) for _ in acts]
            pairs = [["context", ctx], ["actions", {"l": list(acts)}], ["rewards", {"l": rw}]]
            if logged:
                pairs += [["action", acts[rng.below(len(acts))]], ["reward", q(rng.below(5), 4)], ["probability", q(1, rng.choice([1, 2, 4]))]]
            inters.append(pairs)
        envs.append({"tag": t, "inters": inters, "batch": rng.choice([None, None, None, None, None]), "fail": rng.chance(0.12)})
    lrns = []
    for t in range(rng.choice([1, 2, 2, 3])):
        script = [{"idx": rng.below(6), "free": None, "p": rng.choice([[1, 1], [1, 2], [1, 4], [3, 4]]), "kw": {}, "s": [1, rng.choice([2, 4])]}
                  for _ in range(rng.choice([1, 2, 3, 5]))]
        lrns.append({"script": script, "fmt": rng.choice(["AP", "AP", "A", "dAP"]), "has_score": rng.chance(0.3)})
    vals = []
    for t in range(rng.choice([1, 1, 2, 3])):
        rec = [k for k in ["reward", "action", "probability", "context", "actions", "rewards"] if rng.chance(0.55)] or ["reward"]
        learn, ev = rng.choice([("on", "on"), ("on", "on"), ("on", "on"), ("off", "on"), ("ips", "on"), (None, "on"), ("off", "ips"), ("on", None)])
        vals.append({"record": rec, "learn": learn, "eval": ev, "seed": None})
    case = {"kind": "seq", "seed": rng.choice([1, 2, 7]), "envs": envs, "lrns": lrns, "vals": vals}
    ne, nl, nv = len(envs), len(lrns), len(vals)
    if rng.chance(0.5):
        case.update(mode="product", pe=list(range(ne)), pl=rng.shuffle(list(range(nl))), pv=list(range(nv)))
    else:
        k = rng.choice([2, 3, 4, 5])
        case.update(mode="tuples", triples=[[rng.below(ne), rng.below(nl), rng.below(nv)] for _ in range(k)])
    runs = [{"cfg": [1, 0, 0], "how": "inproc", "sched": 0}]
    for _ in range(rng.choice([1, 2, 2])):
        cfg = gen_cfg(rng)
        multi = cfg[0] > 1 or cfg[1] != 0
        runs.append({"cfg": cfg, "how": "inproc" if not multi else ("real" if rng.chance(real_p) else "sim"), "sched": rng.randint(0, 10 ** 6)})
    case["runs"] = runs
    if rng.chance(0.3):
        case["rerun"] = True
    seq_extend(case, Rng(runs[-1]["sched"], "seqx", len(envs), len(lrns)))
    seq_extend6(case, Rng(runs[-1]["sched"], "seqr", len(envs), len(lrns)))
    return tame_real_runs(case)


SEQ_PMFS = {2: [[(1, 2), (1, 2)], [(1, 4), (3, 4)], [(0, 1), (1, 1)]],
            4: [[(1, 4)] * 4, [(1, 2), (0, 1), (1, 4), (1, 4)], [(1, 8), (1, 8), (1, 4), (1, 2)]],
            3: [[(1, 2), (1, 4), (1, 4)], [(0, 1), (1, 2), (1, 2)], [(1, 4), (1, 2), (1, 4)]]}


def seq_extend(case, xr):
    """phase 5 (drawn from a PRNG derived from the case, the main recipe stream is unchanged): in 65 % of the seq cases
    learners become PMF-answering (SafeLearner draws with CobaRandom(evaluator seed or experiment seed)) or write
    learning_info, evaluators get own seeds, and environments get chunk() / chunk(cache=False) / cache() pipelines, half of
    the chunked ones fanned out behind the shared prefix (`Head(k)`)"""
    if not xr.chance(0.65):
        return case
    # batched environments (goal 2): learners answer with (a,p) tuples / {'action_prob'} dicts / PMFs (formats whose row length is
    # static: 2 / dict / dict), no info writers (the batched info merge is not modelled)
    batched = xr.chance(0.5)
    for L in case["lrns"]:
        u = xr.below(100)
        if batched:
            if L["fmt"] == "A":
                L["fmt"] = "AP"
            if 35 <= u < 60:
                u = 99
        if u < 35:
            L["fmt"] = "pmf"
            for e in L["script"]:
                e["pm"] = [[n_, [list(w) for w in xr.choice(SEQ_PMFS[n_])]] for n_ in (2, 3, 4)]
        elif u < 60:
            L["info"] = True
            for e in L["script"]:
                e["ip"] = [[k, xr.choice([1, 2, "x", "yz"])] for k in ["info_p", "info_x"] if xr.chance(0.6)]
                e["il"] = [[k, xr.choice([3, "l", 0])] for k in ["info_l", "info_x"] if xr.chance(0.5)]
    for v in case["vals"]:
        v["seed"] = xr.choice([None, None, 3, 5])
    for r in case["envs"]:
        if batched and xr.chance(0.8):
            r["batch"] = xr.choice([1, 2, 2, 2, 2, 3])
        if xr.chance(0.55):
            r["pipe"] = "chunk_nocache" if r.get("fail") else xr.choice(["chunk", "chunk", "chunk_nocache", "cache"])
            n = len(r["inters"])
            if r["pipe"] != "cache" and not r.get("fail") and not r.get("batch") and xr.chance(0.5):
                r["heads"] = [xr.below(n + 1), n]
    total = len(seq_env_objects(case))
    if case["mode"] == "product":
        case["pe"] = list(range(total))
    else:
        case["triples"] = [[xr.below(total), t[1], t[2]] for t in case["triples"]]
    return case


REJ_RECORDS = [["reward"], ["reward", "probability"], ["context", "actions", "action", "reward", "probability"], ["action"], [],
               ["probability", "context"], ["reward", "action"]]


def seq_extend6(case, xr):
    """phase 6 (own derived PRNG, the earlier recipe streams are unchanged): in 40 % of the seq cases evaluator objects
    become built-in RejectionCB objects (dyadic cpct 0 / 1/4 / 1/2 / 1, cmax 1 / 1/2 / 2, cinit None / 0 / 1/2 / 1/4, own seed or
    the experiment seed), most environments become logged ones (propensities 1, 1/2, 1/4, 1/8), learners mostly get `score`
    with scores 0, 1/8, 1/4, 1/2, 1 (0: the ratio is not inserted into Q) and write no learning_info.  Every number is dyadic, so
    the float arithmetic of the code is exact and the model's rationals predict accept / reject of every interaction."""
    if not xr.chance(0.5):
        return case
    def q(a, b):
        return {"f": [a, b]}
    for v in case["vals"]:
        if xr.chance(0.7):
            v.update(rej=True, record=list(xr.choice(REJ_RECORDS)), cpct=xr.choice([[0, 1], [1, 4], [1, 2], [1, 1], [1, 2]]),
                     cmax=xr.choice([[1, 1], [1, 1], [1, 2], [2, 1]]), cinit=xr.choice([None, None, None, [0, 1], [1, 2], [1, 4], [1, 1]]),
                     learn="on", eval="on")
    if not any(v.get("rej") for v in case["vals"]):
        return case
    for L in case["lrns"]:
        L.pop("info", None)
        if xr.chance(0.9):
            L["has_score"] = True
        for e in L["script"]:
            e["s"] = xr.choice([[1, 2], [1, 4], [1, 1], [1, 8], [0, 1], [1, 2], [1, 1]])
    for r in case["envs"]:
        if xr.chance(0.85):
            if xr.chance(0.75) and not r.get("heads"):
                r["inters"] = (r["inters"] * 16)[:xr.choice([8, 12, 16])] if r["inters"] else r["inters"]
            out = []
            for i, pairs in enumerate(r["inters"]):
                d = dict((k, v_) for k, v_ in pairs)
                acts = d["actions"]["l"]
                if "action" not in d:
                    pairs = pairs + [["action", acts[xr.below(len(acts))]], ["reward", q(xr.below(5), 4)], ["probability", q(1, xr.choice([1, 2, 2, 4, 4, 8]))]]
                out.append(pairs)
            r["inters"] = out
    return case


def seq_directed_cases6():
    """phase 6 corpus: RejectionCB objects inside the model-predicted experiment: (1) one RejectionCB shared by two logged sources
    and two learners (one shared in place inside a chunk), data-adaptive start value, own seed vs experiment seed, a learner
    without score (rejected), an un-logged source (rejected), a score of 0; (2) a source of 103 interactions whose smallest
    propensity comes after the first 100 (only the peeked 100 enter the start value), cpct 1/2 (interpolating percentile)"""
    def q(a, b):
        return {"f": [a, b]}
    def log(n, na, pr):
        acts = ["a", "b", "c", "d"][:na]
        return [[["context", i], ["actions", {"l": acts}], ["rewards", {"l": [q((i + j) % 5, 4) for j in range(na)]}],
                 ["action", acts[(i * 7 + 1) % na]], ["reward", q((3 * i) % 5, 4)], ["probability", q(1, pr(i))]] for i in range(n)]
    sim = [[["context", i], ["actions", {"l": ["a", "b"]}], ["rewards", {"l": [q(1, 2), q(1, 4)]}]] for i in range(3)]
    envs = [{"tag": 0, "inters": log(9, 2, lambda i: [2, 4, 2, 1][i % 4]), "batch": None, "fail": False, "pipe": "chunk"},
            {"tag": 1, "inters": log(7, 3, lambda i: [4, 2][i % 2]), "batch": None, "fail": False},
            {"tag": 2, "inters": sim, "batch": None, "fail": False},
            {"tag": 3, "inters": log(4, 2, lambda i: 2), "batch": 2, "fail": False}]
    sc = lambda *ss: [{"idx": k, "free": None, "p": [1, 2], "kw": {}, "s": list(s_)} for k, s_ in enumerate(ss)]
    lrns = [{"script": sc([1, 2], [1, 4], [1, 1], [0, 1], [1, 2]), "fmt": "AP", "has_score": True},
            {"script": sc([1, 4], [1, 1], [1, 2]), "fmt": "dAP", "has_score": True},
            {"script": sc([1, 2]), "fmt": "AP", "has_score": False}]
    vals = [{"rej": True, "record": ["reward", "probability", "action"], "cpct": [1, 4], "cmax": [1, 1], "cinit": None, "seed": None, "learn": "on", "eval": "on"},
            {"rej": True, "record": ["context", "reward"], "cpct": [0, 1], "cmax": [1, 2], "cinit": [1, 2], "seed": 3, "learn": "on", "eval": "on"},
            {"record": ["reward", "action", "probability"], "learn": "on", "eval": "on", "seed": None}]
    runs = [{"cfg": [1, 0, 0], "how": "inproc", "sched": 0}, {"cfg": [2, 1, 2], "how": "sim", "sched": 5}, {"cfg": [1, 0, 3], "how": "inproc", "sched": 0},
            {"cfg": [2, 0, 0], "how": "real", "sched": 0}]
    c1 = {"kind": "seq", "seed": 7, "envs": envs, "lrns": lrns, "vals": vals, "mode": "product", "pe": [0, 1, 2, 3], "pl": [0, 1, 2], "pv": [0, 1, 2],
          "runs": runs, "rerun": True}
    big = log(103, 2, lambda i: 8 if i >= 100 else [2, 4][i % 2])
    c2 = {"kind": "seq", "seed": 2, "envs": [{"tag": 0, "inters": big, "batch": None, "fail": False}, {"tag": 1, "inters": big[:100], "batch": None, "fail": False, "pipe": "cache"}],
          "lrns": lrns[:2],
          "vals": [{"rej": True, "record": ["reward", "probability"], "cpct": [1, 2], "cmax": [1, 1], "cinit": None, "seed": None, "learn": "on", "eval": "on"},
                   {"rej": True, "record": ["reward"], "cpct": [1, 1], "cmax": [2, 1], "cinit": [0, 1], "seed": 5, "learn": "on", "eval": "on"}],
          "mode": "tuples", "triples": [[0, 0, 0], [1, 0, 0], [0, 1, 1], [1, 1, 0], [0, 0, 1]],
          "runs": runs[:3]}
    return [c1, c2]


def seq_directed_cases5():
    """phase 5 corpus: a PMF learner shared by two environments and two SequentialCB objects (own seed 3 / experiment seed), an
    info-writing learner, an ordinary one; a chunk()ed source fanned out into Head(2)/Head(4), a cache()d logged source"""
    def q(a, b):
        return {"f": [a, b]}
    sim = [[["context", i], ["actions", {"l": ["a", "b", "c"]}], ["rewards", {"l": [q(i % 3, 2), q(1, 4), 1]}]] for i in range(4)]
    log = [[["context", "c%d" % i], ["actions", {"l": [0, 1]}], ["rewards", {"l": [q(1, 2), q(i % 2, 1)]}],
            ["action", i % 2], ["reward", q(i, 4)], ["probability", q(1, 2)]] for i in range(5)]
    envs = [{"tag": 0, "inters": sim, "batch": None, "fail": False, "pipe": "chunk", "heads": [2, 4]},
            {"tag": 1, "inters": log, "batch": None, "fail": False, "pipe": "cache"},
            {"tag": 2, "inters": sim[:3], "batch": None, "fail": True, "pipe": "chunk_nocache"}]
    pm = lambda a, b, c: [[2, a], [3, b], [4, c]]
    lrns = [{"script": [{"idx": 0, "free": None, "p": [1, 2], "kw": {}, "s": [1, 2], "pm": pm([[1, 4], [3, 4]], [[1, 2], [1, 4], [1, 4]], [[1, 4]] * 4)},
                        {"idx": 1, "free": None, "p": [1, 4], "kw": {}, "s": [1, 4], "pm": pm([[1, 2], [1, 2]], [[0, 1], [1, 2], [1, 2]], [[1, 4]] * 4)}],
             "fmt": "pmf", "has_score": False},
            {"script": [{"idx": 1, "free": None, "p": [3, 4], "kw": {}, "s": [1, 4], "ip": [["info_p", 1]], "il": [["info_l", "l"], ["info_p", 2]]},
                        {"idx": 0, "free": None, "p": [1, 4], "kw": {}, "s": [1, 2], "ip": [["info_x", "x"]], "il": []}],
             "fmt": "AP", "has_score": True, "info": True},
            {"script": [{"idx": 2, "free": None, "p": [1, 1], "kw": {}, "s": [1, 2]}], "fmt": "AP", "has_score": False}]
    vals = [{"record": ["reward", "action", "probability"], "learn": "on", "eval": "on", "seed": None},
            {"record": ["reward", "action", "probability", "context"], "learn": "on", "eval": "on", "seed": 3},
            {"record": ["reward", "action"], "learn": "off", "eval": "on", "seed": 5}]
    base = {"kind": "seq", "seed": 2, "envs": envs, "lrns": lrns, "vals": vals}
    runs = [{"cfg": [1, 0, 0], "how": "inproc", "sched": 0}, {"cfg": [2, 1, 2], "how": "sim", "sched": 11}, {"cfg": [1, 0, 3], "how": "inproc", "sched": 0},
            {"cfg": [3, 0, 0], "how": "sim", "sched": 4}]
    # batched sources: first batch of exactly 2 rows (orientation probe for (a,p) answers), batch 3 over 5 / 2 rows, batch 1, un-batched
    benvs = [{"tag": 0, "inters": sim, "batch": 2, "fail": False, "pipe": "chunk"}, {"tag": 1, "inters": log, "batch": 3, "fail": False},
             {"tag": 2, "inters": sim[:2], "batch": 3, "fail": False, "pipe": "cache"}, {"tag": 3, "inters": sim[:3], "batch": 1, "fail": False},
             {"tag": 4, "inters": sim, "batch": None, "fail": False}]
    blrns = [{"script": [{"idx": 0, "free": None, "p": [1, 2], "kw": {}, "s": [1, 2]}, {"idx": 1, "free": None, "p": [1, 4], "kw": {}, "s": [1, 4]},
                         {"idx": 2, "free": None, "p": [1, 1], "kw": {}, "s": [1, 2]}], "fmt": "AP", "has_score": False},
             {"script": [{"idx": 1, "free": None, "p": [3, 4], "kw": {}, "s": [1, 4]}, {"idx": 0, "free": None, "p": [1, 4], "kw": {}, "s": [1, 2]}],
              "fmt": "dAP", "has_score": True}, lrns[0]]
    bbase = {"kind": "seq", "seed": 7, "envs": benvs, "lrns": blrns, "vals": vals}
    return [dict(base, mode="product", pe=[0, 1, 2, 3], pl=[0, 1, 2], pv=[0, 1, 2], runs=runs, rerun=True),
            dict(base, mode="tuples", triples=[[0, 0, 0], [1, 0, 1], [1, 0, 0], [2, 1, 0], [0, 0, 0], [2, 0, 2], [3, 2, 1], [1, 1, 1]],
                 runs=runs[:2] + [{"cfg": [2, 0, 0], "how": "real", "sched": 0}]),
            dict(bbase, mode="product", pe=[0, 1, 2, 3, 4], pl=[0, 1, 2], pv=[0, 2], runs=runs, rerun=True),
            dict(bbase, mode="tuples", triples=[[0, 0, 0], [4, 0, 0], [1, 0, 1], [2, 0, 0], [0, 1, 2], [3, 0, 2], [0, 2, 1], [0, 0, 0]],
                 runs=runs[:3] + [{"cfg": [3, 1, 1], "how": "real", "sched": 0}])]


# ------------------------------------------------------------------ observing the components (toy cases)
def observe(case):
    """what the abstract component functions of the model are for this case: a fresh construction is
    queried object by object (never through Experiment)."""
    from coba.safety import SafeEnvironment, SafeLearner, SafeEvaluator
    from coba.environments import Chunk
    from coba.utilities import peek_first
    saved = _ctx_get()
    try:
        from coba.context import NullLogger, NullCacher
        _ctx_set((NullLogger(), NullCacher(), {}, {}))
        b = build(case)
        tokens = {}
        envs = []
        for e in b.envs:
            fresh = copy.deepcopy(e)
            data, fails = [], False
            try:
                for it in fresh.read():
                    data.append(it["context"])
            except Exception:
                fails = True
            fresh = copy.deepcopy(e)
            try:
                peek_first(fresh.read())
            except Exception:
                pass
            try:
                params = json.dumps(_plain(dict(SafeEnvironment(fresh).params)), sort_keys=True)
            except Exception:
                params = None
            chunk = None
            try:
                for pipe in reversed(list(e)):
                    if isinstance(pipe, Chunk):
                        chunk = tokens.setdefault(id(pipe), len(tokens))
                        break
            except Exception:
                chunk = None
            envs.append({"data": data, "fails": fails, "params": params, "chunk": chunk})
        lrns = []
        for l, r in zip(b.lrns, case["lrns"]):
            try:
                params = json.dumps(_plain(dict(SafeLearner(l).params)), sort_keys=True)
            except Exception:
                params = None
            lrns.append({"mult": r.get("mult", 1), "fp": r.get("fp"), "fl": r.get("fl"), "params": params, "tag": r.get("tag", 0),
                         "info": bool(r.get("info")), "copyable": not r.get("nocopy")})
        vals = []
        for v, r in zip(b.vals, case["vals"]):
            try:
                params = json.dumps(_plain(dict(SafeEvaluator(copy.deepcopy(v)).params)), sort_keys=True)
            except Exception:
                params = None
            vals.append({"seed": r.get("seed"), "fail_at": r.get("fail_at"), "learn": bool(r.get("learn", True)), "params": params,
                         "skip_mult": r.get("skip_mult"), "mode": int(r.get("mode", 0))})
        return {"envs": envs, "lrns": lrns, "vals": vals, "triples": [list(t) for t in b.triples]}
    finally:
        _ctx_set(saved)


def real_chunks(case, mt):
    """task keys of the chunks the real MakeTasks + ChunkTasks produce for a fresh construction"""
    from coba.experiments.process import MakeTasks, ChunkTasks
    from coba.evaluators import SequentialCB
    b = build(case)
    triples = [(b.envs[e], b.lrns[l], b.vals[v] if v >= 0 else SequentialCB()) for e, l, v in b.triples]
    out = []
    for chunk in ChunkTasks(mt).filter(MakeTasks(triples).read()):
        keys = []
        for t in chunk:
            if t.env_id is not None and t.lrn_id is not None:
                keys.append(["I", t.env_id, t.lrn_id, t.val_id, bool(t.copy)])
            elif t.env_id is not None:
                keys.append(["E", t.env_id])
            elif t.lrn_id is not None:
                keys.append(["L", t.lrn_id])
            else:
                keys.append(["V", t.val_id])
        out.append(keys)
    return out


def model_chunk_keys(chunks):
    return [[(t[:4] + [t[7]]) if t[0] == "I" else t[:2] for t in ch] for ch in chunks]


def chunk_check(case, mt, model_chunks):
    """the real chunks are a partition of exactly the tasks the model's MakeTasks lists (ids, copy flags), none empty,
    none longer than maxtasksperchunk — the statement of `chunks_partition_tasks`, evaluated on the code"""
    real = real_chunks(case, mt)
    flat_r = sorted(json.dumps(k) for ch in real for k in ch)
    flat_m = sorted(json.dumps(k) for ch in model_chunk_keys(model_chunks) for k in ch)
    if flat_r != flat_m:
        return "tasks in the real chunks %s differ from the model's tasks %s" % (flat_r[:12], flat_m[:12])
    if any(len(ch) == 0 or (mt > 0 and len(ch) > mt) for ch in real):
        return "a real chunk is empty or longer than maxtasksperchunk=%d: sizes %s" % (mt, [len(ch) for ch in real])
    return None


def model_view(res):
    """impl Result in the shape the driver answers"""
    ints = []
    for key, rows in res["ints"]:
        for idx, row in rows:
            ints.append([key[0], key[1], key[2], idx, [row.get("x"), row.get("p"), row.get("n"), row.get("seed")] + ([row["li"]] if row.get("li") is not None else [])])
    exp = res["exp"]
    return {"exp": [exp.get("n_learners"), exp.get("n_environments"), exp.get("seed")] if exp else None,
            "envs": [[i, json.dumps(p, sort_keys=True)] for i, p in res["envs"]],
            "lrns": [[i, json.dumps(p, sort_keys=True)] for i, p in res["lrns"]],
            "vals": [[i, json.dumps(p, sort_keys=True)] for i, p in res["vals"]],
            "ints": ints}


def is_leaky(case):
    """a toy evaluator that flushes learning_info without clearing it first: the components are not process-local clean,
    so they are outside the quantifier of C01/C03 — only the model's prediction of the leak is checked"""
    return case["kind"] == "toy" and any(int(r.get("mode", 0)) == 2 for r in case["vals"])


def is_plain(case):
    """no phase-2 feature: the σ-free model of phase 1 must predict the same Result"""
    return (case["kind"] == "toy" and not any(r.get("info") or r.get("nocopy") for r in case["lrns"])
            and not any(int(r.get("mode", 0)) for r in case["vals"]))


def logged_exceptions(log):
    """exceptions of tasks (an error raised by a learner's finish() hook after its rows were recorded is not one)"""
    return len([m for m in markers(log) if not m.endswith(":finish")]) + sum("cannot pickle" in l for l in log)


def compare_with_model(driver, case, obs, run, o, label=""):
    """(A) the real run against `runPFrom` of the driver (process state, worker lifetimes, un-copyable learners) and,
    for plain cases, against the σ-free `run`; (C) model = spec whenever the isolation hypothesis holds"""
    fails = []
    picks = [Rng(run["sched"], "picks", i).below(97) for i in range(12)]
    if run.get("resume"):
        # (A) for a resumed run: `runResumedPFrom` (phase 4: process state, worker lifetimes, un-copyable learners; started in the
        # state the log-writing in-process run left behind) on the records that were kept in the log; plain cases also `runResumed`
        ans = driver.ask(dict(obs, seed=case["seed"], cfg=run["cfg"], picks=picks, assign=o.get("assign", []), old=old_for_model(o["old"])))
        mv = model_view(o["result"])
        for name in (("result", "resultP") if is_plain(case) else ("resultP",)):
            for part in ("exp", "envs", "lrns", "vals", "ints"):
                if mv[part] != ans["resumed"][name][part]:
                    fails.append(F("A", "%sresumed run, cfg %s (%s): table %s of the real Result %s differs from the model's (%s) %s" % (
                        label, run["cfg"], run["how"], part, json.dumps(mv[part])[:300], name, json.dumps(ans["resumed"][name][part])[:300]),
                        "A:resumed%s:%s" % ("P" if name == "resultP" else "", part)))
                    break
        if is_plain(case) and ans["resumed"]["result"] != ans["spec_plain"]:
            fails.append(F("C", "model: runResumed %s differs from resultS" % (run["cfg"],), "C:run_eq_spec_restored"))
        if ans["hyp"] and ans["resumed"]["resultP"] != ans["spec"]:
            fails.append(F("C", "model: runResumedPFrom %s differs from resultSP although the components are process-local clean" % (run["cfg"],),
                           "C:run_eq_spec_restored_process_state"))
        return fails, ans
    req = dict(obs, seed=case["seed"], cfg=run["cfg"], picks=picks, assign=o.get("assign", []))
    if run.get("pre"):
        req["pre"] = {"seed": run["pre"]["seed"], "cfg": run["pre"]["cfg"], "assign": o.get("pre_assign", []), "picks": []}
    ans = driver.ask(req)
    model = ans["model"]
    mv = model_view(o["result"])
    where = "%scfg %s (%s)" % (label, run["cfg"], run["how"])
    for part in ("exp", "envs", "lrns", "vals", "ints"):
        if mv[part] != model[part]:
            fails.append(F("A", "%s: table %s of the real Result %s differs from the model's %s" % (
                where, part, json.dumps(mv[part])[:300], json.dumps(model[part])[:300]), "A:" + part))
            break
    if is_plain(case) and ans["model_plain"] != model:
        fails.append(F("C", "%s: the σ-free model and the process-state model disagree on a plain case" % where, "C:plain"))
    if ans["hyp"] and ans["model"] != ans["spec"]:
        fails.append(F("C", "model: run %s differs from resultSP although the components are process-local clean" % (run["cfg"],), "C:run_eq_spec"))
    if is_plain(case) and ans["model_plain"] != ans["spec_plain"]:
        fails.append(F("C", "model: σ-free run %s differs from resultS" % (run["cfg"],), "C:run_eq_spec"))
    if logged_exceptions(o["log"]) != len(ans["log"]):
        fails.append(F("A", "%s: %d exceptions in the log, the model expects %d" % (where, logged_exceptions(o["log"]), len(ans["log"])), "A:log"))
    if o["lrn_states"] != ans["heap"]:
        fails.append(F("A", "%s: learner objects after run %s, model %s" % (where, o["lrn_states"], ans["heap"]), "A:heap"))
    return fails, ans


def diff_tables(a, b):
    """names of the parts in which two canonical results differ"""
    return [k for k in ("exp", "envs", "lrns", "vals", "ints") if json.dumps(a[k], sort_keys=True) != json.dumps(b[k], sort_keys=True)]


_CACHE_BUG = None


def cache_bug_present():
    """does `Cache` serve truncated data after a read that raised?  (finding F1; false once the fix is in)"""
    global _CACHE_BUG
    if _CACHE_BUG is None:
        from coba.pipes.filters import Cache

        def src():
            yield 1
            raise ValueError("x")
        c = Cache(25)
        outcomes = []
        for _ in range(2):
            try:
                list(c.filter(src()))
                outcomes.append("ok")
            except ValueError:
                outcomes.append("raised")
        _CACHE_BUG = outcomes != ["raised", "raised"]
    return _CACHE_BUG


def envs_with(case, pred):
    """indices of the environment objects whose recipe satisfies pred(recipe, ops)"""
    out, n = set(), 0
    for r in case["envs"]:
        cnt = n_objects(r)
        ops = [o[0] for o in r.get("prefix", [])] + [o[0] for br in r.get("branches", [[]]) for o in br]
        if pred(r, ops):
            out.update(range(n, n + cnt))
        n += cnt
    return out


def cached_failing_envs(case):
    if case["kind"] != "toy":
        return set()
    return envs_with(case, lambda r, ops: (not r.get("raw")) and r.get("fail_at") is not None and r["fail_at"] < len(r["xs"])
                     and ("cache" in ops or "chunk" in ops))


def logged_shuffled_envs(case):
    if case["kind"] != "builtin":
        return set()
    return envs_with(case, lambda r, ops: r.get("logged") and ("shuffle" in ops or "shuffle_seed" in ops))


def diff_only_in_envs(case, a, b, bad_envs):
    """two canonical results differ only in interaction rows of the given environment objects"""
    if diff_tables(a, b) != ["ints"] or not bad_envs:
        return False
    bld = build(case)
    obj_ids = {}
    for e, _, _ in bld.triples:
        obj_ids.setdefault(e, len(obj_ids))
    bad_ids = {obj_ids[e] for e in bad_envs if e in obj_ids}
    da = {tuple(k): v for k, v in a["ints"]}
    db = {tuple(k): v for k, v in b["ints"]}
    for k in set(da) | set(db):
        if da.get(k) != db.get(k) and k[0] not in bad_ids:
            return False
    return True


INFO_KEY = re.compile(r"^n_(score|pred|learn)\d+$")


def logged_envs(case):
    if case["kind"] != "builtin":
        return set()
    return envs_with(case, lambda r, ops: bool(r.get("logged")))


def has_info_learner(case):
    return case["kind"] == "builtin" and any(r.get("type") == "info" for r in case["lrns"])


def strip_info(rows):
    """interaction rows without the columns that come from CobaContext.learning_info"""
    return [[i, {k: v for k, v in row.items() if not INFO_KEY.match(k)}] for i, row in rows]


def known_sig(case, a, b):
    """narrow signatures of the recorded findings (None when the difference is something else)"""
    if diff_only_in_envs(case, a, b, cached_failing_envs(case)):
        return "cache-after-failed-read"
    # finding F3: a `logged` environment absorbs learning_info left behind by an earlier evaluation of the same process
    if has_info_learner(case) and diff_only_in_envs(case, a, b, logged_envs(case)):
        sa = [[k, strip_info(rows)] for k, rows in a["ints"]]
        sb = [[k, strip_info(rows)] for k, rows in b["ints"]]
        if json.dumps(sa, sort_keys=True) == json.dumps(sb, sort_keys=True):
            return "logged-env-learning-info"
    return None


# ------------------------------------------------------------------ generators (shared with C03)
def gen_ops(rng, allow_fanout=True):
    prefix, branches = [], [[]]
    r = rng.below(100)
    if r < 25:
        pass
    elif r < 40:
        prefix = [["chunk"]]
    elif r < 50:
        prefix = [["cache"]]
    elif r < 57:
        prefix = [["chunk_nocache"]]
    elif r < 75 and allow_fanout:
        prefix = [rng.choice([["chunk"], ["cache"], ["chunk_nocache"]])]
        branches = [[["shuffle", rng.choice([2, 2, 3])]]]
    elif r < 83 and allow_fanout:
        branches = [[["shuffle", 2], ["chunk"]]]
    elif r < 92 and allow_fanout:
        prefix = [["chunk"]]
        branches = [[["take", rng.randint(1, 4)]], [["shuffle_seed", rng.randint(0, 5)]]]
    else:
        prefix = [["take", rng.randint(0, 5)]]
    return prefix, branches


def n_objects(recipe):
    if recipe.get("raw"):
        return 1
    return _n_branch_objects(recipe) * max(1, len(recipe.get("log_policy") or [1]) if recipe.get("logged") else 1)


def _n_branch_objects(recipe):
    n = 0
    for br in recipe.get("branches", [[]]):
        k = 1
        for op in recipe.get("prefix", []) + br:
            if op[0] == "shuffle":
                k *= op[1]
            if op[0] in ("noise", "reservoir") and isinstance(op[2], list):
                k *= len(op[2])
        n += k
    return n


def gen_cfg(rng):
    return [rng.choice([1, 1, 2, 2, 3, 4]), rng.choice([0, 0, 1, 2, 3]), rng.choice([0, 0, 1, 1, 2, 3, 5])]


def gen_runs(rng, tier, real_p, n_alt, seed=1):
    runs = [{"cfg": [1, 0, 0], "how": "inproc", "sched": 0}]
    for _ in range(n_alt):
        cfg = gen_cfg(rng)
        multi = cfg[0] > 1 or cfg[1] != 0
        how = "inproc" if not multi else ("real" if rng.chance(real_p) else "sim")
        run = {"cfg": cfg, "how": how, "sched": rng.randint(0, 10 ** 6)}
        if rng.chance(0.12):
            # interrupted and resumed: a first run into a result file, part of the record lines kept, a second run under this cfg
            run["resume"] = {"drop": rng.randint(0, 10 ** 6), "keep": rng.choice([0.3, 0.5, 0.5, 0.8])}
            if run["how"] == "real":
                run["how"] = "sim"
        elif rng.chance(0.22):
            # a session: the same recipe was already run once in this process, with another seed (and configuration)
            pcfg = list(cfg) if rng.chance(0.6) else gen_cfg(rng)
            pmulti = pcfg[0] > 1 or pcfg[1] != 0
            run["pre"] = {"seed": seed + rng.randint(1, 5), "cfg": pcfg, "sched": rng.randint(0, 10 ** 6),
                          "how": "inproc" if not pmulti else ("real" if how == "real" else "sim")}
        runs.append(run)
    return runs


def add_run_opts(rng, case, p_quiet=0.3, p_indent=0.2):
    """execution parameters of run() besides processes / maxchunksperchild / maxtasksperchunk: quiet=True and the kind of
    logger the caller installed (drawn after the recipe, so the recipe stream of a seed is unchanged)"""
    for k, run in enumerate(case["runs"]):
        if run.get("resume"):
            continue
        if rng.chance(p_quiet):
            run["quiet"] = True
        if rng.chance(p_indent):
            run["logger"] = "indent"
    return case


def tame_real_runs(case):
    """really spawned workers cost about half a second each: keep the number of processes a real run has to start small
    (a worker is replaced after maxchunksperchild chunks, and without chunk() every task is a chunk of its own)"""
    if case["mode"] == "product":
        n = len(case["pe"]) * len(case["pl"]) * len(case["pv"]) + len(case["pe"]) + len(case["pl"]) + len(case["pv"])
    else:
        n = 4 * len(case["triples"])
    for run in case["runs"]:
        for r in (run, run.get("pre") or {}):
            if r.get("how") == "real" and r["cfg"][1] > 0 and n / r["cfg"][1] > 6:
                r["cfg"] = [r["cfg"][0], (n + 5) // 6, r["cfg"][2]]
    return case


def gen_toy(rng, tier, real_p=0.03, fail_bias=1.0, share_bias=1.0):
    envs = []
    for t in range(rng.choice([1, 1, 2, 2, 3])):
        long_ = rng.chance(0.08)
        n = rng.randint(26, 30) if long_ else rng.choice([0, 1, 2, 3, 3, 4, 5, 6])
        xs = [rng.randint(0, 9) for _ in range(n)]
        r = {"tag": t, "xs": xs, "fail_at": None, "params_fail": False, "raw": False}
        if rng.chance(0.16 * fail_bias):
            r["fail_at"] = rng.randint(0, max(0, n - 1)) if not long_ else rng.choice([0, 3, 24, 25, 26, n - 1])
        if rng.chance(0.3):
            r["raw"] = True
            if rng.chance(0.12 * fail_bias):
                r["params_fail"] = True
        else:
            r["prefix"], r["branches"] = gen_ops(rng)
        envs.append(r)
    lrns = []
    for t in range(rng.choice([1, 2, 2, 3])):
        r = {"tag": t, "mult": rng.randint(1, 3), "fp": None, "fl": None, "params_fail": False}
        if rng.chance(0.10 * fail_bias):
            r["fp"] = rng.randint(0, 3)
        if rng.chance(0.10 * fail_bias):
            r["fl"] = rng.randint(0, 3)
        if rng.chance(0.05 * fail_bias):
            r["params_fail"] = True
        if rng.chance(0.25):
            r["finish"] = rng.choice(["mark", "mark", "raise", "lazy"])     # a finish() hook (called on the evaluated copy)
        if rng.chance(0.3):
            r["info"] = True          # reports through the process-global CobaContext.learning_info
        lrns.append(r)
    vals = []
    for t in range(rng.choice([1, 1, 2, 3])):
        r = {"tag": t, "seed": rng.choice([None, None, 0, 3, 11]), "fail_at": None, "learn": not rng.chance(0.15), "params_fail": rng.chance(0.05)}
        if rng.chance(0.10 * fail_bias):
            r["fail_at"] = rng.randint(0, 3)
        r["mode"] = rng.choice([0, 0, 0, 1, 1, 1, 1, 2])      # how the evaluator treats learning_info (2 = not process-local clean)
        if rng.chance(0.25):
            # this evaluator legitimately yields no rows for the learners with that mult (often an early learner)
            r["skip_mult"] = lrns[rng.below(max(1, len(lrns) - 1))]["mult"] if rng.chance(0.8) else rng.randint(1, 3)
        vals.append(r)
    ne = sum(n_objects(r) for r in envs)
    nl, nv = len(lrns), len(vals)
    case = {"kind": "toy", "seed": rng.choice([1, 1, 2, 7, 0, 12345]), "envs": envs, "lrns": lrns, "vals": vals}
    if rng.chance(0.55):
        case["mode"] = "product"
        case["pe"] = rng.shuffle(list(range(ne))) if rng.chance(0.5) else list(range(ne))
        case["pl"] = list(range(nl))
        case["pv"] = list(range(nv))
        if rng.chance(0.1 * share_bias):
            case["pl"] = case["pl"] + [rng.below(nl)]          # the same learner object listed twice
        if rng.chance(0.06 * share_bias):
            case["pe"] = case["pe"] + [rng.below(ne)]
        if nv == 1 and rng.chance(0.5):
            case["single_eval"] = True
    else:
        case["mode"] = "tuples"
        k = rng.choice([1, 2, 3, 4, 5, 6, 8])
        case["triples"] = [[rng.below(ne), rng.below(nl), rng.below(nv)] for _ in range(k)]
        if rng.chance(0.25 * share_bias) and k > 1:
            case["triples"].append(list(rng.choice(case["triples"])))   # a duplicated triple
    case["runs"] = gen_runs(rng, tier, real_p, rng.choice([1, 2, 2, 3]), case["seed"])
    if rng.chance(0.07):
        # a learner object that cannot be copied (nor pickled): in-process configurations only
        lrns[rng.below(len(lrns))]["nocopy"] = True
        case["runs"] = [{"cfg": [1, 0, 0], "how": "inproc", "sched": 0}] + [
            {"cfg": [1, 0, rng.choice([1, 2, 3])], "how": "inproc", "sched": 0} for _ in range(rng.choice([1, 2]))]
    if is_leaky(case):
        # with a leaky evaluator two records for one key differ, the winner would depend on the interleaving: no duplicates
        for name in ("triples", "pe", "pl", "pv"):
            if name in case:
                case[name] = [x for k, x in enumerate(case[name]) if x not in case[name][:k]]
        for run in case["runs"]:
            if run["how"] == "real":
                run["how"] = "sim"
            if (run.get("pre") or {}).get("how") == "real":
                run["pre"]["how"] = "sim"
    if rng.chance(0.35):
        case["rerun"] = True
    return tame_real_runs(case)


def gen_seeded_filter(rng):
    """a built-in environment filter whose (non-default) arguments have to survive pickling / deep copies"""
    k = rng.below(10)
    if k < 4:
        seeds = rng.choice([[5, 6], [3], 7, 9, [2, 8]])
        return ["noise", rng.choice(["reward", "reward", "context"]), seeds]
    if k < 5:
        return ["riffle", rng.randint(2, 4), rng.randint(2, 9)]
    if k < 7:
        return ["reservoir", rng.randint(3, 8), rng.choice([4, [2, 5], 7])]
    if k < 8:
        return ["scale"]
    if k < 9:
        return ["slice", rng.randint(0, 2), rng.randint(4, 10)]
    return rng.choice([["binary"], ["cycle", rng.randint(1, 4)], ["materialize"]])


def gen_builtin_ops(rng):
    prefix, branches = gen_ops(rng)
    if rng.chance(0.45):
        f = gen_seeded_filter(rng)
        if rng.chance(0.5):
            prefix = [f] + prefix            # in front of chunk()/cache(): shared by the whole fan-out
        else:
            branches = [[f] + list(br) for br in branches]
    r = rng.below(100)
    if r < 22:
        # the same source un-batched and batched in one experiment (learners that are not batch aware need coba's fallback)
        branches = [list(br) for br in branches] + [list(branches[0]) + [["batch", rng.choice([2, 3])]]]
    elif r < 28:
        branches = [list(br) + [["batch", 2]] for br in branches]
    return prefix, branches


def gen_builtin(rng, tier, real_p=0.03):
    envs = []
    any_logged = False
    for t in range(rng.choice([1, 1, 2])):
        r = {"src": rng.choice(["linear", "linear", "linear", "neighbors", "kernel", "mlp"]), "n": rng.choice([4, 8, 12, 30]),
             "na": rng.choice([2, 3, 4]), "seed": rng.randint(1, 5)}
        if rng.chance(0.45):
            r["logged"] = True
            r["log_seed"] = rng.randint(1, 4)
            if rng.chance(0.5):
                r["logged_seed"] = rng.choice([2.5, 7, 0.5])
            if rng.chance(0.55):
                # logging policies with different propensities (one logged environment per policy)
                pols = [["random", rng.randint(1, 4)], ["fixed", rng.below(3), rng.randint(1, 4)], ["fixed", rng.below(3), rng.randint(1, 4)],
                        ["eps", rng.choice([0.1, 0.3]), rng.randint(1, 4)]]
                r["log_policy"] = rng.sample(pols, rng.choice([1, 2, 2, 3]))
            any_logged = True
        r["prefix"], r["branches"] = gen_builtin_ops(rng)
        envs.append(r)
    na = envs[0]["na"]
    for r in envs:
        r["na"] = na
    if rng.chance(0.22):
        # string-labelled in-memory classification data, materialized so that interactions and reward objects travel pickled
        k = na if rng.chance(0.5) else rng.choice([1, 2, 2, 2])      # two-class (and one-class) label sets on purpose
        start = rng.below(len(AWKWARD_LABELS))
        sup = {"src": "supervised", "n": rng.choice([8, 12, 20]), "na": k, "seed": rng.randint(1, 9), "categorical": rng.chance(0.6),
               "labels": [(start + 3 * j) % len(AWKWARD_LABELS) for j in range(k)],
               "prefix": rng.choice([[["materialize"]], [["shuffle_seed", 3], ["materialize"]], [["materialize"], ["chunk"]], []]),
               "branches": rng.choice([[[]], [[["shuffle", 2], ["materialize"]]], [[["materialize"]]]])}
        if len({AWKWARD_LABELS[i] for i in sup["labels"]}) == k:
            envs[rng.below(len(envs))] = sup
            any_logged = any(r.get("logged") for r in envs)
    lrns = []
    for t in range(rng.choice([1, 2, 2, 3, 3])):
        k = rng.below(12)
        if k == 0:
            lrns.append({"type": "eps", "eps": rng.choice([0.05, 0.1, 0.5]), "seed": rng.randint(1, 4)})
        elif k == 1:
            lrns.append({"type": "ucb", "seed": rng.randint(1, 4)})
        elif k == 2:
            lrns.append({"type": "random", "seed": rng.randint(1, 4)})
        elif k == 3:
            lrns.append({"type": "fixed", "pmf": [1.0 / na] * na, "seed": rng.randint(1, 4)})
        elif k == 4:
            lrns.append({"type": "pmf", "tag": t})
        elif k == 5:
            lrns.append({"type": "kwargs", "tag": t})
        elif k < 9:
            # reports through CobaContext.learning_info; sometimes raises in learn after predict wrote its info
            where = rng.choice([["score", "predict", "learn"], ["predict"], ["score"], ["predict", "learn"]])
            lrns.append({"type": "info", "tag": t, "where": where, "fail_learn_at": rng.choice([None, None, 0, 1, 3])})
        elif k < 10:
            lrns.append({"type": "policy", "tag": t, "p": rng.choice([0.0, 0.0, 1.0 / na, 0.5])})
        elif k < 11:
            # one class, instances with and without `score` (usually a pair, in either order)
            first = rng.chance(0.5)
            lrns.append({"type": "maybe", "tag": t, "can_score": first})
            if rng.chance(0.7):
                lrns.append({"type": "maybe", "tag": t + 10, "can_score": not first})
        else:
            lrns.append({"type": "row", "tag": t})
    vals = []
    for t in range(rng.choice([1, 2, 2, 3])):
        k = rng.below(10)
        if k < 3:
            rec = rng.choice([["reward", "action", "probability"], ["reward", "time"], ["reward", "action", "context", "time"], ["reward"]])
            vals.append({"type": "seq", "record": rec, "seed": rng.choice([None, None, 5]), "learn": "on", "eval": "on"})
        elif k < 6 and any_logged:
            # off-policy evaluation: whether the learner has `score` decides how the ips reward is computed
            vals.append({"type": "seq", "record": ["reward"], "seed": rng.choice([None, 2]), "learn": rng.choice([None, None, "off", "ips"]), "eval": "ips"})
        elif k < 8 and any_logged:
            vals.append({"type": "rej", "record": rng.choice([["reward", "time"], ["reward", "action"], ["reward"]]), "seed": rng.choice([None, 3, 3, 4])})
        elif k < 9:
            vals.append({"type": "fn"})
        else:
            vals.append({"type": "seq", "record": ["reward", "action"], "seed": None, "learn": "on", "eval": "on"})
    ne = sum(n_objects(r) for r in envs)
    nl, nv = len(lrns), len(vals)
    case = {"kind": "builtin", "seed": rng.choice([1, 1, 2, 7, 0, 0]), "envs": envs, "lrns": lrns, "vals": vals}
    if rng.chance(0.55):
        case["mode"] = "product"
        case["pe"], case["pl"], case["pv"] = list(range(ne)), list(range(nl)), list(range(nv))
        if nv == 1 and rng.chance(0.5):
            case["single_eval"] = True
    else:
        case["mode"] = "tuples"
        case["triples"] = [[rng.below(ne), rng.below(nl), rng.choice([-1] + list(range(nv)) * 3)] for _ in range(rng.choice([1, 2, 3, 4, 6]))]
    case["runs"] = gen_runs(rng, tier, real_p, rng.choice([1, 2]), case["seed"])
    if rng.chance(0.12):
        # a learner that can be used but not copied (it holds a generator): only in-process configurations make sense,
        # its triples fail (logged) when it is listed more than once, everybody else must be unaffected
        lrns.append({"type": "nocopy", "tag": len(lrns)})
        if case["mode"] == "product":
            case["pl"] = case["pl"] + [len(lrns) - 1]
        else:
            case["triples"] += [[rng.below(ne), len(lrns) - 1, rng.choice([-1] + list(range(nv)))] for _ in range(rng.choice([1, 2, 2]))]
        case["runs"] = [{"cfg": [1, 0, 0], "how": "inproc", "sched": 0}] + [
            {"cfg": [1, 0, rng.choice([1, 2, 3])], "how": "inproc", "sched": 0} for _ in range(rng.choice([1, 2]))]
    if rng.chance(0.3):
        case["rerun"] = True
    return tame_real_runs(case)


def shrink_case(case):
    """smaller variants of a case (shared with C03)"""
    runs = case.get("runs", [])
    for k in range(1, len(runs)):
        yield dict(case, runs=runs[:k] + runs[k + 1:])
    for k in range(1, len(runs)):
        if runs[k]["how"] == "real":
            yield dict(case, runs=runs[:k] + [dict(runs[k], how="sim")] + runs[k + 1:])
        c = runs[k]["cfg"]
        for j in range(3):
            lo = 1 if j == 0 else 0
            if c[j] > lo:
                c2 = list(c)
                c2[j] -= 1
                yield dict(case, runs=runs[:k] + [dict(runs[k], cfg=c2)] + runs[k + 1:])
    for k in range(1, len(runs)):
        if runs[k].get("resume"):
            yield dict(case, runs=runs[:k] + [{a: b for a, b in runs[k].items() if a != "resume"}] + runs[k + 1:])
    for k in range(1, len(runs)):
        if runs[k].get("pre"):
            yield dict(case, runs=runs[:k] + [{a: b for a, b in runs[k].items() if a != "pre"}] + runs[k + 1:])
    if case.get("rerun"):
        yield {k: v for k, v in case.items() if k != "rerun"}
    if case["mode"] == "tuples":
        ts = case["triples"]
        for k in range(len(ts)):
            if len(ts) > 1:
                yield dict(case, triples=ts[:k] + ts[k + 1:])
    else:
        for name in ("pe", "pl", "pv"):
            xs = case[name]
            for k in range(len(xs)):
                if len(xs) > 1:
                    yield dict(case, **{name: xs[:k] + xs[k + 1:]})
    for name in ("envs", "lrns", "vals"):
        xs = case[name]
        for k in range(len(xs)):
            r = xs[k]
            for fld in ("fail_at", "fp", "fl", "skip_mult", "fail_learn_at", "finish", "logged_seed"):
                if r.get(fld) is not None:
                    yield dict(case, **{name: xs[:k] + [dict(r, **{fld: None})] + xs[k + 1:]})
            for fld in ("params_fail", "info", "nocopy"):
                if r.get(fld):
                    yield dict(case, **{name: xs[:k] + [dict(r, **{fld: False})] + xs[k + 1:]})
            if name == "envs" and case["kind"] == "toy":
                if len(r["xs"]) > 0:
                    yield dict(case, envs=xs[:k] + [dict(r, xs=r["xs"][:-1])] + xs[k + 1:])
                if r.get("fail_at"):
                    yield dict(case, envs=xs[:k] + [dict(r, fail_at=r["fail_at"] - 1)] + xs[k + 1:])
            if name == "envs" and (r.get("prefix") or r.get("branches", [[]]) != [[]]):
                if r.get("prefix"):
                    yield dict(case, envs=xs[:k] + [dict(r, prefix=r["prefix"][:-1])] + xs[k + 1:])
                brs = r.get("branches", [[]])
                if len(brs) > 1:
                    yield dict(case, envs=xs[:k] + [dict(r, branches=brs[:-1])] + xs[k + 1:])
                elif brs[0]:
                    yield dict(case, envs=xs[:k] + [dict(r, branches=[brs[0][:-1]])] + xs[k + 1:])


def feature_tags(case):
    """what the follow-up round added to the generators, for the input-distribution histogram"""
    tags = []
    if case["kind"] == "builtin":
        tags += sorted({"lrn:" + r["type"] for r in case["lrns"]})
        tags += sorted({"val:" + r["type"] for r in case["vals"]})
        if any(r.get("type") == "info" and r.get("fail_learn_at") is not None for r in case["lrns"]):
            tags.append("lrn:info-then-raises")
        if any(r.get("logged") for r in case["envs"]):
            tags.append("env:logged")
        if any(r.get("src") == "supervised" for r in case["envs"]):
            tags.append("env:supervised-string-labels")
    else:
        if any(r.get("skip_mult") is not None for r in case["vals"]):
            tags.append("val:rowless-for-some-learner")
        if any(r.get("info") for r in case["lrns"]):
            tags.append("toy:learner-writes-learning_info")
        for m in sorted({int(r.get("mode", 0)) for r in case["vals"]}):
            tags.append("toy:eval-info-mode-%d" % m)
        if any(r.get("nocopy") for r in case["lrns"]):
            tags.append("toy:uncopyable-learner")
        for k in sorted({r["finish"] for r in case["lrns"] if r.get("finish")}):
            tags.append("toy:finish-" + k)
    return tags


def snippet_for(case, prop):
    return ("import sys, json; sys.path[:0] = ['/repo', '/verif/harness']\n"
            "from props.c01 import run_iso\n"
            "case = json.loads(%r)\n"
            "if __name__ == '__main__':\n"
            "    for run in case['runs']:\n"
            "        out = run_iso(case, run['cfg'], run['how'], run['sched'])      # each run in a forked child of this process\n"
            "        print(run, json.dumps(out['result'], sort_keys=True)[:2000])\n"
            "        print('   exceptions logged:', [l for l in out['log'] if 'TOYFAIL' in l or 'xception' in l][:5])\n" % json.dumps(case))


# ------------------------------------------------------------------ the property
MAX_RUNS = 5          # configurations per case
CASE_BUDGET = 30      # seconds after which no further run of a case is started



# ------------------------------------------------------------------ translator: small predicates of the source -> Lean
class _NoTranslation(Exception):
    pass


def _py_to_lean(node, names):
    """a Python boolean expression over integer variables (comparisons, and / or / not, int literals; `self._x` / `x[...]`
    read as variables) as a Lean `Bool` term; `names` maps a source identifier to the Lean parameter"""
    import ast
    if isinstance(node, ast.BoolOp):
        op = " || " if isinstance(node.op, ast.Or) else " && "
        return "(" + op.join(_py_to_lean(v, names) for v in node.values) + ")"
    if isinstance(node, ast.UnaryOp) and isinstance(node.op, ast.Not):
        return "(!" + _py_to_lean(node.operand, names) + ")"
    if isinstance(node, ast.Compare) and len(node.ops) == 1:
        ops = {ast.Gt: ">", ast.Lt: "<", ast.GtE: "≥", ast.LtE: "≤", ast.Eq: "=", ast.NotEq: "≠"}
        if type(node.ops[0]) not in ops:
            raise _NoTranslation(ast.dump(node))
        return "decide (%s %s %s)" % (_py_to_lean(node.left, names), ops[type(node.ops[0])], _py_to_lean(node.comparators[0], names))
    if isinstance(node, ast.Constant) and isinstance(node.value, int) and not isinstance(node.value, bool) and node.value >= 0:
        return str(node.value)
    if isinstance(node, ast.Name) and node.id in names:
        return names[node.id]
    if isinstance(node, ast.Attribute) and node.attr in names:
        return names[node.attr]
    if isinstance(node, ast.Subscript) and isinstance(node.value, ast.Name) and node.value.id in names:
        return names[node.value.id]
    raise _NoTranslation(ast.dump(node)[:80])


def extract_config_predicates(repo):
    """(lean definitions, notes): `is_multiproc` of Experiment.run, the in-process test of CobaMultiprocessor.filter and the
    `copy=` argument of the evaluation Task in MakeTasks.read, read from the CURRENT source with `ast`"""
    import ast
    defs, notes = {}, []

    def src(*parts):
        return ast.parse(open(os.path.join(repo, "coba", *parts), encoding="utf-8").read())
    # 1. is_multiproc = mp > 1 or mc != 0
    try:
        node = next(n for n in ast.walk(src("experiments", "core.py")) if isinstance(n, ast.Assign)
                    and any(isinstance(t, ast.Name) and t.id == "is_multiproc" for t in n.targets))
        defs["isMultiproc"] = _py_to_lean(node.value, {"mp": "mp", "mc": "mc"})
    except (StopIteration, _NoTranslation, OSError, SyntaxError) as e:
        notes.append("is_multiproc not extracted: %r" % (e,))
    # 2. if self._maxtasksperchild == 0 and self._processes == 1: (run in this process)
    try:
        cls = next(n for n in ast.walk(src("multiprocessing.py")) if isinstance(n, ast.ClassDef) and n.name == "CobaMultiprocessor")
        fn = next(n for n in cls.body if isinstance(n, ast.FunctionDef) and n.name == "filter")
        test = next(n.test for n in ast.walk(fn) if isinstance(n, ast.If) and "_maxtasksperchild" in ast.dump(n.test))
        defs["inProcess"] = _py_to_lean(test, {"_processes": "mp", "_maxtasksperchild": "mc"})
    except (StopIteration, _NoTranslation, OSError, SyntaxError) as e:
        notes.append("in-process test not extracted: %r" % (e,))
    # 3. Task((eid,env),(lid,lrn),(vid,val),copy=learner_counts[lrn]>1)
    try:
        cls = next(n for n in ast.walk(src("experiments", "process.py")) if isinstance(n, ast.ClassDef) and n.name == "MakeTasks")
        call = next(n for n in ast.walk(cls) if isinstance(n, ast.Call) and isinstance(n.func, ast.Name) and n.func.id == "Task"
                    and any(k.arg == "copy" for k in n.keywords))
        kw = next(k for k in call.keywords if k.arg == "copy")
        counter = kw.value.left.value.id if isinstance(kw.value, ast.Compare) and isinstance(kw.value.left, ast.Subscript) and isinstance(kw.value.left.value, ast.Name) else None
        defs["copyFlag"] = _py_to_lean(kw.value, {counter: "count"})
        # the counter must count the learner objects of the triple list: Counter([l for _,l,_ in self._triples])
        cnt = next(n for n in ast.walk(cls) if isinstance(n, ast.Assign) and any(isinstance(t, ast.Name) and t.id == counter for t in n.targets))
        comp = cnt.value.args[0]
        ok = (isinstance(cnt.value, ast.Call) and getattr(cnt.value.func, "id", "") == "Counter" and isinstance(comp, (ast.ListComp, ast.GeneratorExp))
              and isinstance(comp.elt, ast.Name) and isinstance(comp.generators[0].target, ast.Tuple)
              and [getattr(e, "id", None) for e in comp.generators[0].target.elts].index(comp.elt.id) == 1 and not comp.generators[0].ifs)
        defs["copyCountsLearners"] = "true" if ok else "false"
    except (StopIteration, _NoTranslation, OSError, SyntaxError, AttributeError, IndexError, ValueError, KeyError) as e:
        notes.append("copy flag not extracted: %r" % (e,))
    return defs, notes


def write_generated_config(repo):
    from core import lean
    defs, notes = extract_config_predicates(repo)
    fallback = {"isMultiproc": "(decide (mp > 1) || decide (mc ≠ 0))", "inProcess": "(decide (mc = 0) && decide (mp = 1))",
                "copyFlag": "decide (count > 1)", "copyCountsLearners": "true"}
    extracted = all(k in defs for k in fallback)
    d = dict(fallback, **defs)
    body = ("-- GENERATED by harness/props/c01.py from coba/experiments/core.py, coba/multiprocessing.py and coba/experiments/process.py\n"
            "-- on every run (Python `ast`); do not edit.  Props/C01.lean proves that the model's `Cfg.multi` and `copy` flag are these.\n"
            "namespace Coba.Generated.C01\n"
            "/-- `is_multiproc` of Experiment.run -/\ndef isMultiproc (mp mc : Nat) : Bool := %s\n"
            "/-- the test under which CobaMultiprocessor.filter runs the filter in the calling process -/\ndef inProcess (mp mc : Nat) : Bool := %s\n"
            "/-- `copy=` of the evaluation Task in MakeTasks.read, as a function of the Counter entry -/\ndef copyFlag (count : Nat) : Bool := %s\n"
            "/-- the Counter counts the learner objects (middle components) of all listed triples -/\ndef copyCountsLearners : Bool := %s\n"
            "def extracted : Bool := %s\nend Coba.Generated.C01\n" % (d["isMultiproc"], d["inProcess"], d["copyFlag"], d["copyCountsLearners"], "true" if extracted else "false"))
    path = os.path.join(lean.LEAN_DIR, "CobaVerif", "Generated", "C01Config.lean")
    old = open(path, encoding="utf-8").read() if os.path.exists(path) else None
    if old != body:
        os.makedirs(os.path.dirname(path), exist_ok=True)
        with open(path, "w", encoding="utf-8") as f:
            f.write(body)
    return notes + ["C01Config: isMultiproc := %s; inProcess := %s; copyFlag := %s; extracted=%s" % (d["isMultiproc"], d["inProcess"], d["copyFlag"], extracted)]


def extract_seed_exprs(repo):
    """phase 5 translator: the expressions that choose the seed of `SafeLearner` (and of RejectionCB's own generator) in
    coba/evaluators/sequential.py, as Lean terms `Option Nat` over `own : Option Nat` (the evaluator's `_seed`) and `exp : Nat`
    (`CobaContext.store['experiment_seed']`, present during every Experiment.run).  Returns ({name: term}, notes)."""
    import ast
    defs, notes = {}, []

    def is_own(n):
        return isinstance(n, ast.Attribute) and n.attr == "_seed" and isinstance(n.value, ast.Name) and n.value.id == "self"

    def is_store_get(n):
        return (isinstance(n, ast.Call) and isinstance(n.func, ast.Attribute) and n.func.attr == "get" and n.args and not n.keywords
                and isinstance(n.args[0], ast.Constant) and n.args[0].value == "experiment_seed"
                and isinstance(n.func.value, ast.Attribute) and n.func.value.attr == "store")

    def tr(n):
        if is_own(n):
            return "own"
        if is_store_get(n):
            return "(some exp)"             # with or without a default: the store holds the experiment seed during a run
        if isinstance(n, ast.Constant) and n.value is None:
            return "none"
        if isinstance(n, ast.Constant) and isinstance(n.value, int) and not isinstance(n.value, bool) and n.value >= 0:
            return "(some %d)" % n.value
        if isinstance(n, ast.IfExp):
            t = n.test
            if isinstance(t, ast.Compare) and len(t.ops) == 1 and isinstance(t.comparators[0], ast.Constant) and t.comparators[0].value is None:
                if isinstance(t.ops[0], ast.IsNot):
                    return "(match %s with | some _ => %s | none => %s)" % (tr(t.left), tr(n.body), tr(n.orelse))
                if isinstance(t.ops[0], ast.Is):
                    return "(match %s with | some _ => %s | none => %s)" % (tr(t.left), tr(n.orelse), tr(n.body))
            # a truthiness test: None and 0 are falsy
            return "(match %s with | some 0 => %s | some _ => %s | none => %s)" % (tr(t), tr(n.orelse), tr(n.body), tr(n.orelse))
        if isinstance(n, ast.BoolOp) and isinstance(n.op, ast.Or) and len(n.values) == 2:
            return "(match %s with | some 0 => %s | some s => some s | none => %s)" % (tr(n.values[0]), tr(n.values[1]), tr(n.values[1]))
        raise ValueError("seed expression not understood: " + ast.dump(n)[:120])

    try:
        with open(os.path.join(repo, "coba", "evaluators", "sequential.py"), encoding="utf-8") as f:
            tree = ast.parse(f.read())
        cls = {c.name: c for c in tree.body if isinstance(c, ast.ClassDef)}

        def evaluate_of(name):
            return next(f for f in cls[name].body if isinstance(f, ast.FunctionDef) and f.name == "evaluate")
        ev = evaluate_of("SequentialCB")
        binds = {}
        for node in ast.walk(ev):
            if isinstance(node, ast.Assign) and len(node.targets) == 1 and isinstance(node.targets[0], ast.Name) and node.targets[0].id == "seed":
                binds["seed"] = node.value

        def arg_of(fn, callee, idx):
            for node in ast.walk(fn):
                if isinstance(node, ast.Call) and isinstance(node.func, ast.Name) and node.func.id == callee and len(node.args) > idx:
                    a = node.args[idx]
                    return binds.get(a.id, a) if isinstance(a, ast.Name) and fn is ev else a
            raise ValueError("no call of %s" % callee)
        defs["seqSeed"] = tr(arg_of(ev, "SafeLearner", 1))
        rj = evaluate_of("RejectionCB")
        defs["rejLearnerSeed"] = tr(arg_of(rj, "SafeLearner", 1))
        defs["rejRngSeed"] = tr(arg_of(rj, "CobaRandom", 0))
    except Exception as e:          # source reshaped beyond what is read here: no alarm, the model's own definitions are emitted
        notes.append("C01Seeds: extraction failed (%s)" % (e,))
        defs = {}
    return defs, notes


def write_generated_seeds(repo):
    from core import lean
    defs, notes = extract_seed_exprs(repo)
    fb = "(match own with | some _ => own | none => (some exp))"
    fallback = {"seqSeed": fb, "rejLearnerSeed": fb, "rejRngSeed": fb}
    extracted = all(k in defs for k in fallback)
    d = dict(fallback, **defs) if extracted else fallback
    body = ("-- GENERATED by harness/props/c01.py from coba/evaluators/sequential.py on every run (Python `ast`); do not edit.\n"
            "-- `own` = the evaluator's `_seed`, `exp` = CobaContext.store['experiment_seed'].  Props/C01.lean proves that the model's\n"
            "-- `effSeed` is `seqSeed`, and that RejectionCB's two sites agree with it.\n"
            "namespace Coba.Generated.C01\n"
            "/-- second argument of `SafeLearner(learner, …)` in SequentialCB.evaluate -/\ndef seqSeed (own : Option Nat) (exp : Nat) : Option Nat := %s\n"
            "/-- second argument of `SafeLearner(learner, …)` in RejectionCB.evaluate -/\ndef rejLearnerSeed (own : Option Nat) (exp : Nat) : Option Nat := %s\n"
            "/-- argument of `CobaRandom(…)` in RejectionCB.evaluate -/\ndef rejRngSeed (own : Option Nat) (exp : Nat) : Option Nat := %s\n"
            "def seedsExtracted : Bool := %s\nend Coba.Generated.C01\n" % (d["seqSeed"], d["rejLearnerSeed"], d["rejRngSeed"], "true" if extracted else "false"))
    path = os.path.join(lean.LEAN_DIR, "CobaVerif", "Generated", "C01Seeds.lean")
    old = open(path, encoding="utf-8").read() if os.path.exists(path) else None
    if old != body:
        os.makedirs(os.path.dirname(path), exist_ok=True)
        with open(path, "w", encoding="utf-8") as f:
            f.write(body)
    return notes + ["C01Seeds: seqSeed := %s; rejLearnerSeed := %s; rejRngSeed := %s; extracted=%s" % (d["seqSeed"], d["rejLearnerSeed"], d["rejRngSeed"], extracted)]


def extract_rej_consts(repo):
    """phase 6 translator: read off `RejectionCB.evaluate` (coba/evaluators/sequential.py, Python `ast`) (1) the key list of the
    `all(k in first.keys() for k in [...])` validation, (2) the `n=` of `peek_first(interactions, n=…)`, (3) the comparison operator
    of the accept test `rng.random() <op> c*(on_prob/log_prob)`, (4) the operator of the `if on_prob != 0` guard of the insort"""
    import ast
    out, notes = {}, []
    try:
        tree = ast.parse(open(os.path.join(repo, "coba", "evaluators", "sequential.py"), encoding="utf-8").read())
        cls = next(n for n in tree.body if isinstance(n, ast.ClassDef) and n.name == "RejectionCB")
        fn = next(n for n in cls.body if isinstance(n, ast.FunctionDef) and n.name == "evaluate")
        ops = {ast.LtE: "<=", ast.Lt: "<", ast.GtE: ">=", ast.Gt: ">", ast.Eq: "==", ast.NotEq: "!="}
        for n in ast.walk(fn):
            if isinstance(n, ast.Call) and isinstance(n.func, ast.Name) and n.func.id == "all" and n.args and isinstance(n.args[0], ast.GeneratorExp):
                it = n.args[0].generators[0].iter
                if isinstance(it, (ast.List, ast.Tuple)) and all(isinstance(e, ast.Constant) and isinstance(e.value, str) for e in it.elts):
                    out["keys"] = [e.value for e in it.elts]
            if isinstance(n, ast.Call) and isinstance(n.func, ast.Name) and n.func.id == "peek_first":
                for kw in n.keywords:
                    if kw.arg == "n" and isinstance(kw.value, ast.Constant) and isinstance(kw.value.value, int):
                        out["peek"] = kw.value.value
                if len(n.args) > 1 and isinstance(n.args[1], ast.Constant) and isinstance(n.args[1].value, int):
                    out["peek"] = n.args[1].value
            if isinstance(n, ast.If) and isinstance(n.test, ast.Compare) and len(n.test.ops) == 1:
                left, right = n.test.left, n.test.comparators[0]
                if isinstance(left, ast.Call) and isinstance(left.func, ast.Attribute) and left.func.attr == "random" and type(n.test.ops[0]) in ops:
                    out["accept"] = ops[type(n.test.ops[0])]
                if isinstance(left, ast.Name) and left.id == "on_prob" and isinstance(right, ast.Constant) and right.value == 0 and type(n.test.ops[0]) in ops:
                    out["guard"] = ops[type(n.test.ops[0])]
    except Exception as e:           # the source was reshaped beyond what the extractor reads: no alarm, the model's own constants are emitted
        notes.append("C01Rej: extraction failed (%s: %s)" % (type(e).__name__, e))
    return out, notes


def write_generated_rej(repo):
    from core import lean
    d, notes = extract_rej_consts(repo)
    fallback = {"keys": ["context", "action", "reward", "actions", "probability"], "peek": 100, "accept": "<=", "guard": "!="}
    extracted = all(k in d for k in fallback)
    if not extracted:
        d = fallback
    body = ("-- GENERATED by harness/props/c01.py from RejectionCB.evaluate (coba/evaluators/sequential.py) on every run (Python `ast`); do not edit.\n"
            "-- Props/C01.lean proves that the model's `rejKeys` / `rejPeek` and the comparisons of `rejLoop` are these.\n"
            "namespace Coba.Generated.C01\n"
            "/-- the keys `RejectionCB.evaluate` demands of the first interaction -/\ndef rejKeysSrc : List String := [%s]\n"
            "/-- `n` of `peek_first(interactions, n=…)` -/\ndef rejPeekSrc : Nat := %d\n"
            "/-- operator of the accept test `rng.random() <op> c*(on_prob/log_prob)` -/\ndef rejAcceptOp : String := \"%s\"\n"
            "/-- operator of the guard `if on_prob <op> 0: insort(Q, log_prob/on_prob)` -/\ndef rejGuardOp : String := \"%s\"\n"
            "def rejExtracted : Bool := %s\nend Coba.Generated.C01\n" % (", ".join('"%s"' % k for k in d["keys"]), d["peek"], d["accept"], d["guard"], "true" if extracted else "false"))
    path = os.path.join(lean.LEAN_DIR, "CobaVerif", "Generated", "C01Rej.lean")
    old = open(path, encoding="utf-8").read() if os.path.exists(path) else None
    if old != body:
        os.makedirs(os.path.dirname(path), exist_ok=True)
        with open(path, "w", encoding="utf-8") as f:
            f.write(body)
    return notes + ["C01Rej: keys=%s peek=%s accept=%s guard=%s extracted=%s" % (d["keys"], d["peek"], d["accept"], d["guard"], extracted)]


class C01(Property):
    id = "C01"
    prop_modules = ["CobaVerif.Props.C01"]
    quick_n = 400
    thorough_n = 12000
    search_n = 500
    case_timeout = 900       # engine alarm per case; the runs have their own timeouts (TIMEOUT_REAL / TIMEOUT_OTHER, one retry)
    workers = 8
    rule = ("an experiment recipe (1-3 toy or built-in environment pipelines incl. shared chunk()/cache() prefixes, shuffle(n=k) fan-out, "
            "raising variants; 1-3 learners; 1-3 evaluators; cross product or explicit tuple list with shared/duplicated objects) and 2-4 "
            "configurations (processes 1-4, maxchunksperchild 0-3, maxtasksperchunk 0-5; in-process, permuting simulator or really spawned "
            "workers); runs may be preceded by an earlier run of the same session in the same process; toy learners may write "
            "CobaContext.learning_info, toy evaluators ignore / clear+flush / only flush it (the last = not process-local clean: model "
            "prediction only), toy learners may be un-copyable or carry a finish() hook; 12 % of the non-base runs are interrupted-and-"
            "resumed runs (result file, part of the record lines kept, second run) compared with runResumed / runResumedPFrom of the model; 10 % of the cases are of "
            "the seq kind (in-memory environments x scripted learners x built-in SequentialCB objects; the whole Result is predicted by run (seqCompsX w); since phase 5 65 % of them with PMF-answering learners drawn by CobaRandom(evaluator seed or experiment seed), "
            "learning_info writers, own evaluator seeds, chunk()/chunk(cache=False)/cache() pipelines with Head(k) fan-out behind a shared prefix, and half of those "
            "with Batch(1-3) sources incl. SafeLearner's orientation probe; since phase 6 half of the seq cases turn 70 % of their evaluator objects into built-in RejectionCB "
            "objects (dyadic cpct/cmax/cinit, logged sources with propensities 1..1/8, scores 0..1) whose rows are predicted by rejEvaluate over the C05 stream); every run "
            "draws quiet=True (30 %) and the caller's logger kind (20 % IndentLogger); non-trivial = at least two configurations compared and at least one "
            "interaction row recorded")
    trusted_base = [
        "components are deterministic functions of their own object state, the seed and — since phase 2 — an explicit process state σ "
        "(hypothesis ProcessLocalClean: outcomes do not depend on σ and leave it clean; forced, see process_state_forced_counterexample; "
        "coba discharges it by info.clear() at the start of SequentialCB/RejectionCB, a fresh SafeLearner per evaluate and deepcopy — "
        "not for Logged's inner evaluator = open finding F3); environments are re-readable (C04); params do not depend on what a learner has learned",
        "pickle / deepcopy produce an observationally equal, unshared copy; OS scheduling = any interleaving of the record streams of the chunks "
        "(proved for every permutation of the records; sampled on the code by the permuting simulator and a few really spawned runs)",
        "exactly-once delivery of records through the multiprocessing queues is C08's property",
        "TransactionEncode/Decode (JSON round trip of records) is C07's property; the model starts from the decoded records",
    ]
    assumptions = ["objects are compared by identity (no user __eq__/__hash__)", "evaluators are truthy objects",
                   "a restored result file holds whole record lines of an earlier run of the same experiment (torn lines, gz members and "
                   "the byte-level codec are C02's subject); run_eq_spec_restored covers any subset of finished tasks in any order"]
    partial_theorems = {}

    def pre_build(self):
        # translator tie: regenerate lean/CobaVerif/Generated/C01Config.lean from the CURRENT source of the repo under test
        repo = os.environ.get("COBA_REPO", "/repo")
        return write_generated_config(repo) + write_generated_seeds(repo) + write_generated_rej(repo)

    def generate(self, rng, tier):
        real_p = 0.015 if tier == "quick" else 0.006
        if rng.chance(0.72):
            if rng.chance(0.14):
                return add_run_opts(rng, gen_seq(rng, tier, real_p))       # phase 4: built-in SequentialCB, model-predicted
            return add_run_opts(rng, gen_toy(rng, tier, real_p))
        return add_run_opts(rng, gen_builtin(rng, tier, real_p))

    def search(self, rng, tier):
        if rng.chance(0.25):
            # phase 6: the failing-input search also draws the seq kind (built-in SequentialCB / RejectionCB objects, scripted
            # learners whose predict is stateful, PMF draws, batched sources), a few of them on really spawned workers
            # (class-level memo defects are invisible to the simulator, which shares class objects with the caller)
            return add_run_opts(rng, gen_seq(rng, tier, 0.06))
        if rng.chance(0.8):
            return add_run_opts(rng, gen_toy(rng, tier, 0.0, fail_bias=2.0, share_bias=2.0))
        return add_run_opts(rng, gen_builtin(rng, tier, 0.0))

    def corpus(self):
        cs = []
        base = {"kind": "toy", "seed": 7, "lrns": [{"tag": 0, "mult": 1}, {"tag": 1, "mult": 2}], "vals": [{"tag": 0, "seed": None, "learn": True}],
                "mode": "product", "pl": [0, 1], "pv": [0]}
        # every chunking of one shared chunk()/shuffle fan-out under real workers and the simulator
        e = [{"tag": 0, "xs": [1, 2, 3, 4], "prefix": [["chunk"]], "branches": [[["shuffle", 2]]]}, {"tag": 1, "xs": [5, 6], "raw": True}]
        cs.append(dict(base, envs=e, pe=[0, 1, 2], runs=[{"cfg": [1, 0, 0], "how": "inproc", "sched": 0}, {"cfg": [2, 0, 0], "how": "real", "sched": 1},
                                                         {"cfg": [2, 1, 1], "how": "sim", "sched": 2}, {"cfg": [1, 0, 2], "how": "inproc", "sched": 0}], rerun=True))
        # seed propagation: evaluator without own seed on a real worker that is restarted after every chunk
        cs.append(dict(base, envs=e, pe=[2, 0, 1], seed=12345, runs=[{"cfg": [1, 0, 0], "how": "inproc", "sched": 0}, {"cfg": [1, 1, 0], "how": "real", "sched": 3},
                                                                     {"cfg": [3, 2, 1], "how": "sim", "sched": 4}]))
        # one learner object shared by explicit tuples, one used once (evaluated in place), a raising learner
        cs.append({"kind": "toy", "seed": 1, "envs": [{"tag": 0, "xs": [3, 1, 2], "raw": True}, {"tag": 1, "xs": [4, 4], "prefix": [["cache"]], "branches": [[]]}],
                   "lrns": [{"tag": 0, "mult": 1}, {"tag": 1, "mult": 3}, {"tag": 2, "mult": 1, "fp": 1}],
                   "vals": [{"tag": 0, "seed": None, "learn": True}, {"tag": 1, "seed": 3, "learn": True}],
                   "mode": "tuples", "triples": [[1, 0, 0], [0, 0, 1], [0, 1, 0], [1, 2, 0], [0, 0, 0], [0, 0, 1]],
                   "runs": [{"cfg": [1, 0, 0], "how": "inproc", "sched": 0}, {"cfg": [2, 0, 0], "how": "sim", "sched": 5}, {"cfg": [4, 3, 2], "how": "sim", "sched": 6}], "rerun": True})
        # F1: Cache in front of a source that raises while being read (recorded finding / fixes/C01-cache-failed-read.diff)
        cs.append(cache_defect_case())
        # fixed finding F2 (e4fe683): logged environment behind shuffle(n=2); the peek of the parameter task must not change later reads
        cs.append({"envs": [{"branches": [[["shuffle", 2]]], "log_seed": 3, "logged": True, "n": 8, "na": 3, "prefix": [], "seed": 5, "src": "linear"}], "kind": "builtin", "lrns": [{"tag": 0, "type": "kwargs"}, {"tag": 1, "type": "kwargs"}, {"eps": 0.05, "seed": 4, "type": "eps"}], "mode": "product", "pe": [1], "pl": [2], "pv": [0], "runs": [{"cfg": [1, 0, 0], "how": "inproc", "sched": 0}, {"cfg": [2, 0, 0], "how": "sim", "sched": 296675}], "seed": 2, "single_eval": True, "vals": [{"eval": "ips", "learn": "off", "record": ["reward"], "seed": 2, "type": "seq"}]})
        cs += directed_cases()
        cs += seq_directed_cases()
        cs += seq_directed_cases5()
        cs += seq_directed_cases6()      # phase 6: RejectionCB inside the model-predicted experiment
        # built-in components
        cs.append({"kind": "builtin", "seed": 1, "envs": [{"src": "linear", "n": 12, "na": 3, "seed": 2, "prefix": [["chunk"]], "branches": [[["shuffle", 2]]]}],
                   "lrns": [{"type": "eps", "eps": 0.1, "seed": 1}, {"type": "pmf", "tag": 1}, {"type": "kwargs", "tag": 2}],
                   "vals": [{"type": "seq", "record": ["reward", "action", "probability", "time"], "seed": None}],
                   "mode": "product", "pe": [0, 1], "pl": [0, 1, 2], "pv": [0], "single_eval": True,
                   "runs": [{"cfg": [1, 0, 0], "how": "inproc", "sched": 0}, {"cfg": [2, 0, 1], "how": "real", "sched": 0}, {"cfg": [3, 1, 0], "how": "sim", "sched": 9}], "rerun": True})
        return cs

    def exhaustive(self, tier):
        return small_scope_cases()

    # ---- evaluation
    def evaluate(self, case, driver):
        fails, tags = [], []
        kind = case["kind"]
        tags.append("kind:" + kind)
        tags.append("mode:" + case["mode"])
        tags += feature_tags(case)
        runs = case["runs"][:MAX_RUNS]
        outs = []
        del RETRIED[:]
        t_end = time.time() + CASE_BUDGET
        for k, run in enumerate(runs):
            if k > 0 and time.time() > t_end:
                tags.append("truncated:case-budget")         # the remaining configurations of this case are not run
                runs = runs[:k]
                break
            try:
                o = run_iso(case, run["cfg"], run["how"], run["sched"], run.get("pre"), run.get("resume"), run_opts(run))
            except RunTimeout as e:
                # never a verdict about the property: reported as infrastructure, the remaining runs are dropped
                fails.append(F("T", "cfg %s (%s): %s" % (run["cfg"], run["how"], e), "timeout"))
                tags.append("timeout")
                runs = runs[:k]
                break
            outs.append(o)
            if run.get("pre"):
                tags.append("session:pre-run-" + run["pre"]["how"])
            if run.get("resume"):
                tags.append("resumed-run")
            tags.append("how:" + run["how"])
            tags += ["run:" + k for k in ("quiet", "logger") if run.get(k)]
            multi = run["cfg"][0] > 1 or run["cfg"][1] != 0
            tags.append("cfg:%s%s%s" % ("multi" if multi else "inproc", ",mc>0" if run["cfg"][1] else "", ",mt>0" if run["cfg"][2] else ""))
        if not outs:
            return {"fails": fails, "nontrivial": False, "tags": tags}
        base = outs[0]["result"]
        known_defect = False
        leaky = is_leaky(case)
        if leaky:
            tags.append("not-process-local-clean(A only)")
        # (B) configuration independence
        for run, o in list(zip(runs, outs))[1:]:
            d = [] if leaky else diff_tables(base, o["result"])
            if d:
                sig = ("resumed-differs:" if run.get("resume") else "cfg-dependent:") + "+".join(d)
                ks = known_sig(case, base, o["result"])
                if ks:
                    sig = "cfg-dependent:ints:" + ks
                    known_defect = True
                fails.append(F("B", "Result under %s (%s) differs from the in-process Result in %s: %s vs %s" % (
                    run["cfg"], run["how"], d, _short(o["result"], d), _short(base, d)), sig))
            if not o["store_clean"]:
                fails.append(F("A", "experiment_seed left in CobaContext.store after run", "A:store"))
        # (B) a second construct-and-run gives the same Result
        if case.get("rerun") and time.time() < t_end and not leaky:
            tags.append("rerun")
            k = len(runs) - 1
            how2 = "sim" if runs[k]["how"] == "real" else runs[k]["how"]
            try:
                # literally a second construct-and-run: same recipe, same seed, same configuration, same process
                again = run_iso(case, runs[k]["cfg"], how2, runs[k]["sched"] + 1,
                                {"seed": case["seed"], "cfg": runs[k]["cfg"], "how": how2, "sched": runs[k]["sched"] + 2})
                d = diff_tables(outs[k]["result"], again["result"])
            except RunTimeout as e:
                fails.append(F("T", "second run under %s: %s" % (runs[k]["cfg"], e), "timeout"))
                d = []
            if d:
                ks = known_sig(case, outs[k]["result"], again["result"])
                fails.append(F("B", "constructing and running the same experiment a second time under %s changed %s: %s vs %s" % (
                    runs[k]["cfg"], d, _short(again["result"], d), _short(outs[k]["result"], d)),
                    "rerun-differs:" + ("ints:" + ks if ks else "+".join(d))))
                known_defect = known_defect or bool(ks)
        nrows = sum(len(rows) for _, rows in base["ints"])
        if any(o["log"] and markers(o["log"]) for o in outs):
            tags.append("with-exception")
        for r in case["envs"]:
            for op in r.get("prefix", []) + [o for br in r.get("branches", [[]]) for o in br]:
                tags.append("op:" + op[0])
            if r.get("raw"):
                tags.append("op:raw-env")
        # (A) + (C) against the Lean model
        model = None
        if cache_bug_present() and cached_failing_envs(case):
            # finding F1 (Cache keeps a dead iterator after a failed read): until the fix is in /repo the model, which is
            # written against the fixed code, is not compared on cases that put a Cache in front of a raising source
            known_defect = True
            tags.append("skipA:cache-bug")
        if driver is not None and kind == "toy" and not known_defect:
            obs = observe(case)
            for run, o in zip(runs, outs):
                if leaky and (run["how"] == "real" or (run.get("pre") or {}).get("how") == "real"):
                    continue        # which worker pulled which chunk is only known for the simulator
                if run.get("resume") and not is_plain(case):
                    tags.append("resumed-run:process-state-model")      # phase 4: `runResumedPFrom`
                fs, ans = compare_with_model(driver, case, obs, run, o)
                fails += fs
                model = ans["model"]
                d = chunk_check(case, run["cfg"][2], ans["chunks"])
                if d:
                    fails.append(F("A", "maxtasksperchunk %d: %s" % (run["cfg"][2], d), "A:chunks"))
        if driver is not None and kind == "seq":
            obs = observe_seq(case)
            for run, o in zip(runs, outs):
                fs, ans = compare_seq(driver, case, obs, run, o)
                fails += fs
                model = {"ints": len(ans["model"]["ints"])}
                d = chunk_check(case, run["cfg"][2], ans["chunks"])
                if d:
                    fails.append(F("A", "maxtasksperchunk %d: %s" % (run["cfg"][2], d), "A:chunks"))
            tags.append("seq:rows=%s" % ("0" if not outs[0]["seq_ints"] else "1-5" if len(outs[0]["seq_ints"]) <= 5 else ">5"))
            for r in case["vals"]:
                tags.append("seq:learn=%s,eval=%s" % (r["learn"], r["eval"]))
            tags += ["seq:pmf-learner"] * any(r["fmt"] == "pmf" for r in case["lrns"]) + ["seq:info-learner"] * any(r.get("info") for r in case["lrns"])
            tags += ["seq:val-own-seed"] * any(r.get("seed") is not None for r in case["vals"])
            tags += ["seq:pipe=%s" % r["pipe"] for r in case["envs"] if r.get("pipe")] + ["seq:shared-chunk-fanout"] * any(r.get("heads") for r in case["envs"])
            tags += ["seq:orientation-probe"] * any(r.get("batch") and min(r["batch"], len(r["inters"])) == 2 for r in case["envs"]) * any(l["fmt"] == "AP" for l in case["lrns"])
            tags += ["seq:batched-env"] * any(r.get("batch") for r in case["envs"]) + ["seq:failing-read"] * any(r.get("fail") for r in case["envs"])
            tags += ["seq:rejected"] * any(") requires " in l for l in outs[0]["log"])
            if any(r.get("rej") for r in case["vals"]):
                tags.append("seq:rejectionCB")
                vorder = []
                for t in outs[0]["triples"]:
                    if t[2] not in vorder:
                        vorder.append(t[2])         # evaluator ids are assigned by first appearance
                rej_ids = {vorder.index(i) for i, r in enumerate(case["vals"]) if r.get("rej") and i in vorder}
                nrej_rows = sum(1 for x in outs[0]["seq_ints"] if x[2] in rej_ids)
                tags.append("seq:rejectionCB:rows=%s" % ("0" if nrej_rows == 0 else "1-5" if nrej_rows <= 5 else ">5"))
                tags += ["seq:rejectionCB:refused"] * any("ExplorationEvaluator " in l for l in outs[0]["log"])
                tags += ["seq:rejectionCB:cinit"] * any(r.get("rej") and r.get("cinit") and r["cinit"][0] for r in case["vals"])
                tags += ["seq:rejectionCB:cpct=%d/%d" % tuple(r["cpct"]) for r in case["vals"] if r.get("rej")]
                tags += ["seq:rejectionCB:score-0"] * any(e["s"][0] == 0 for l in case["lrns"] for e in l["script"])
            if len(set(map(tuple, outs[0]["triples"]))) < len(outs[0]["triples"]) or len({t[1] for t in outs[0]["triples"]}) < len(outs[0]["triples"]):
                tags.append("seq:shared-learner")
        tags += RETRIED          # `real:timeout-retried` / `run:timeout-retried`: a run timed out once and was repeated
        return {"fails": fails, "nontrivial": len(runs) >= 2 and nrows > 0, "tags": tags,
                "impl": {"base": base if len(json.dumps(base)) < 4000 else "(large)", "rows": nrows}, "model": model}

    def shrink(self, case):
        return shrink_case(case)

    def snippet(self, case):
        return snippet_for(case, "C01")


def _short(res, parts):
    return json.dumps({p: res[p] for p in parts}, sort_keys=True)[:500]


def small_scope_cases():
    """finite sweep (thorough tier): every tuple list of length <= 3 over 2 environments (one chunk()ed and shared through a
    shuffle fan-out) x 2 learners x 2 evaluators, i.e. every sharing / duplication pattern of up to three triples, each under
    in-process splitting, one simulated 2-worker schedule and one simulated restarting 3-worker schedule"""
    import itertools
    envs = [{"tag": 0, "xs": [2, 1, 3], "prefix": [["chunk"]], "branches": [[["shuffle", 2]]]}]
    lrns = [{"tag": 0, "mult": 1}, {"tag": 1, "mult": 2, "fp": 2}]
    vals = [{"tag": 0, "seed": None, "learn": True}, {"tag": 1, "seed": 4, "learn": True}]
    atoms = [[e, l, v] for e in (0, 1) for l in (0, 1) for v in (0, 1)]
    k = 0
    for n in (1, 2, 3):
        for ts in itertools.product(atoms, repeat=n):
            k += 1
            yield {"kind": "toy", "seed": 5, "envs": envs, "lrns": lrns, "vals": vals, "mode": "tuples", "triples": [list(t) for t in ts],
                   "runs": [{"cfg": [1, 0, 0], "how": "inproc", "sched": 0}, {"cfg": [1, 0, 1], "how": "inproc", "sched": 0},
                            {"cfg": [2, 0, 0], "how": "sim", "sched": k}, {"cfg": [3, 1, 2], "how": "sim", "sched": k + 7}]}


def directed_cases():
    """process-global state between evaluations (follow-up round): learning_info left behind by one evaluation, a row-less
    evaluation in front of others in one chunk, one learner class on a batched and an un-batched environment"""
    inproc = {"cfg": [1, 0, 0], "how": "inproc", "sched": 0}
    cs = []
    # RejectionCB with a learner reporting from score(), then SequentialCB in the same process / in a restarted worker
    cs.append({"kind": "builtin", "seed": 3,
               "envs": [{"src": "linear", "n": 30, "na": 3, "seed": 6, "logged": True, "log_seed": 2, "prefix": [], "branches": [[]]},
                        {"src": "linear", "n": 12, "na": 3, "seed": 5, "prefix": [], "branches": [[]]}],
               "lrns": [{"type": "info", "tag": 0, "where": ["score"]}, {"type": "info", "tag": 1, "where": []}],
               "vals": [{"type": "rej", "record": ["reward", "action"], "seed": None}, {"type": "seq", "record": ["reward", "action"], "seed": None}],
               "mode": "tuples", "triples": [[0, 0, 0], [1, 1, 1]],
               "runs": [inproc, {"cfg": [1, 1, 0], "how": "sim", "sched": 3}, {"cfg": [2, 0, 1], "how": "sim", "sched": 4}], "rerun": True})
    # a learner that writes its info in predict and then raises in learn, followed by other evaluations
    cs.append({"kind": "builtin", "seed": 1,
               "envs": [{"src": "linear", "n": 8, "na": 2, "seed": 1, "prefix": [], "branches": [[]]}],
               "lrns": [{"type": "info", "tag": 0, "where": ["predict"], "fail_learn_at": 1}, {"type": "random", "seed": 2}, {"type": "info", "tag": 2, "where": ["learn"]}],
               "vals": [{"type": "seq", "record": ["reward"], "seed": None}, {"type": "fn"}],
               "mode": "product", "pe": [0], "pl": [0, 1, 2], "pv": [1, 0],
               "runs": [inproc, {"cfg": [1, 1, 0], "how": "sim", "sched": 5}, {"cfg": [3, 0, 1], "how": "sim", "sched": 6}]})
    # rejection sampling accepts nothing for the first learner (score 0): later learners of the chunk must still be evaluated
    cs.append({"kind": "builtin", "seed": 11,
               "envs": [{"src": "linear", "n": 40, "na": 3, "seed": 4, "logged": True, "log_seed": 2, "prefix": [["chunk"]], "branches": [[]]}],
               "lrns": [{"type": "policy", "tag": 0, "p": 0.0}, {"type": "policy", "tag": 1, "p": 1.0 / 3}],
               "vals": [{"type": "rej", "record": ["reward", "action"], "seed": None}],
               "mode": "product", "pe": [0], "pl": [0, 1], "pv": [0], "single_eval": True,
               "runs": [inproc, {"cfg": [1, 0, 1], "how": "inproc", "sched": 0}, {"cfg": [2, 0, 2], "how": "sim", "sched": 7}]})
    # the same with toy components (model-predicted): the evaluator yields nothing for learners with mult 2
    cs.append({"kind": "toy", "seed": 2, "envs": [{"tag": 0, "xs": [1, 2, 3], "prefix": [["chunk"]], "branches": [[["shuffle", 2]]]}],
               "lrns": [{"tag": 0, "mult": 2}, {"tag": 1, "mult": 1}, {"tag": 2, "mult": 2}],
               "vals": [{"tag": 0, "seed": None, "learn": True, "skip_mult": 2}, {"tag": 1, "seed": 4, "learn": True}],
               "mode": "product", "pe": [0, 1], "pl": [0, 1, 2], "pv": [0, 1],
               "runs": [inproc, {"cfg": [1, 0, 1], "how": "inproc", "sched": 0}, {"cfg": [2, 0, 3], "how": "sim", "sched": 8}]})
    # one learner class that is not batch aware on an un-batched and on a batched environment (real workers: the state in
    # question would be per OS process)
    cs.append({"kind": "builtin", "seed": 1,
               "envs": [{"src": "linear", "n": 6, "na": 3, "seed": 2, "prefix": [], "branches": [[], [["batch", 2]]]}],
               "lrns": [{"type": "row", "tag": 0}, {"type": "row", "tag": 1}],
               "vals": [{"type": "seq", "record": ["reward", "action"], "seed": None}],
               "mode": "product", "pe": [0, 1], "pl": [0, 1], "pv": [0],
               "runs": [inproc, {"cfg": [2, 1, 1], "how": "real", "sched": 0}]})
    cs.append({"kind": "builtin", "seed": 1,
               "envs": [{"src": "linear", "n": 6, "na": 3, "seed": 2, "prefix": [], "branches": [[["batch", 3]], []]}],
               "lrns": [{"type": "pmf", "tag": 0}], "vals": [{"type": "seq", "record": ["reward", "action"], "seed": None}],
               "mode": "product", "pe": [0, 1], "pl": [0], "pv": [0],
               "runs": [inproc, {"cfg": [1, 1, 1], "how": "real", "sched": 0}]})
    # --- second follow-up round: state that survives from one evaluation / one run of a session to the next
    # an earlier run of the session with another seed on workers, then this seed on workers vs. the in-process reference
    cs.append({"kind": "toy", "seed": 7, "envs": [{"tag": 0, "xs": [1, 2, 3], "raw": True}, {"tag": 1, "xs": [4, 5], "raw": True}],
               "lrns": [{"tag": 0, "mult": 1}, {"tag": 1, "mult": 2}], "vals": [{"tag": 0, "seed": None, "learn": True}],
               "mode": "product", "pe": [0, 1], "pl": [0, 1], "pv": [0],
               "runs": [inproc, {"cfg": [2, 0, 0], "how": "real", "sched": 0, "pre": {"seed": 5, "cfg": [2, 0, 0], "how": "real", "sched": 0}},
                        {"cfg": [1, 1, 0], "how": "sim", "sched": 3, "pre": {"seed": 9, "cfg": [2, 0, 1], "how": "sim", "sched": 4}}]})
    cs.append({"kind": "builtin", "seed": 7, "envs": [{"src": "linear", "n": 12, "na": 3, "seed": 4, "prefix": [], "branches": [[["shuffle", 2]]]}],
               "lrns": [{"type": "pmf", "tag": 0}], "vals": [{"type": "seq", "record": ["reward", "action", "probability"], "seed": None}],
               "mode": "product", "pe": [0, 1], "pl": [0], "pv": [0], "single_eval": True,
               "runs": [inproc, {"cfg": [2, 0, 0], "how": "sim", "sched": 1, "pre": {"seed": 5, "cfg": [2, 0, 0], "how": "sim", "sched": 2}}], "rerun": True})
    # one SequentialCB(learn=None, eval='ips') object for learners with and without `score`, both orders
    for order in ([0, 1], [1, 0]):
        cs.append({"kind": "builtin", "seed": 1,
                   "envs": [{"src": "linear", "n": 12, "na": 3, "seed": 2, "logged": True, "log_seed": 4, "prefix": [], "branches": [[["shuffle", 2]]]}],
                   "lrns": [{"type": "policy", "tag": 0, "p": 0.5}, {"type": "pmf", "tag": 1}],
                   "vals": [{"type": "seq", "record": ["reward"], "seed": None, "learn": None, "eval": "ips"}],
                   "mode": "product", "pe": [0, 1], "pl": order, "pv": [0], "single_eval": True,
                   "runs": [inproc, {"cfg": [2, 0, 0], "how": "sim", "sched": 5}, {"cfg": [1, 1, 0], "how": "sim", "sched": 6}]})
    # one RejectionCB object with an explicit seed for several triples
    cs.append({"kind": "builtin", "seed": 1,
               "envs": [{"src": "linear", "n": 30, "na": 3, "seed": 3, "logged": True, "log_seed": 2, "prefix": [], "branches": [[["shuffle", 2]]]}],
               "lrns": [{"type": "policy", "tag": 0, "p": 1.0 / 3}, {"type": "policy", "tag": 1, "p": 0.5}],
               "vals": [{"type": "rej", "record": ["reward", "action"], "seed": 3}],
               "mode": "product", "pe": [0, 1], "pl": [0, 1], "pv": [0], "single_eval": True,
               "runs": [inproc, {"cfg": [2, 0, 1], "how": "sim", "sched": 7}]})
    # a learner that cannot be copied, listed for two environments, next to an ordinary one (in-process only)
    cs.append({"kind": "builtin", "seed": 1,
               "envs": [{"src": "linear", "n": 4, "na": 3, "seed": 1, "prefix": [], "branches": [[]]}, {"src": "linear", "n": 6, "na": 3, "seed": 2, "prefix": [], "branches": [[]]}],
               "lrns": [{"type": "nocopy", "tag": 0}, {"type": "row", "tag": 1}],
               "vals": [{"type": "seq", "record": ["reward", "action"], "seed": None}],
               "mode": "product", "pe": [0, 1], "pl": [0, 1], "pv": [0],
               "runs": [inproc, {"cfg": [1, 0, 1], "how": "inproc", "sched": 0}]})
    # --- phase 2: the process-state model (toy components, model-predicted)
    info_lrns = [{"tag": 0, "mult": 1, "info": True, "fl": 1}, {"tag": 1, "mult": 2, "info": True}, {"tag": 2, "mult": 1}]
    # process-local clean evaluators (mode 1 clears learning_info first), a learner that leaves info behind by raising
    cs.append({"kind": "toy", "seed": 4, "envs": [{"tag": 0, "xs": [1, 2, 3], "raw": True}, {"tag": 1, "xs": [4, 5], "prefix": [["chunk"]], "branches": [[]]}],
               "lrns": info_lrns, "vals": [{"tag": 0, "seed": None, "learn": True, "mode": 1}, {"tag": 1, "seed": 2, "learn": True, "mode": 0}],
               "mode": "product", "pe": [0, 1], "pl": [0, 1, 2], "pv": [0, 1],
               "runs": [inproc, {"cfg": [2, 1, 1], "how": "sim", "sched": 11}, {"cfg": [1, 2, 0], "how": "sim", "sched": 12, "pre": {"seed": 9, "cfg": [1, 0, 0], "how": "inproc", "sched": 0}},
                        {"cfg": [2, 0, 0], "how": "real", "sched": 0}], "rerun": True})
    # NOT process-local clean (mode 2): the model has to predict the leak for every worker assignment / retirement / session
    cs.append({"kind": "toy", "seed": 4, "envs": [{"tag": 0, "xs": [1, 2, 3], "raw": True}, {"tag": 1, "xs": [4, 5], "raw": True}],
               "lrns": info_lrns, "vals": [{"tag": 0, "seed": None, "learn": True, "mode": 2}, {"tag": 1, "seed": 2, "learn": True, "mode": 0}],
               "mode": "product", "pe": [0, 1], "pl": [0, 1, 2], "pv": [1, 0],
               "runs": [inproc, {"cfg": [1, 0, 2], "how": "inproc", "sched": 0}, {"cfg": [2, 0, 0], "how": "sim", "sched": 13}, {"cfg": [2, 2, 1], "how": "sim", "sched": 14},
                        {"cfg": [1, 0, 0], "how": "inproc", "sched": 0, "pre": {"seed": 5, "cfg": [1, 0, 0], "how": "inproc", "sched": 0}}]})
    # a toy learner that cannot be copied, listed for two environments (in-process only)
    cs.append({"kind": "toy", "seed": 2, "envs": [{"tag": 0, "xs": [1, 2], "raw": True}, {"tag": 1, "xs": [3], "raw": True}],
               "lrns": [{"tag": 0, "mult": 1, "nocopy": True}, {"tag": 1, "mult": 2}, {"tag": 2, "mult": 3, "nocopy": True}],
               "vals": [{"tag": 0, "seed": None, "learn": True, "mode": 1}],
               "mode": "tuples", "triples": [[0, 0, 0], [1, 0, 0], [0, 1, 0], [1, 1, 0], [1, 2, 0]],
               "runs": [inproc, {"cfg": [1, 0, 1], "how": "inproc", "sched": 0}, {"cfg": [1, 0, 3], "how": "inproc", "sched": 0}]})
    # --- third follow-up round
    # seeded built-in filters with non-default arguments in front of real and simulated workers (what pickling must keep)
    cs.append({"kind": "builtin", "seed": 1,
               "envs": [{"src": "linear", "n": 12, "na": 3, "seed": 3, "prefix": [], "branches": [[["noise", "reward", [5, 6]]]]},
                        {"src": "kernel", "n": 12, "na": 3, "seed": 4, "logged": True, "log_seed": 3, "logged_seed": 7, "prefix": [["reservoir", 6, [2, 5]]], "branches": [[["riffle", 2, 9]]]}],
               "lrns": [{"type": "eps", "eps": 0.1, "seed": 2}, {"type": "ucb", "seed": 4}],
               "vals": [{"type": "seq", "record": ["reward", "action", "probability"], "seed": None}],
               "mode": "product", "pe": [0, 1, 2, 3], "pl": [0, 1], "pv": [0], "single_eval": True,
               "runs": [inproc, {"cfg": [1, 2, 0], "how": "sim", "sched": 21}, {"cfg": [3, 0, 1], "how": "real", "sched": 0}]})
    # finish() hooks: on the evaluated copy only, after its rows are recorded; its errors are logged and cost nothing
    cs.append({"kind": "toy", "seed": 3, "envs": [{"tag": 0, "xs": [1, 2, 3], "raw": True}, {"tag": 1, "xs": [4, 5], "raw": True}, {"tag": 2, "xs": [], "raw": True}],
               "lrns": [{"tag": 0, "mult": 1, "finish": "mark"}, {"tag": 1, "mult": 2, "finish": "raise", "fp": 1}, {"tag": 2, "mult": 1, "finish": "lazy"}, {"tag": 3, "mult": 3}],
               "vals": [{"tag": 0, "seed": None, "learn": True, "mode": 1}],
               "mode": "product", "pe": [0, 1, 2], "pl": [0, 1, 2, 3], "pv": [0], "single_eval": True,
               "runs": [inproc, {"cfg": [1, 0, 1], "how": "inproc", "sched": 0}, {"cfg": [2, 0, 0], "how": "sim", "sched": 22}, {"cfg": [2, 1, 2], "how": "sim", "sched": 23}]})
    # --- round d
    # string labels that a lossy text round trip of pickled reward objects would mangle, materialized, on workers
    cs.append({"kind": "builtin", "seed": 1,
               "envs": [{"src": "supervised", "n": 20, "na": 3, "seed": 2, "labels": [0, 1, 2], "prefix": [["materialize"]], "branches": [[["shuffle", 2], ["materialize"]]]},
                        {"src": "supervised", "n": 12, "na": 3, "seed": 3, "labels": [3, 5, 6], "prefix": [], "branches": [[["materialize"]]]},
                        {"src": "supervised", "n": 12, "na": 3, "seed": 4, "labels": [7, 8, 9], "prefix": [["materialize"]], "branches": [[]]}],
               "lrns": [{"type": "eps", "eps": 0.1, "seed": 3}, {"type": "random", "seed": 2}],
               "vals": [{"type": "seq", "record": ["reward", "action"], "seed": None}],
               "mode": "product", "pe": [0, 1, 2, 3], "pl": [0, 1], "pv": [0], "single_eval": True,
               "runs": [inproc, {"cfg": [2, 0, 0], "how": "sim", "sched": 31}, {"cfg": [1, 1, 1], "how": "real", "sched": 0}]})
    # two instances of one learner class, only one of them with `score`, both orders, evaluators that ask has_score
    for order in ([0, 1], [1, 0]):
        cs.append({"kind": "builtin", "seed": 1,
                   "envs": [{"src": "linear", "n": 30, "na": 2, "seed": 3, "logged": True, "log_seed": 5, "prefix": [], "branches": [[]]}],
                   "lrns": [{"type": "maybe", "tag": 0, "can_score": False}, {"type": "maybe", "tag": 1, "can_score": True}],
                   "vals": [{"type": "rej", "record": ["reward", "action"], "seed": None},
                            {"type": "seq", "record": ["reward"], "seed": None, "learn": None, "eval": "ips"}],
                   "mode": "product", "pe": [0], "pl": order, "pv": [0, 1],
                   "runs": [inproc, {"cfg": [2, 0, 1], "how": "sim", "sched": 32}]})
    # --- round f: two-class (and one-class) nominal labels, materialized: the reward's argmax is itself a 2-tuple / 1-tuple
    cs.append({"kind": "builtin", "seed": 1,
               "envs": [{"src": "supervised", "n": 30, "na": 2, "seed": 3, "labels": [19, 0], "categorical": True, "prefix": [], "branches": [[["shuffle", 2], ["materialize"]]]},
                        {"src": "supervised", "n": 8, "na": 1, "seed": 4, "labels": [19], "categorical": True, "prefix": [["materialize"]], "branches": [[]]},
                        {"src": "supervised", "n": 12, "na": 2, "seed": 5, "labels": [1, 2], "categorical": False, "prefix": [["materialize"]], "branches": [[]]}],
               "lrns": [{"type": "random", "seed": 2}, {"type": "eps", "eps": 0.1, "seed": 4}],
               "vals": [{"type": "seq", "record": ["reward", "action"], "seed": None}],
               "mode": "product", "pe": [0, 1, 2, 3], "pl": [0, 1], "pv": [0], "single_eval": True,
               "runs": [inproc, {"cfg": [2, 0, 0], "how": "sim", "sched": 51}, {"cfg": [1, 1, 0], "how": "real", "sched": 0}]})
    # --- round e
    # one default RejectionCB object over logged environments with different propensities (its data-adaptive start value
    # must be recomputed per evaluation), in-process vs workers
    cs.append({"kind": "builtin", "seed": 1,
               "envs": [{"src": "linear", "n": 30, "na": 3, "seed": 5, "logged": True, "log_policy": [["fixed", 1, 4], ["fixed", 0, 4], ["random", 2]],
                         "prefix": [], "branches": [[]]}],
               "lrns": [{"type": "random", "seed": 2}, {"type": "policy", "tag": 1, "p": 1.0 / 3}],
               "vals": [{"type": "rej", "record": ["reward", "action"], "seed": None}],
               "mode": "product", "pe": [0, 1, 2], "pl": [0, 1], "pv": [0], "single_eval": True,
               "runs": [inproc, {"cfg": [2, 1, 0], "how": "sim", "sched": 41}, {"cfg": [1, 0, 1], "how": "inproc", "sched": 0}], "rerun": True})
    # experiment seed 0 is a seed like any other: PMF learner and RejectionCB without own seed, twice and on workers
    cs.append({"kind": "builtin", "seed": 0,
               "envs": [{"src": "linear", "n": 20, "na": 3, "seed": 3, "logged": True, "log_policy": [["random", 2]], "prefix": [], "branches": [[]]}],
               "lrns": [{"type": "pmf", "tag": 0}, {"type": "random", "seed": 2}],
               "vals": [{"type": "seq", "record": ["reward", "action", "probability"], "seed": None}, {"type": "rej", "record": ["reward"], "seed": None}],
               "mode": "product", "pe": [0], "pl": [0, 1], "pv": [0, 1],
               "runs": [inproc, {"cfg": [2, 0, 0], "how": "sim", "sched": 42}], "rerun": True})
    return cs


def cache_defect_case():
    return {"kind": "toy", "seed": 7, "envs": [{"tag": 0, "xs": list(range(30)), "fail_at": 27, "prefix": [["cache"]], "branches": [[]]}],
            "lrns": [{"tag": 0, "mult": 1}, {"tag": 1, "mult": 1}], "vals": [{"tag": 0, "seed": None, "learn": True}],
            "mode": "product", "pe": [0], "pl": [0, 1], "pv": [0],
            "runs": [{"cfg": [1, 0, 0], "how": "inproc", "sched": 0}, {"cfg": [2, 0, 0], "how": "sim", "sched": 1}]}


PROPERTY = C01()
